"""Helpers of the C04 rules: context selection, typed operand classification, three-valued
evaluation of branch conditions under an assumed order of two time values, small dataflow
analyses (pointer copies, value origins) and a bounded path enumerator on top of interp.

Nothing in here matches a variable name or a static function name of ivykis: operands are
recognised by (record, field) steps, objects by the value they were defined from."""
import json

from ..core import (AnalysisBroken, Inliner, canon, strip, walk, last_member, lvalue_steps, names_of,
                    norm_cond, forward, subst, simplify, must_pass)
from ..analyses import is_call, callback_kind
from .. import roles
from .. import interp

TIMER_RECS = ('iv_timer_', 'iv_timer')
TS_FIELDS = ('tv_sec', 'tv_nsec')
ORDERS = tuple((s, n) for s in '<=>' for n in '<=>')          # order of (sec, nsec) of value A relative to value B


def lex(o):
    """'<', '=' or '>' : lexicographic order of the two time values under the field orders o"""
    return o[0] if o[0] != '=' else o[1]


# --------------------------------------------------------------------------
# contexts
# --------------------------------------------------------------------------

def inline_root(prog, root, stop=(), **kw):
    cache = prog.__dict__.setdefault('_c04_inlined', {})        # per program object: never shared between source trees
    key = (root.q, tuple(sorted(stop)), tuple(sorted(kw.items())))
    if key not in cache:
        st = set(stop)
        cache[key] = addr_propagate(resolve_joined(prog, Inliner(prog, stop=lambda f: f.name in st or f.q in st, **kw).inline(root)))
    return cache[key]


def root_is_comparator(prog, g):
    """g is being inlined on behalf of comparators() itself (no recursion into it)"""
    return bool(prog.__dict__.get('_c04_comp_busy'))


def resolve_joined(prog, g):
    """A short-circuit expression whose value is kept (`x = a() && b();`, `return a() || b();`) leaves a join block whose
    condition still spells the helper calls although their bodies were inlined before it.  Such a call is the result of
    the one inlined instance entered at that source location: spell it `$retN`.  (When the operand was skipped by the
    short circuit its value does not matter to the joined condition.)  Calls of pure time comparators stay: they are
    evaluated from their arguments through the comparator's table wherever they stand."""
    keep = set() if root_is_comparator(prog, g) else {f.name for f in comparators(prog) if f.params[0].get('record') == 'timespec'}
    insts, by_chain = {}, {}
    for e in g.events():
        if e['ev'] == 'enter' and e.get('loc') and e.get('inst') is not None:
            insts.setdefault(e['loc'], set()).add(e['inst'])
            by_chain.setdefault((e['loc'], _chain_key(e)), set()).add(e['inst'])

    def resolver(chain):
        # a helper inlined at several places (a header function) has one instance per enclosing instance: the call
        # spelled in an expression of an event belongs to the instance entered from the same enclosing chain
        def r(n):
            if n.get('k') == 'call' and n.get('callee') and n['callee'] not in keep:
                cand = insts.get(n.get('loc'), ())
                if len(cand) != 1 and chain is not None:
                    cand = by_chain.get((n.get('loc'), chain), ())
                if len(cand) == 1:
                    return {'k': 'load', 'e': {'k': 'var', 'name': '$ret%d' % next(iter(cand)), 'vk': 'local', 'type': n.get('type', 'int')}}
            return None
        return r
    for blk in g.blocks.values():
        c = blk.term.get('cond') if blk.term else None
        if c is not None and any(x.get('k') == 'call' and x.get('callee') and x.get('loc') in insts for x in walk(c)):
            chains = {_chain_key(e) for e in blk.events if 'chain' in e}
            blk.term = dict(blk.term, cond=subst(c, resolver(next(iter(chains)) if len(chains) == 1 else None)))
        for e in blk.events:
            for k in ('rhs', 'value', 'init'):
                if isinstance(e.get(k), dict) and any(x.get('k') == 'call' and x.get('callee') and x.get('loc') in insts for x in walk(e[k])):
                    if not (strip(e[k]).get('k') == 'call'):          # the call statement / plain `x = f()` of the instance itself stays
                        e[k] = subst(e[k], resolver(_chain_key(e) if 'chain' in e else None))
    return g


def _chain_key(e):
    return tuple(tuple(x) if isinstance(x, (list, tuple)) else x for x in (e.get('chain') or ()))


_EXPR_KEYS = ('lhs', 'rhs', 'value', 'init', 'args', 'fnexpr')


def shadow(prog, f):
    """f itself, or -- when f keeps addresses in locals -- a private copy of f (nothing inlined) normalised by
    addr_propagate: what site predicates are evaluated on to find the functions that own a site"""
    cache = prog.__dict__.setdefault('_c04_shadow', {})
    if f.q not in cache:
        g = f
        if f.blocks and any(e['ev'] == 'store' and strip(e['lhs']).get('k') == 'var' and isinstance(strip(e.get('rhs')), dict)
                            and strip(e.get('rhs')).get('k') == 'addr' for e in f.events()):
            try:
                g = addr_propagate(Inliner(prog, stop=lambda f_: True).inline(f))
            except AnalysisBroken:
                g = f
        cache[f.q] = g
    return cache[f.q]


def addr_propagate(g):
    """Normalisation of an inlined context (it is private to these rules): reads of a local that holds a known address
    on every path (`now = &st->time`, `int *valid = &st->flag`, an out-parameter that received `&local`) are replaced by
    that address, so `*valid = 1`, `now->tv_sec`, `iv_time_get(now)` read like the code without the cached address.
    The defining stores stay; nothing else changes."""
    cps = ptr_copies(g)
    for bid, blk in g.blocks.items():
        for i, e in enumerate(blk.events):
            known = {n: v for n, v in cps.get((bid, i), {}).items() if isinstance(strip(v), dict) and strip(v).get('k') == 'addr'}
            if not known:
                continue
            for k in _EXPR_KEYS:
                if k in e and isinstance(e[k], (dict, list)):
                    if k == 'lhs' and strip(e[k]).get('k') == 'var':
                        continue
                    e[k] = _through(e[k], known)
        if blk.term and blk.term.get('cond') is not None:
            known = {n: v for n, v in cps.get((bid, len(blk.events)), {}).items() if isinstance(strip(v), dict) and strip(v).get('k') == 'addr'}
            if known:
                blk.term = dict(blk.term, cond=_through(blk.term['cond'], known))
    return g


def contexts(prog, site_pred, stop=(), files=None, **kw):
    """[(root, inlined root, [site events])]: every root (exported function / installed handler) from which a
    function containing a site is reachable by direct calls *without passing through another such root*, with its
    helpers inlined (inlining stops at the other roots of the set and at the functions named in `stop`).  A site of
    the source is therefore evaluated in every innermost calling context that reaches it, whatever static helpers
    the code between the root and the site is cut into."""
    owners = [f for f in sorted(prog.all_funcs(), key=lambda f: f.q)
              if (files is None or f.file.endswith(tuple(files))) and any(site_pred(e) for e in shadow(prog, f).events())]
    if not owners:
        return []
    ownq = {o.q for o in owners}
    rts = {r.q: r for r in roles.roots(prog)}
    need = {}
    for o in owners:
        for c in roles.callers_closure(prog, o):
            if c.q in rts:
                need[c.q] = c
    if not need:                                   # sites only in unreferenced static code: analyse the owners themselves
        need = {o.q: o for o in owners}
    stopn = set(stop)
    out = []
    for q in sorted(need):
        r = need[q]
        seen, work, hit = {r.q}, [r], False
        while work:
            x = work.pop()
            if x.q in ownq:
                hit = True
            u = prog.unit_of(x)
            for e in x.events():
                if e['ev'] == 'call' and 'callee' in e:
                    t = prog.resolve(u, e['callee']) if u else prog.funcs.get(e['callee'])
                    if t is None or not t.blocks or t.q in seen or t.name in stopn:
                        continue
                    if t.q in need and t.q != r.q:
                        continue
                    seen.add(t.q)
                    work.append(t)
        if not hit:
            continue
        g = inline_root(prog, r, stop=tuple(sorted(stopn | {n for n in need if n != r.q})), **kw)
        sites = [e for e in g.events() if site_pred(e)]
        if sites:
            out.append((r, g, sites))
    return out


def list_arg_member(e, i=0):
    a = strip(e['args'][i]) if len(e.get('args', [])) > i else None
    if isinstance(a, dict) and a.get('k') == 'addr':
        return last_member(a['e'])
    return None


def member_base(x):
    """base expression of `B->f` / `B.f` (as the pointer/object expression B)"""
    x = strip(x)
    return x.get('base') if isinstance(x, dict) and x.get('k') == 'member' else None


def is_store_of(e, rec, field):
    return e['ev'] == 'store' and last_member(e['lhs']) == (rec, field)


def const_of(x):
    x = strip(x)
    if isinstance(x, dict):
        if x.get('k') == 'int':
            return x['v']
        if x.get('k') == 'null':
            return 0
        if x.get('k') == 'un' and x.get('op') == '-' and strip(x['e']).get('k') == 'int':
            return -strip(x['e'])['v']
    return None



def same_obj(a, names, org=None, point=None):
    return bool(obj_names(a, org, point) & names) if isinstance(a, dict) else False


def obj_names(x, org=None, point=None):
    """Spellings under which the object a pointer expression denotes is known at a program point: the expression itself,
    the local it was cached in, and -- through the reaching definitions of locals (copies followed) -- the expressions
    it was defined from.  Two pointer expressions with a common spelling denote the same object as long as the local
    has not been redefined (the callers reset their state at such definitions)."""
    if not isinstance(x, dict):
        return set()
    ns = set(names_of(x))
    if org is not None and point is not None:
        for o in org.of(x, point):
            ns |= names_of(o)
    return ns


def redefines(e, names, recs=TIMER_RECS):
    """the event gives a new value to one of the locals in `names` (names = None: to any local pointer to one of the
    records): what was learnt about the object the local denoted no longer applies"""
    if e['ev'] == 'store':
        l = strip(e['lhs'])
        if l.get('k') != 'var':
            return False
        if names is None:
            return bool(l.get('ptr')) and l.get('record') in recs
        return l['name'] in names
    if e['ev'] == 'decl':
        if names is None:
            return e.get('record') in recs
        return e['name'] in names
    return False


def enter_arg(prog, g, e, recs=TIMER_RECS):
    """for an event that stems from an inlined call: the argument that the outermost inlined call it lies in receives for
    its pointer-to-record parameter (the object the helper works on, in the caller's terms), else None"""
    ch = e.get('chain') or []
    if not ch:
        return None
    caller, loc, callee = ch[0]
    t = prog.funcs.get(callee)
    if t is None:
        return None
    idx = [i for i, p_ in enumerate(t.params) if p_.get('ptr') and p_.get('record') in recs]
    if len(idx) != 1:
        return None
    for x in g.events():
        if x['ev'] == 'enter' and x.get('loc') == loc and x.get('fn') == caller and not x.get('chain') and callee in x.get('targets', ()):
            if idx[0] < len(x.get('args', [])):
                return x['args'][idx[0]]
    return None



# --------------------------------------------------------------------------
# available pointer copies:  p = &path
# --------------------------------------------------------------------------

def _simp(x):
    """core.simplify, and additionally *(&X) => X where the address is wrapped in loads / casts (as left behind when the
    inliner substitutes `&local` for an out-parameter)"""
    def r(n):
        if n.get('k') == 'deref' and isinstance(n.get('e'), dict):
            b = strip(n['e'])
            if isinstance(b, dict) and b.get('k') == 'addr':
                return _simp(b['e'])
        return None
    return simplify(subst(x, r))


def _through(x, ptrs):
    """rewrite reads of locals that hold a known address by that address: (&Z)->f becomes Z.f"""
    if not ptrs:
        return _simp(x)

    def r(n):
        if n.get('k') == 'load' and isinstance(n.get('e'), dict) and n['e'].get('k') == 'var' and n['e']['name'] in ptrs:
            return ptrs[n['e']['name']]
        return None
    return _simp(subst(x, r))


def object_addr(x):
    """x is the address of an object that exists whatever the pointers hold: `&V`, `&V.f.g` (V a variable, no pointer is
    followed on the way).  Such a value is never NULL."""
    x = strip(x)
    if not (isinstance(x, dict) and x.get('k') == 'addr'):
        return False
    z = x.get('e')
    while isinstance(z, dict) and z.get('k') == 'member' and not z.get('arrow'):
        z = z.get('base')
    return isinstance(z, dict) and z.get('k') == 'var'


_ONE = {'k': 'int', 'v': 1}


def nonnull_facts(x, truth=False):
    """rewrite the places of x where only the *nullness* of a pointer value matters -- operand of a comparison with
    NULL / 0, of `!`, `&&`, `||`, the test of `?:`, and x itself when truth is set (x is a branch condition) -- when the
    pointer is the address of an existing object (object_addr): it counts as 1 there.  `p = helper(&local, ...)` where the
    helper answers "the buffer I filled, or NULL" is decided by this once the helper's result is known to be &local."""
    if isinstance(x, list):
        return [nonnull_facts(y) for y in x]
    if not isinstance(x, dict):
        return x
    k = x.get('k')
    if truth and object_addr(x) and not any(w.get('k') == 'cast' and '*' not in str(w.get('to') or '*') for w in _wrappers(x)):
        return dict(_ONE)
    if k in ('load', 'stmtexpr', 'cast') and 'e' in x:
        keep = truth and (k != 'cast' or '*' in str(x.get('to') or '*'))
        return dict(x, e=nonnull_facts(x['e'], keep))
    if k == 'un' and x.get('op') == '!':
        return dict(x, e=nonnull_facts(x['e'], True))
    if k == 'bin' and x.get('op') in ('&&', '||'):
        return dict(x, l=nonnull_facts(x['l'], True), r=nonnull_facts(x['r'], True))
    if k == 'bin' and x.get('op') in ('==', '!='):
        l, r = x['l'], x['r']
        if _is_zero(r) and not _is_zero(l):
            return dict(x, l=nonnull_facts(l, True), r=r)
        if _is_zero(l) and not _is_zero(r):
            return dict(x, l=l, r=nonnull_facts(r, True))
    if k == 'cond':
        return dict(x, c=nonnull_facts(x['c'], True), a=nonnull_facts(x['a'], truth), b=nonnull_facts(x['b'], truth))
    return {kk: (nonnull_facts(v) if isinstance(v, (dict, list)) else v) for kk, v in x.items()}


def _wrappers(x):
    while isinstance(x, dict) and x.get('k') in ('load', 'cast', 'stmtexpr') and 'e' in x:
        yield x
        x = x['e']


def _is_zero(x):
    x = strip(x)
    return isinstance(x, dict) and (x.get('k') == 'null' or (x.get('k') == 'int' and x.get('v') == 0))


def _boolish(r):
    r = strip(r)
    return isinstance(r, dict) and ((r.get('k') == 'bin' and r.get('op') in ('==', '!=', '<', '>', '<=', '>=', '&&', '||')) or
                                    (r.get('k') == 'un' and r.get('op') == '!'))


def ptr_copies(g):
    """{(bid, i): {local: expr}} -- locals whose current value is a known expression on every path: `&lvalue`
    (directly or copied from another such local), or a boolean expression (comparison / negation / conjunction; kept
    spelled through the addresses known at its definition).  Neither the local nor a variable the expression is spelled
    with was written since.  Lets `now = &st->time; ... now->tv_sec`, the by-value parameter copies the inliner makes
    and `due = !later; if (!due)` read like the expression itself."""
    def vars_in(x):
        return frozenset(y['name'] for y in walk(x) if y.get('k') == 'var')

    def unprop(x):
        """an address that was computed from a local must keep depending on that local, not on the memory the local was
        read from (copy propagation spelled `t` as `*heap_top`; the address `&t->node` does not change when *heap_top does)"""
        def r(n):
            if '_was' in n and isinstance(n['_was'], str):
                return {'k': 'load', 'e': {'k': 'var', 'name': n['_was'], 'vk': 'local', 'type': n.get('type', '')}}
            return None
        return subst(x, r)

    def tr(e, S):
        if e['ev'] == 'store':
            l = strip(e['lhs'])
            if l.get('k') == 'var':
                nm = l['name']
                S0 = S
                S = frozenset(x for x in S if x[0] != nm and nm not in x[2])
                r = strip(e.get('rhs')) if e.get('op') == '=' and 'rhs' in e else None
                if isinstance(r, dict) and r.get('k') == 'addr':
                    r = unprop(r)
                if isinstance(r, dict) and r.get('k') == 'addr' and nm not in vars_in(r):
                    S = S | {(nm, json.dumps(r, sort_keys=True), vars_in(r))}
                elif isinstance(r, dict) and r.get('k') == 'var' and r['name'] != nm:
                    # copy of a local that holds a known value
                    S = S | {(nm, x[1], x[2] | {r['name']}) for x in S if x[0] == r['name']}
                elif isinstance(r, dict) and r.get('k') == 'member' and l.get('record') == 'timespec' and not l.get('ptr') and nm not in vars_in(r):
                    # snapshot of a struct timespec lvalue in a local struct: `struct timespec now = st->time;`
                    S = S | {(nm, json.dumps(r, sort_keys=True), vars_in(r))}
                elif _boolish(r):
                    known = {x[0]: json.loads(x[1]) for x in S0 if strip(json.loads(x[1])).get('k') == 'addr'}
                    r2 = _through(e['rhs'], known)
                    if nm not in vars_in(r2):
                        S = S | {(nm, json.dumps(r2, sort_keys=True), vars_in(r2))}
        elif e['ev'] == 'decl':
            nm = e['name']
            S = frozenset(x for x in S if x[0] != nm and nm not in x[2])
        elif e['ev'] == 'call':
            for a in e.get('args', []):
                a = strip(a)
                if isinstance(a, dict) and a.get('k') == 'addr' and strip(a['e']).get('k') == 'var':
                    nm = strip(a['e'])['name']
                    S = frozenset(x for x in S if x[0] != nm and nm not in x[2])
        return S
    _, ev_in = forward(g, frozenset(), tr, lambda a, b: a & b)
    return {k: {x[0]: json.loads(x[1]) for x in v} for k, v in ev_in.items()}


def deref_target(p, copies):
    """lvalue a pointer expression points at: `&Z` -> Z; a local with an available copy `&Z` -> Z; else None"""
    p = strip(p)
    if isinstance(p, dict) and p.get('k') == 'var' and p['name'] in copies:
        p = strip(copies[p['name']])
    if isinstance(p, dict) and p.get('k') == 'addr':
        return p['e']
    return None


def ts_operand(x, copies):
    """(timespec lvalue Z, field) when x reads Z.tv_sec / Z.tv_nsec, else None"""
    x = strip(x)
    if not (isinstance(x, dict) and x.get('k') == 'member' and x.get('field') in TS_FIELDS):
        return None
    if x['arrow']:
        z = deref_target(x['base'], copies)
        z = z if z is not None else {'k': 'deref', 'e': x['base']}
    else:
        z = x['base']
    zs = strip(z)
    if isinstance(zs, dict) and zs.get('k') == 'var' and zs['name'] in copies and strip(copies[zs['name']]).get('k') == 'member':
        z = copies[zs['name']]                # a local snapshot of another timespec lvalue
    return (z, x['field'])


# --------------------------------------------------------------------------
# three-valued evaluation of a condition under an assumed order
# --------------------------------------------------------------------------

def eval3(c, order_of, truth_of=None):
    """True / False / None (unknown).  order_of(l, r) -> '<' | '=' | '>' | None for the operands of a comparison;
    truth_of(expr) -> bool | None for a value used as a truth value."""
    v = val3(c, order_of, truth_of)
    return None if v is None else bool(v)


def val3(c, order_of, truth_of=None):
    c = strip(c)
    if not isinstance(c, dict):
        return None
    k = c.get('k')
    if k == 'int':
        return c['v']
    if k == 'null':
        return 0
    if k == 'un' and c['op'] == '!':
        v = val3(c['e'], order_of, truth_of)
        return None if v is None else int(not v)
    if k == 'un' and c['op'] == '-':
        v = val3(c['e'], order_of, truth_of)
        return None if v is None else -v
    if k == 'bin':
        op = c['op']
        if op in ('&&', '||'):
            a, b = val3(c['l'], order_of, truth_of), val3(c['r'], order_of, truth_of)
            if op == '&&':
                if (a is not None and not a) or (b is not None and not b):
                    return 0
                return 1 if (a is not None and b is not None) else None
            if (a is not None and a) or (b is not None and b):
                return 1
            return 0 if (a is not None and b is not None) else None
        if op in interp.CMP:
            o = order_of(c['l'], c['r'])
            if o is not None:
                return int(interp.cmp_holds(o, op))
            a, b = val3(c['l'], order_of, truth_of), val3(c['r'], order_of, truth_of)
            if a is not None and b is not None:
                return int(eval('%d %s %d' % (a, op, b)))
            return None
        return None
    if k == 'cond':
        t = val3(c['c'], order_of, truth_of)
        if t is None:
            a, b = val3(c['a'], order_of, truth_of), val3(c['b'], order_of, truth_of)
            return a if a is not None and a == b else None
        return val3(c['a'] if t else c['b'], order_of, truth_of)
    if truth_of is not None:
        t = truth_of(c)
        if t is not None:
            return int(t)
    return None


def deref_of_var(z):
    """name of the pointer variable when the lvalue is `*p`, else None"""
    z = strip(z) if isinstance(z, dict) and z.get('k') in ('cast', 'stmtexpr') else z
    if isinstance(z, dict) and z.get('k') == 'deref':
        v = strip(z['e'])
        if isinstance(v, dict) and v.get('k') == 'var':
            return v['name']
    return None


def pair_order(l, r, copies, klass, o):
    """order of the operands of a comparison when they are the same field of the two time values A and B
    (klass(Z) -> 'A' | 'B' | None), oriented as written; o = (order of seconds, order of nanoseconds) of A vs B"""
    a, b = ts_operand(l, copies), ts_operand(r, copies)
    if a is None or b is None or a[1] != b[1]:
        return None
    ka, kb = klass(a[0]), klass(b[0])
    if {ka, kb} != {'A', 'B'}:
        return None
    v = o[0] if a[1] == 'tv_sec' else o[1]
    return v if ka == 'A' else {'<': '>', '>': '<', '=': '='}[v]



def root_var(z):
    """name of the variable an lvalue / pointer expression is reached from (through members, dereferences, loads), else None"""
    z = strip(z)
    while isinstance(z, dict):
        k = z.get('k')
        if k == 'var':
            return z['name']
        if k == 'member':
            z = strip(z['base'])
        elif k in ('deref', 'addr'):
            z = strip(z['e'])
        elif k == 'index':
            z = strip(z['base'])
        else:
            return None
    return None


def order_keys(x, copies):
    """the spellings under which explore() may look up the operands of comparison x: as written, and written through
    the addresses that pointer locals are known to hold there"""
    known = {n: v for n, v in copies.items() if isinstance(strip(v), dict) and strip(v).get('k') == 'addr'}
    ks = [(canon(x['l']), canon(x['r']))]
    k2 = (canon(_through(x['l'], known)), canon(_through(x['r'], known)))
    if k2 not in ks:
        ks.append(k2)
    return ks


def comparators(prog):
    """Pure comparison functions of two time values, found by signature -- two pointers to struct timespec, or two pointers
    to timers (whose expiries they compare) --, integer result, and, with their helpers inlined, no remaining calls and
    no stores through pointers.  Not by name."""
    if getattr(prog, '_c04_comparators', None) is not None:
        return prog._c04_comparators
    prog.__dict__['_c04_comp_busy'] = True
    try:
        return _find_comparators(prog)
    finally:
        prog.__dict__['_c04_comp_busy'] = False


def _find_comparators(prog):
    out = []
    for f in sorted(prog.all_funcs(), key=lambda f: f.q):
        ps = f.params
        if len(ps) != 2 or not all(p.get('ptr') for p in ps) or f.ret != 'int' or not f.blocks:
            continue
        if not (all(p.get('record') == 'timespec' for p in ps) or all(p.get('record') in TIMER_RECS for p in ps)):
            continue
        try:
            g = inline_root(prog, f) if any(e['ev'] == 'call' for e in f.events()) else f
        except AnalysisBroken:
            continue
        pure = True
        for e in g.events():
            if e['ev'] == 'call':
                pure = False
            if e['ev'] == 'store' and strip(_simp(e['lhs'])).get('k') != 'var':
                pure = False
        if pure:
            f._c04_body = g
            out.append(f)
    prog._c04_comparators = out
    return out


def comparator_table(f):
    """{order of (first argument, second argument): result} over the 9 orders of (seconds, nanoseconds) of the time value
    reached from the first parameter relative to the one reached from the second, both arguments non-NULL; the operands
    of the comparisons are classified by the parameter they are reached from, not by their spelling"""
    if getattr(f, '_c04_table', None) is None:
        g = getattr(f, '_c04_body', f)
        a, b = f.params[0]['name'], f.params[1]['name']
        copies = ptr_copies(g)

        def klass(z):
            r = root_var(z)
            return 'A' if r == a else ('B' if r == b else None)
        cmps = []
        for bid, blk in g.blocks.items():
            srcs = [(blk.term['cond'], copies.get((bid, len(blk.events)), {}))] if blk.term and blk.term.get('cond') is not None else []
            for i, e in enumerate(blk.events):
                for key in ('rhs', 'value', 'init'):
                    if key in e:
                        srcs.append((e[key], copies.get((bid, i), {})))
            for x0, cp in srcs:
                for x in walk(x0):
                    if x.get('k') == 'bin' and x.get('op') in interp.CMP and pair_order(x['l'], x['r'], cp, klass, ('=', '=')) is not None:
                        cmps.append((x, cp))
        tab = {}
        for o in ORDERS:
            orders = {k_: pair_order(x['l'], x['r'], cp, klass, o) for (x, cp) in cmps for k_ in order_keys(x, cp)}
            vals = set()
            for path in explore(g, orders=orders, bools={a: True, b: True}, max_paths=200):
                vals.add(path['ret'] if path['end'] == 'ret' else None)
            tab[o] = vals.pop() if len(vals) == 1 else None
        f._c04_table = tab
    return f._c04_table


FLIP = {'<': '>', '>': '<', '=': '='}


def comparator_call(prog, c, copies, klass, o):
    """value of a call of a pure comparator on the two time values A and B under order o (of A relative to B), from the
    table of the comparator evaluated over all orders; None for anything else"""
    c = strip(c)
    if not (isinstance(c, dict) and c.get('k') == 'call' and c.get('callee') and len(c.get('args', [])) == 2):
        return None
    fs = [f for f in comparators(prog) if f.name == c['callee'] and f.params[0].get('record') == 'timespec']
    if len(fs) != 1:
        return None
    zs = [deref_target(a, copies) for a in c['args']]
    if any(z is None for z in zs):
        return None
    ks = [klass(z) for z in zs]
    if ks == ['A', 'B']:
        v = comparator_table(fs[0]).get(o)
    elif ks == ['B', 'A']:
        v = comparator_table(fs[0]).get((FLIP[o[0]], FLIP[o[1]]))
    else:
        return None
    return v if isinstance(v, int) else None


# --------------------------------------------------------------------------
# effects on the loop clock / on expiry values
# --------------------------------------------------------------------------

EXPIRES = {('iv_timer_', 'expires'), ('iv_timer', 'expires')}

# The state the rules talk about, identified by what is done with it rather than by its name (a field may be renamed,
# moved into a sub-structure, or have its polarity turned round).  Filled in by bind(prog) at every entry point.
ROLE = {'clock': set(), 'flag': None, 'valid': 1, 'num': None, 'prog': None}
CLOCK_KEYS = set(EXPIRES)

_INT_T = __import__('re').compile(r'^(?:(?:const|volatile|unsigned|signed|short|long|int|char|_Bool)\s*)+$|^u?int\d+_t$|^s?size_t$')


def int_member(x):
    """x is an integer-typed member lvalue (not a field of a struct timespec)"""
    x = strip(x)
    return isinstance(x, dict) and x.get('k') == 'member' and x.get('field') not in TS_FIELDS and bool(_INT_T.match((x.get('type') or '').strip()))


def _discover(prog):
    """clock  = the time values in memory that iv_time_get() is asked to fill (the cached loop time);
    flag/valid = the integer member and the constant that the code reading the clock into the cache stores next to the
                 read ("the cache is valid now"; the pair most readers agree on);
    num    = the integer member that iv_timer_register and iv_timer_unregister both step and that only they (and their
             helpers) write (the number of registered timers; tie-break: the one iv_get_soonest_timeout tests)."""
    role = {'clock': set(), 'flag': None, 'valid': 1, 'num': None, 'prog': prog}
    readers = []
    for f in prog.all_funcs():
        if not any(is_call(e, 'iv_time_get') for e in f.events()):
            continue
        cps = ptr_copies(f)
        hit = False
        for e in f.events():
            if is_call(e, 'iv_time_get') and e.get('args'):
                z = deref_target(e['args'][0], cps.get((e['_b'], e['_i']), {}))
                if z is not None and last_member(z) is not None:
                    role['clock'].add(last_member(z))
                    hit = True
        if hit:
            readers.append(f)

    def const_stores(f):
        out = set()
        cps = None
        for e in f.events():
            if e['ev'] == 'store' and e.get('op') == '=' and 'rhs' in e:
                l = strip(e['lhs'])
                if isinstance(l, dict) and l.get('k') == 'deref':
                    cps = ptr_copies(f) if cps is None else cps
                    t = deref_target(l['e'], cps.get((e['_b'], e['_i']), {}))
                    l = strip(t) if t is not None else l
                r = strip(e['rhs'])
                if int_member(l) and isinstance(r, dict) and r.get('k') == 'int':
                    out.add((last_member(l), r['v']))
        return out
    sets = []
    for f in readers:
        c = const_stores(f)
        if not c:
            for (g, _) in prog.callers_of(f.name):
                c |= const_stores(g)
        sets.append(c)
    votes = {}
    for c in sets:
        for pair in c:
            votes[pair] = votes.get(pair, 0) + 1
    best = sorted(votes.items(), key=lambda kv: -kv[1])
    if best and (len(best) == 1 or best[0][1] > best[1][1]):          # what (nearly) every reader does; a reader that does not is reported by R-C04b
        (role['flag'], role['valid']) = best[0][0]
    # number of registered timers
    try:
        stepped = []
        for name in ('iv_timer_register', 'iv_timer_unregister'):
            g = inline_root(prog, prog.fn(name))
            stepped.append({last_member(e['lhs']) for e in g.events() if e['ev'] == 'store' and int_member(e['lhs'])})
        s_ = inline_root(prog, prog.fn('iv_get_soonest_timeout'))
        tested = set()
        for blk in s_.blocks.values():
            if blk.term and blk.term.get('cond') is not None:
                tested |= {last_member(x) for x in walk(blk.term['cond']) if int_member(x)}
            for e in blk.events:
                for k in ('rhs', 'value', 'init'):
                    if k in e and isinstance(e[k], dict):
                        tested |= {last_member(x) for x in walk(e[k]) if int_member(x)}
        # ... and that nothing outside the timer code writes (the count of all registered objects is stepped next to it)
        owners = set()
        for name in ('iv_timer_register', 'iv_timer_unregister'):
            g = inline_root(prog, prog.fn(name))
            owners |= {prog.fn(name).q} | {e['fn'] for e in g.events() if e.get('fn')}
        nums = {m for m in stepped[0] & stepped[1] if m is not None and
                all((wf.q in owners or wf.name in owners) for (wf, _) in prog.writers_of(*m))}
        if len(nums) > 1:
            # a registration always raises the count (a level of the tree is added only now and then)
            g = inline_root(prog, prog.fn('iv_timer_register'))
            always = set()
            for m in nums:
                mp = must_pass(g, lambda e, m=m: e['ev'] == 'store' and last_member(e['lhs']) == m)
                pts = [(b, i) for b, blk in g.blocks.items() for i, e in enumerate(blk.events) if e['ev'] == 'ret' and not e.get('chain')] + [(g.exit, 0)]
                if all(mp.get(pt_) is not False for pt_ in pts) and any(mp.get(pt_) for pt_ in pts):
                    always.add(m)
            if always:
                nums = always
        if len(nums) > 1 and len(nums & tested) == 1:
            nums &= tested
        if len(nums) == 1:
            role['num'] = next(iter(nums))
    except AnalysisBroken:
        pass
    return role


def bind(prog):
    """make the roles of this program current (called at every entry point of the rules)"""
    if ROLE.get('prog') is prog:
        return ROLE
    r = prog.__dict__.get('_c04_roles')
    if r is None:
        r = prog.__dict__['_c04_roles'] = _discover(prog)
    ROLE.update(r)
    CLOCK_KEYS.clear()
    CLOCK_KEYS.update(EXPIRES | r['clock'] | ({r['flag']} if r['flag'] else set()))
    return ROLE


def need(what):
    v = ROLE.get(what)
    if not v and v != 0:
        raise AnalysisBroken({'clock': 'no cached loop time found (a time value in memory that iv_time_get() fills)',
                              'flag': 'the validity flag of the cached loop time is not identified (the integer member that every reader of the clock sets to one constant)',
                              'num': 'the count of registered timers is not identified (the integer member stepped by iv_timer_register and iv_timer_unregister and written by nothing else)'}[what])
    return v


def is_clock(z):
    return last_member(z) in ROLE['clock']


def is_flag(z):
    return ROLE['flag'] is not None and last_member(z) == ROLE['flag']


def is_num(z):
    return ROLE['num'] is not None and last_member(z) == ROLE['num']


def says_valid(op, rc):
    """an atom `flag op rc` (rc: constant as text) holds exactly for the value that means "valid" (flag domain 0/1 + that value)"""
    try:
        c = int(rc)
    except (TypeError, ValueError):
        return False
    dom = {0, 1, ROLE['valid']}
    return {x for x in dom if eval('%d %s %d' % (x, op, c))} == {ROLE['valid']}


def clock_touchers(prog):
    """qualified names of functions that (through direct calls) may write the cached loop time, its validity flag or a
    timer's expiry, read the clock, or enter user code"""
    if getattr(prog, '_c04_touch', None) is not None:
        return prog._c04_touch
    direct, calls = set(), {}
    for f in prog.all_funcs():
        u = prog.unit_of(f)
        cs = set()
        if f.noreturn or (f.blocks and f.exit not in f.reachable_blocks()):   # iv_fatal: what it does never reaches the caller's continuation
            calls[f.q] = cs
            continue
        for e in f.events():
            if e['ev'] == 'store' and set(lvalue_steps(e['lhs'])) & CLOCK_KEYS:
                direct.add(f.q)
            elif e['ev'] == 'call':
                if 'fnexpr' in e:
                    k = callback_kind(e)
                    if not k or k[0] != 'method':
                        direct.add(f.q)
                elif e.get('callee') == 'iv_time_get':
                    direct.add(f.q)
                else:
                    t = prog.resolve(u, e['callee']) if u else prog.funcs.get(e['callee'])
                    if t is not None:
                        cs.add(t.q)
        calls[f.q] = cs
    changed = True
    while changed:
        changed = False
        for q, cs in calls.items():
            if q not in direct and cs & direct:
                direct.add(q)
                changed = True
    prog._c04_touch = direct
    return direct


def is_clock_read(e, copies):
    """iv_time_get(&<iv_state>.time): the cached loop time is refreshed from the clock"""
    if not is_call(e, 'iv_time_get') or not e.get('args'):
        return False
    z = deref_target(e['args'][0], copies)
    return z is not None and is_clock(z)


def invalidates(e):
    """a store that marks the cached loop time invalid: a constant other than the "valid" value goes into the flag"""
    return e['ev'] == 'store' and is_flag(e['lhs']) and e.get('op') == '=' and const_of(e.get('rhs')) is not None and const_of(e.get('rhs')) != ROLE['valid']


def opaque_touch(prog, g, e):
    """a call that is not inlined and may change clock / expiry / run user code"""
    if e['ev'] != 'call':
        return False
    if 'fnexpr' in e:
        k = callback_kind(e)
        return not (k and k[0] == 'method' and k[1] in ('set_poll_timeout', 'clear_poll_timeout'))
    if e.get('callee') == 'iv_time_get':
        return True
    src = prog.funcs.get(e.get('fn')) if e.get('fn') else None
    u = prog.unit_of(src) if src is not None else prog.unit_of(g)
    t = prog.resolve(u, e['callee']) if u else prog.funcs.get(e['callee'])
    return t is not None and t.q in clock_touchers(prog)


def clock_valid(prog, g, copies):
    """{(bid, i): bool}: on every path the cached loop time was read from the clock (or tested valid) since it was last
    invalidated / since user code ran"""
    def tr(e, s):
        cp = copies.get((e['_b'], e['_i']), {})
        if is_clock_read(e, cp):
            return True
        if invalidates(e) or opaque_touch(prog, g, e):
            return False
        return s

    def edge(blk, si, s):
        if blk.term and blk.term.get('cond') is not None and len(blk.succ) == 2 and blk.term.get('cls') not in ('SwitchStmt', 'MethodDispatch'):
            for (op, lc, rc, l, r) in norm_cond(blk.term['cond'], si == 0):
                if op != 'const' and is_flag(l) and says_valid(op, rc):
                    return True
        return s
    _, ev_in = forward(g, False, tr, lambda a, b: a and b, edge=edge)
    return ev_in


def order_sets(prog, g, copies, klass_at, reset):
    """{(bid, i): frozenset(orders)}: the orders of time value A relative to time value B that the branch conditions
    crossed since the last `reset` event still allow (may-analysis; everything is allowed after a reset, after the
    clock was re-read, after user code).  klass_at(copies, point) -> klass function for the operands.  A condition is
    evaluated in three-valued logic under each order: field comparisons of A with B, calls of pure comparators on
    (A, B) through their tables, boolean locals through their available definitions."""
    ALL = frozenset(ORDERS)

    def tr(e, S):
        if reset(e):
            return ALL
        if e['ev'] == 'store' and (set(lvalue_steps(e['lhs'])) & (CLOCK_KEYS - {ROLE['flag']})
                                   or any(st[0] == 'timespec' for st in lvalue_steps(e['lhs']))):
            return ALL
        if opaque_touch(prog, g, e):
            return ALL
        return S

    def edge(blk, si, S):
        if not (blk.term and blk.term.get('cond') is not None and len(blk.succ) == 2) or blk.term.get('cls') in ('SwitchStmt', 'MethodDispatch'):
            return S
        cp = copies.get((blk.id, len(blk.events)), {})
        klass = klass_at(cp, (blk.id, len(blk.events)))
        c = blk.term['cond']
        out, informative = set(), False
        for o in S:
            def order_of(l, r, o=o):
                return pair_order(l, r, cp, klass, o)

            def leaf(x, o=o, depth=[0]):
                x = strip(x)
                if x.get('k') == 'var' and x['name'] in cp and _boolish(cp[x['name']]) and depth[0] < 6:
                    depth[0] += 1
                    try:
                        return val3(cp[x['name']], order_of, leaf)
                    finally:
                        depth[0] -= 1
                if x.get('k') == 'call':
                    return comparator_call(prog, x, cp, klass, o)
                return None
            v = eval3(c, order_of, leaf)
            if v is not None:
                informative = True
            if v is None or v == (si == 0):
                out.add(o)
        if not informative:
            return S
        return frozenset(out) if out else None
    _, ev_in = forward(g, ALL, tr, lambda a, b: a | b, edge=edge)
    return ev_in


def compares_in(prog, cond, copies, klass):
    """does the condition say anything about the order of A and B (field comparison, comparator call, boolean local
    defined from one)?"""
    for x in walk(cond):
        if x.get('k') == 'bin' and x.get('op') in interp.CMP and pair_order(x['l'], x['r'], copies, klass, ('=', '=')) is not None:
            return True
        if x.get('k') == 'call' and comparator_call(prog, x, copies, klass, ('=', '=')) is not None:
            return True
        if x.get('k') == 'var' and x['name'] in copies and _boolish(copies[x['name']]) and compares_in(prog, copies[x['name']], copies, klass):
            return True
    return False


# --------------------------------------------------------------------------
# value origins (reaching definitions through copies)
# --------------------------------------------------------------------------

class Origins:
    """May-analysis: for every local the set of non-variable expressions its value may come from (copies between
    locals and the arms of conditional expressions are followed; a local whose address is passed to a call gets the
    call as an origin).  `of(expr, point)` gives the origin expressions of an arbitrary value expression."""

    def __init__(self, g):
        self.g = g
        self.tab = []
        self.ids = {}
        _, self.ev_in = forward(g, frozenset(), self._tr, lambda a, b: a | b)

    def _oid(self, x):
        k = json.dumps(x, sort_keys=True, default=str)
        if k not in self.ids:
            self.ids[k] = len(self.tab)
            self.tab.append(x)
        return self.ids[k]

    def _src(self, x, S):
        r = strip(x)
        if isinstance(r, dict) and r.get('k') == 'var' and r.get('vk') in ('local', 'param'):
            got = frozenset(o for (v, o) in S if v == r['name'])
            return got or frozenset({self._oid(r)})
        if isinstance(r, dict) and r.get('k') == 'cond':
            return self._src(r['a'], S) | self._src(r['b'], S)
        return frozenset({self._oid(r)})

    def _tr(self, e, S):
        if e['ev'] == 'store':
            l = strip(_simp(e['lhs']))
            if isinstance(l, dict) and l.get('k') == 'deref':
                pv = strip(l['e'])
                if isinstance(pv, dict) and pv.get('k') == 'var':
                    os_ = [strip(self.tab[o]) for (v, o) in S if v == pv['name']]
                    if len(os_) == 1 and isinstance(os_[0], dict) and os_[0].get('k') == 'addr' and strip(os_[0]['e']).get('k') == 'var':
                        l = strip(os_[0]['e'])
            if l.get('k') == 'var' and l.get('vk') in ('local', 'param'):
                nm = l['name']
                if e.get('op') == '=' and 'rhs' in e:
                    new = self._src(e['rhs'], S)
                else:
                    new = frozenset({self._oid({'k': 'other', 'what': 'updated', 'loc': e.get('loc')})})
                return frozenset(x for x in S if x[0] != nm) | frozenset((nm, o) for o in new)
        elif e['ev'] == 'decl':
            return frozenset(x for x in S if x[0] != e['name'])
        elif e['ev'] == 'call':
            for a in e.get('args', []):
                a = strip(a)
                if isinstance(a, dict) and a.get('k') == 'addr' and strip(a['e']).get('k') == 'var':
                    nm = strip(a['e'])['name']
                    if any(x[0] == nm for x in S):
                        S = frozenset(x for x in S if x[0] != nm) | {(nm, self._oid({'k': 'other', 'what': 'escaped', 'loc': e.get('loc')}))}
        return S

    def of(self, x, point):
        S = self.ev_in.get(point)
        if S is None:
            return []
        return [self.tab[o] for o in sorted(self._src(x, S))]


# --------------------------------------------------------------------------
# bounded path enumeration with a small memory model
# --------------------------------------------------------------------------

class Stop(Exception):
    pass


def ts_key(z, field):
    """canonical memory key of field `field` of the timespec lvalue z (as explore() spells it)"""
    if isinstance(z, dict) and z.get('k') == 'deref':
        return canon({'k': 'member', 'arrow': True, 'base': z['e'], 'field': field})
    return canon({'k': 'member', 'arrow': False, 'base': z, 'field': field})


def _fork_extras(path):
    """what on_event hooks keep in the path dict (logs, symbolic values) belongs to the path: every alternative of a
    fork continues with its own copy"""
    out = {}
    for k, v in path.items():
        if k in _PATH_KEYS:
            continue
        out[k] = list(v) if isinstance(v, list) else (dict(v) if isinstance(v, dict) else (set(v) if isinstance(v, set) else v))
    return out


_PATH_KEYS = ('end', 'ret', 'trace', 'env', 'mem', 'assumed', 'ptrs', 'eval')


def inst_results(g):
    """({id(call node): N}, {loc: N}): the call nodes that are still spelled inside a kept expression (`x = c ? helper(a) : 1`,
    `return a() && b()`: the helper's body was inlined in the blocks before the join, the expression keeps the call) and the
    inlined instance N whose result `$retN` they denote -- the one entered at that source location from the same inlining
    chain.  Nothing is rewritten (order-set analyses evaluate kept comparator calls through their tables); a path evaluator
    reads the value the instance left on its path."""
    res = getattr(g, '_c04_instres', None)
    if res is not None:
        return res
    insts, by_chain = {}, {}
    for e in g.events():
        if e['ev'] == 'enter' and e.get('loc') and e.get('inst') is not None:
            insts.setdefault(e['loc'], set()).add(e['inst'])
            by_chain.setdefault((e['loc'], _chain_key(e)), set()).add(e['inst'])
    by_id, by_loc = {}, {l: next(iter(v)) for l, v in insts.items() if len(v) == 1}

    def note(x, chain):
        for n in walk(x):
            if n.get('k') == 'call' and n.get('callee') and n.get('loc') in insts:
                cand = insts[n['loc']]
                if len(cand) != 1 and chain is not None:
                    cand = by_chain.get((n['loc'], chain), ())
                if len(cand) == 1:
                    by_id[id(n)] = next(iter(cand))
    if insts:
        for blk in g.blocks.values():
            c = blk.term.get('cond') if blk.term else None
            if isinstance(c, dict):
                chains = {_chain_key(e) for e in blk.events if 'chain' in e}
                note(c, next(iter(chains)) if len(chains) == 1 else None)
            for e in blk.events:
                for k in ('rhs', 'value', 'init', 'args', 'e'):
                    if isinstance(e.get(k), (dict, list)):
                        for x in (e[k] if isinstance(e[k], list) else [e[k]]):
                            if isinstance(x, dict):
                                note(x, _chain_key(e) if 'chain' in e else None)
    g._c04_instres = (by_id, by_loc)
    return g._c04_instres


def _with_results(x, res, env, ptrs):
    """x with every kept call of an inlined helper replaced by the result `$retN` that its instance left on this path (only
    when that result is known on the path: an integer in env or an address in ptrs)"""
    by_id, by_loc = res
    if not (by_id or by_loc) or not isinstance(x, (dict, list)):
        return x

    def r(n):
        if n.get('k') == 'call' and n.get('callee'):
            i = by_id.get(id(n))
            if i is None:
                i = by_loc.get(n.get('loc'))
            if i is not None and ('$ret%d' % i in env or '$ret%d' % i in ptrs):
                return {'k': 'load', 'e': {'k': 'var', 'name': '$ret%d' % i, 'vk': 'local', 'type': n.get('type', 'int')}}
        return None
    if not any(n.get('k') == 'call' and n.get('callee') for n in walk(x)):
        return x
    return subst(x, r)


def explore(g, orders=None, bools=None, ints=None, on_event=None, start=None, max_paths=3000, max_visits=2, goal_blocks=None, decide=None):
    """All paths of g from its entry under a partial assignment: comparisons of the pairs in `orders`, truth values
    in `bools` and integer values in `ints` (all keyed by canonical expression text computed *from typed operands by
    the caller*) decide branches; integer locals and stores to memory lvalues are tracked concretely (memory keyed by
    the canonical lvalue, spelled through the addresses that pointer locals are known to hold); a branch nothing
    decides is followed both ways (and remembered for the rest of the path).
    on_event(event, env, asg, path) may raise Stop to end the path there; whatever it keeps in `path` under its own keys
    is carried (copied) into both continuations of a fork.  decide(cond) -> True | False | None is asked about a branch
    condition that the assignment leaves open (scenario restrictions such as "the list the wait filled is empty").
    Returns dicts(end, ret, trace, env, mem, assumed)."""
    orders = dict(orders or {})
    out = []
    useful = None
    results = inst_results(g)
    if goal_blocks is not None:          # only paths that can still reach a goal block are followed
        preds = g.preds()
        useful, work = set(goal_blocks), list(goal_blocks)
        while work:
            x = work.pop()
            for p_ in preds.get(x, ()):
                if p_ not in useful:
                    useful.add(p_)
                    work.append(p_)
    stack = [(g.entry if start is None else start, {}, dict(ints or {}), dict(bools or {}), [], {}, [], {}, {})]
    npaths = 0
    while stack:
        b, env, mem, bl, trace, visits, assumed, ptrs, extras = stack.pop()
        npaths += 1
        if npaths > max_paths:
            raise AnalysisBroken('%s: more than %d paths under the abstract assignment' % (g.name, max_paths))
        asg = interp.Assignment(orders=orders, bools=bl, ints=mem)
        path = dict(end=None, ret=None, trace=trace, env=env, mem=mem, assumed=assumed, ptrs=ptrs)
        path.update(extras)

        def ev_(x, truth=False):
            return interp.evaluate(nonnull_facts(_through(_with_results(x, results, env, path['ptrs']), path['ptrs']), truth), asg, env)
        path['eval'] = ev_
        while True:
            visits[b] = visits.get(b, 0) + 1
            if visits[b] > max_visits or (useful is not None and b not in useful):
                path['end'] = 'cut'
                break
            blk = g.blocks[b]
            try:
                for e in blk.events:
                    ev = e['ev']
                    if ev == 'load':
                        continue
                    trace.append(e)
                    if on_event:
                        on_event(e, env, asg, path)
                    if ev == 'enter' and e.get('inst') is not None:
                        # a new execution of the inlined instance: its result of an earlier execution on this path is gone
                        env.pop('$ret%d' % e['inst'], None)
                        ptrs.pop('$ret%d' % e['inst'], None)
                    elif ev == 'decl':
                        env.pop(e['name'], None)
                        ptrs.pop(e['name'], None)
                        if 'init' in e:
                            try:
                                env[e['name']] = ev_(e['init'])
                            except interp.Undecided:
                                pass
                    elif ev == 'store':
                        l = strip(_through(e['lhs'], ptrs))      # `*out = v` with out = &local is a store to the local
                        isvar = l.get('k') == 'var' and l.get('vk') in ('local', 'param')
                        if isvar:
                            nm = l['name']
                            for k_ in [k_ for k_, v_ in ptrs.items() if k_ == nm or any(y.get('k') == 'var' and y['name'] == nm for y in walk(v_))]:
                                ptrs.pop(k_)
                            r = _through(e['rhs'], ptrs) if e.get('op') == '=' and 'rhs' in e else None
                            rs = strip(r) if r is not None else None
                            while isinstance(rs, dict) and rs.get('k') == 'cond':       # `p = c ? &buf : NULL` with c decided on this path
                                try:
                                    rs = strip(rs['a'] if ev_(rs['c'], True) else rs['b'])
                                except interp.Undecided:
                                    break
                            if isinstance(rs, dict) and rs.get('k') == 'addr':
                                ptrs[nm] = rs
                        tgt, key = (env, l['name']) if isvar else (mem, canon(_through(e['lhs'], ptrs)))
                        try:
                            if e['op'] == '=':
                                tgt[key] = ev_(e['rhs'])
                            elif e['op'] in ('++', '--'):
                                tgt[key] = tgt[key] + (1 if e['op'] == '++' else -1)
                            else:
                                tgt[key] = int(eval('%d %s %d' % (tgt[key], e['op'][:-1], ev_(e['rhs']))))
                        except (interp.Undecided, KeyError, ZeroDivisionError):
                            tgt.pop(key, None)
                    elif ev == 'call':
                        # a local whose address is passed out is no longer known
                        for a in e.get('args', []):
                            a = strip(a)
                            if isinstance(a, dict) and a.get('k') == 'addr' and strip(a['e']).get('k') == 'var':
                                env.pop(strip(a['e'])['name'], None)
                    elif ev == 'ret' and not e.get('chain'):
                        if 'value' in e:
                            try:
                                path['ret'] = ev_(e['value'])
                            except interp.Undecided:
                                path['ret'] = None
                        path['end'] = 'ret'
                        break
            except Stop:
                path['end'] = 'stop'
            if path['end']:
                break
            if blk.noreturn:
                path['end'] = 'fatal'
                break
            succ = [s_ for s_ in blk.succ]
            if not succ or all(s_ is None for s_ in succ):
                path['end'] = 'exit'
                break
            if len(succ) == 1:
                b = succ[0]
                continue
            c = blk.term.get('cond') if blk.term else None
            decided = None
            if c is not None and len(succ) == 2 and blk.term.get('cls') not in ('SwitchStmt', 'MethodDispatch'):
                try:
                    decided = 0 if ev_(c, True) else 1
                except interp.Undecided:
                    decided = None
                if decided is None and decide is not None:
                    d_ = decide(_through(c, ptrs))
                    if d_ is not None:
                        decided = 0 if d_ else 1
            elif c is not None and blk.term.get('cls') == 'SwitchStmt' and len(blk.term.get('cases') or []) == len(succ):
                # `switch (x)` on a value the path determines: the edge of the matching case, else of `default`
                try:
                    v_ = ev_(c)
                    cases = blk.term['cases']
                    pick = [k_ for k_, cv in enumerate(cases) if cv == v_] or [k_ for k_, cv in enumerate(cases) if cv == 'default']
                    if pick:
                        decided = pick[0]
                except interp.Undecided:
                    decided = None
            elif c is None and len(succ) == 2 and None in succ and blk.term is None:
                decided = 0 if succ[1] is None else 1        # `for (;;)`: the exit edge of an endless loop does not exist
            if decided is not None:
                b = succ[decided]
                if b is None:
                    path['end'] = 'exit'
                    break
                continue
            # fork
            alts = []
            for si, s_ in enumerate(succ):
                if s_ is None or (useful is not None and s_ not in useful):
                    continue
                bl2 = dict(bl)
                if c is not None and len(succ) == 2 and blk.term.get('cls') not in ('SwitchStmt', 'MethodDispatch'):
                    cn = _through(c, ptrs)
                    atoms = norm_cond(cn, si == 0)
                    simple = [a for a in atoms if a[0] in ('==', '!=') and a[2] == '0']
                    if atoms and len(simple) == len(atoms):
                        for a in simple:
                            bl2[a[1]] = (a[0] == '!=')
                    else:
                        bl2[canon(strip(cn))] = (si == 0)
                alts.append((s_, dict(env), dict(mem), bl2, list(trace), dict(visits), assumed + [(canon(c) if c is not None else '?', si)], dict(ptrs),
                             _fork_extras(path)))
            if not alts:
                path['end'] = 'cut'
                break
            first = alts.pop()
            stack.extend(alts)
            b, env, mem, bl, trace, visits, assumed, ptrs, extras = first
            asg = interp.Assignment(orders=orders, bools=bl, ints=mem)
            path = dict(end=None, ret=None, trace=trace, env=env, mem=mem, assumed=assumed, ptrs=ptrs)
            path.update(extras)

            def ev_(x, truth=False, path=path, asg=asg, env=env):
                return interp.evaluate(nonnull_facts(_through(_with_results(x, results, env, path['ptrs']), path['ptrs']), truth), asg, env)
            path['eval'] = ev_
        out.append(path)
    return out


def empty_list_truth(c, is_head):
    """truth value of a branch condition under the scenario "the list whose head satisfies is_head(lvalue) is empty",
    when the condition is such a test in any spelling -- iv_list_empty(&L), L.next == &L, &L != L.prev, negations --
    else None"""
    c = strip(c)
    if not isinstance(c, dict):
        return None
    k = c.get('k')
    if k == 'un' and c.get('op') == '!':
        v = empty_list_truth(c['e'], is_head)
        return None if v is None else (not v)
    if k == 'call' and c.get('callee') == 'iv_list_empty' and c.get('args'):
        a = strip(c['args'][0])
        if isinstance(a, dict) and a.get('k') == 'addr' and is_head(a['e']):
            return True
        return None
    if k == 'bin' and c.get('op') in ('==', '!='):
        if const_of(c['r']) == 0 or const_of(c['l']) == 0:
            v = empty_list_truth(c['l'] if const_of(c['r']) == 0 else c['r'], is_head)
            return None if v is None else (v if c['op'] == '!=' else not v)
        for (u, v) in ((c['l'], c['r']), (c['r'], c['l'])):
            u, v = strip(u), strip(v)
            if isinstance(u, dict) and u.get('k') == 'member' and not u.get('arrow') and last_member(u) in (('iv_list_head', 'next'), ('iv_list_head', 'prev')) \
                    and isinstance(v, dict) and v.get('k') == 'addr' and is_head(v['e']) and canon(strip(u['base'])) == canon(strip(v['e'])):
                return c['op'] == '=='
    return None


# --------------------------------------------------------------------------
# zero / non-zero analysis of what a function returns
# --------------------------------------------------------------------------

def return_signs(g, init=None, start_event=None, maxstates=400):
    """Disjunctive forward analysis of integer locals over {'Z', 'NZ'} (unknown = absent): assignments of constants,
    copies, !, |, ||, &&, comparisons with 0, conditional expressions, compound |= and +=/-= of a constant, ++/--;
    branch edges refine and prune.  Only locals that flow into a returned value are tracked.  Returns
    [(ret event, 'Z' | 'NZ' | '?')] over all states reaching each return of the root function, starting at function
    entry with `init` ({local: 'Z'|'NZ'}) or just after start_event with nothing known."""
    cps = getattr(g, '_c04_copies', None)
    if cps is None:
        cps = g._c04_copies = ptr_copies(g)

    def lhs_of(e):
        """the stored-to lvalue; `*out = v` with out = &local (an out-parameter of an inlined helper) is a store to the local"""
        l = strip(_simp(e['lhs']))
        if isinstance(l, dict) and l.get('k') == 'deref':
            t = deref_target(l['e'], cps.get((e['_b'], e['_i']), {}))
            if t is not None:
                return strip(t)
        return l
    rel, changed = set(), True
    for e in g.events():
        if e['ev'] == 'ret' and not e.get('chain') and 'value' in e:
            rel |= {y['name'] for y in walk(e['value']) if y.get('k') == 'var' and y.get('vk') != 'func'}
    while changed:
        changed = False
        for e in g.events():
            if e['ev'] == 'store' and lhs_of(e).get('k') == 'var' and lhs_of(e)['name'] in rel and 'rhs' in e:
                for y in walk(e['rhs']):
                    if y.get('k') == 'var' and y.get('vk') != 'func' and y['name'] not in rel:
                        rel.add(y['name'])
                        changed = True
    rel |= set(init or ())

    def sg(x, env):
        x = strip(x)
        if not isinstance(x, dict):
            return None
        c = const_of(x)
        if c is not None:
            return 'NZ' if c else 'Z'
        k = x.get('k')
        if k == 'var':
            return env.get(x['name'])
        if k == 'addr':
            return 'NZ'
        if k == 'un' and x.get('op') == '!':
            v = sg(x['e'], env)
            return None if v is None else ('Z' if v == 'NZ' else 'NZ')
        if k == 'bin':
            op = x['op']
            a, b = sg(x['l'], env), sg(x['r'], env)
            if op in ('|', '||'):
                if a == 'NZ' or b == 'NZ':
                    return 'NZ'
                return 'Z' if (a == 'Z' and b == 'Z') else None
            if op == '&&':
                if a == 'Z' or b == 'Z':
                    return 'Z'
                return 'NZ' if (a == 'NZ' and b == 'NZ') else None
            if op in ('!=', '==') and (const_of(x['r']) == 0 or const_of(x['l']) == 0):
                v = a if const_of(x['r']) == 0 else b
                if v is None:
                    return None
                return v if op == '!=' else ('Z' if v == 'NZ' else 'NZ')
            return None
        if k == 'cond':
            t = sg(x['c'], env)
            if t is not None:
                return sg(x['a'] if t == 'NZ' else x['b'], env)
            a, b = sg(x['a'], env), sg(x['b'], env)
            return a if a == b else None
        return None

    def key(env):
        return tuple(sorted(env.items()))

    def tr(e, S):
        if start_event is not None and e is start_event:
            return frozenset({()})
        out = set()
        for envk in S:
            env = dict(envk)
            if e['ev'] == 'store':
                l = lhs_of(e)
                if l.get('k') == 'var' and l['name'] in rel:
                    nm, op = l['name'], e.get('op')
                    v = None
                    if op == '=' and 'rhs' in e:
                        v = sg(e['rhs'], env)
                    elif op == '|=':
                        a, b = env.get(nm), sg(e['rhs'], env)
                        v = 'NZ' if 'NZ' in (a, b) else ('Z' if a == 'Z' and b == 'Z' else None)
                    elif op in ('+=', '-=') and const_of(e.get('rhs')) == 0:
                        v = env.get(nm)
                    elif op in ('++', '+=') and env.get(nm) == 'Z' and (op == '++' or (const_of(e.get('rhs')) or 0) > 0):
                        v = 'NZ'
                    if v is None:
                        env.pop(nm, None)
                    else:
                        env[nm] = v
            elif e['ev'] == 'decl':
                env.pop(e['name'], None)
            elif e['ev'] == 'call':
                for a in e.get('args', []):
                    a = strip(a)
                    if isinstance(a, dict) and a.get('k') == 'addr' and strip(a['e']).get('k') == 'var':
                        env.pop(strip(a['e'])['name'], None)
            out.add(key(env))
        if len(out) > maxstates:
            raise AnalysisBroken('return_signs: state explosion in %s' % g.name)
        return frozenset(out)

    def edge(blk, si, S):
        if not (blk.term and blk.term.get('cond') is not None and len(blk.succ) == 2) or blk.term.get('cls') in ('SwitchStmt', 'MethodDispatch'):
            return S
        c = blk.term['cond']
        atoms = [a for a in norm_cond(c, si == 0) if a[0] != 'const']
        out = set()
        for envk in S:
            env = dict(envk)
            t = sg(c, env)
            if t is not None and (t == 'NZ') != (si == 0):
                continue
            ok = True
            for (op, lc, rc, l, r) in atoms:
                lv = strip(l)
                if not (isinstance(lv, dict) and lv.get('k') == 'var' and lv['name'] in rel):
                    continue
                cr = const_of(r)
                if cr is None:
                    continue
                want = None
                if (op == '!=' and cr == 0) or (op == '>' and cr >= 0) or (op == '>=' and cr > 0) or (op == '<' and cr <= 0) or (op == '<=' and cr < 0) \
                        or (op == '==' and cr != 0):
                    want = 'NZ'
                elif op == '==' and cr == 0:
                    want = 'Z'
                if want is None:
                    continue
                cur = env.get(lv['name'])
                if cur is not None and cur != want:
                    ok = False
                env[lv['name']] = want
            if ok:
                out.add(key(env))
        return frozenset(out) if out else None
    init_state = frozenset({key(dict(init or {}))}) if start_event is None else frozenset()
    start = g.entry if start_event is None else start_event['_b']
    _, ev_in = forward(g, init_state, tr, lambda a, b: a | b, edge=edge, start=start)
    res = []
    for b, blk in g.blocks.items():
        for i, e in enumerate(blk.events):
            if e['ev'] == 'ret' and not e.get('chain'):
                for envk in (ev_in.get((b, i)) or ()):
                    v = sg(e['value'], dict(envk)) if 'value' in e else None
                    res.append((e, v or '?'))
    return res


# --------------------------------------------------------------------------
# histories of the public timer calls, observed through the wait deadline (R-C04h)
# --------------------------------------------------------------------------

class TimerWorld:
    """One library state on which the exported timer calls are *evaluated from the facts* (h05.Machine: no repository code
    is executed) and observed only through what the loop itself looks at: the deadline iv_get_soonest_timeout() hands to
    the wait.  Nothing of the representation of the timer store is assumed (where the root lives, binary heap or not,
    which helpers restore the order): needed are the exported functions, the size of the state and of a timer, and where a
    timer keeps its expiry."""

    def __init__(self, prog):
        from . import h05
        self.h05 = h05
        self.prog = prog
        need = ('iv_timer_register', 'iv_timer_unregister', 'IV_TIMER_INIT', 'iv_get_soonest_timeout')
        fs = []
        for nm in need:
            f = prog.fn(nm)
            if f.static or not f.blocks:
                raise AnalysisBroken('%s is not an exported function with a body' % nm)
            fs.append(f)
        self.f_reg, self.f_unreg, self.f_tinit, self.f_soonest = fs
        if len(self.f_soonest.params) > 1:
            raise AnalysisBroken('iv_get_soonest_timeout takes %d parameters: the deadline query of the loop changed its shape'
                                 % len(self.f_soonest.params))
        self.store = None
        self.f_init = prog.fn('iv_timer_init') if prog.has_fn('iv_timer_init') else None
        if self.f_init is not None:
            self.m = h05.Machine(prog)
        else:
            # the per-thread initialiser was merged into its caller: the empty store is set up from the record layout
            self.store = h05.Store(prog)
            self.m = self.store.m
        ty = self.m.ty
        try:
            self.o_exp = ty.offset('iv_timer_', 'expires')
            self.o_sec = ty.offset('timespec', 'tv_sec')
            self.o_nsec = ty.offset('timespec', 'tv_nsec')
            self.timer_size = max(ty.sizeof('struct iv_timer'), ty.sizeof('struct iv_timer_'))
            self.state_size = ty.sizeof('struct iv_state')
        except AnalysisBroken as e:
            raise AnalysisBroken('layout of a timer / the state (iv_timer_.expires, timespec, sizes) not found in the facts: %s' % e)
        self.st = None
        self.key = {}
        self.last = None

    def fresh(self):
        m = self.m
        m.steps = 0
        m.journal = None
        self.key = {}
        if self.store is not None:
            self.store.fresh()
            self.st = self.store.st
        else:
            self.st = m.alloc('state', self.state_size, zero=True, tag='state')
            m.state_ptr = ('p', self.st, 0)
            self._eval(self.f_init, [m.state_ptr])
        return self

    def _eval(self, f, args):
        try:
            return self.m.run(f, args)
        except self.h05.Fault as x:
            raise AnalysisBroken('%s cannot be evaluated on a fresh object: %s' % (f.name, x))
        except AnalysisBroken:
            raise
        except Exception as x:
            raise AnalysisBroken('evaluator failed in %s: %s: %s' % (f.name, type(x).__name__, x))

    def timer(self, key, name=None):
        """a new, initialised, unregistered timer whose expiry is key = (sec, nsec)"""
        t = self.m.alloc(name or 'T%d.%03d' % key, self.timer_size, zero=True, tag='timer')
        t.cells[self.o_exp + self.o_sec], t.cells[self.o_exp + self.o_nsec] = key
        self._eval(self.f_tinit, [('p', t, 0)])
        self.key[t] = key
        return t

    def mark(self):
        self.m.journal = []

    def rollback(self, pos=0):
        """undo the memory effects journalled since mark() (or since the journal had length pos)"""
        j = self.m.journal
        missing = self.h05.MISSING
        while j and len(j) > pos:
            x = j.pop()
            if x[0] == 'freed':
                x[1].freed = False
            elif x[0] == 'zr':
                x[1].zr = x[2]
            elif x[2] is missing:
                x[0].cells.pop(x[1], None)
            else:
                x[0].cells[x[1]] = x[2]

    def pos(self):
        return len(self.m.journal)

    def _guard(self, f, args):
        """(value, Fault | None) of one evaluated call"""
        m = self.m
        m.steps = 0
        try:
            return m.run(f, args), None
        except self.h05.Fault as x:
            return None, x
        except AnalysisBroken:
            raise
        except RecursionError:
            return None, self.h05.Fault('hang', 'evaluation recursed beyond the interpreter stack')
        except Exception as x:          # a gap of the evaluator must not pass for a verdict
            raise AnalysisBroken('evaluator failed in %s: %s: %s' % (f.name, type(x).__name__, x))

    def call(self, what, t):
        f = self.f_reg if what == 'register' else self.f_unreg
        self.last = f
        return self._guard(f, [('p', t, 0)])[1]

    def deadline(self):
        """what the loop would wait for now: (kind, key, timer, text); kind in none / timer / other / fault"""
        f = self.f_soonest
        v, fault = self._guard(f, [self.m.state_ptr] if f.params else [])
        if fault is not None:
            return 'fault', None, None, '%s: %s' % (f.name, fault.msg)
        if v == 0:
            return 'none', None, None, 'no deadline'
        if not self.h05.is_ptr(v):
            return 'other', None, None, '%s returns %r' % (f.name, v)
        obj, off = v[1], v[2]
        try:
            k = (self.m.read(obj, off + self.o_sec), self.m.read(obj, off + self.o_nsec))
        except self.h05.Fault as x:
            return 'fault', None, None, 'the deadline %s cannot be read: %s' % (self.m.show(v), x.msg)
        if obj in self.key and off == self.o_exp:
            return 'timer', k, obj, '%d.%03d' % k
        return 'other', k, None, '%s = %r' % (self.m.show(v), k)
