"""Helpers of C12 (iv_work): role-based calling contexts, role inference for the private data, local normalisations and
the small abstract domains the C12 rules are formulated in.

  * contexts(): the public / handler *roots* that reach a site, with every internal helper of the module inlined (the
    library API -- functions with external linkage of other files -- stays a call).  ModInliner also enters the module's
    own function pointers: a parameter bound to a named function, a constant table of functions indexed by an enum
    (behind a switch on the index).  Functions whose address never leaves the module are helpers, not roots;
  * schema(): which private record / member plays which part (pool record, lock, queues, sequence numbers, thread counter
    and its direction, events by the role of their installed handler, kicked mark), inferred from what the code does;
    members are named by their chain of steps inside the object (chain_of), so nesting into sub-structures is irrelevant;
  * normalise(): `*&v` (out-parameters), context structs used member by member (scalarised), ternary-valued stores
    (lowered to branches), branches on constants (pruned, dead code removed), address values cached in locals
    (`q = &pool->work_done`) substituted, emptiness snapshots (`was_empty = iv_list_empty(q)`) and result flags
    partitioned away, open-coded iv_list_del / add and container_of recognised;
  * worlds(): may-analysis over finite sets of abstract "worlds" (path-sensitive bit vectors);
  * Items: alias typestate of list-linked objects (taken -> unlinked -> worked -> queued-done / completed),
    keyed by the *definition* of the item, so independent of loop form and of the helper structure.
"""
import json
import re

from ..core import (AnalysisBroken, Inliner, canon, strip, strip_load, last_member, walk, subst, simplify, names_of, field_chain,
                    forward, norm_cond, lvalue_steps, is_int, partition_flags, PURE_CALLS, Block, fold, _is_boolean_expr)
from ..analyses import is_call, callback_kind, locksets, held, lock_effect, list_empty_test, LOCK_FUNCS, lock_id
from .. import roles

LH = 'iv_list_head'
LIST_PRIMS = {'iv_list_add', 'iv_list_add_tail', 'iv_list_del', 'iv_list_del_init', 'iv_list_splice', 'iv_list_splice_init',
              'iv_list_splice_tail', 'iv_list_splice_tail_init', '__iv_list_splice', '__iv_list_steal_elements', 'INIT_IV_LIST_HEAD'}
LIST_KEYS = frozenset({(LH, 'next'), (LH, 'prev')})
DETACH = ('__iv_list_steal_elements', 'iv_list_splice_init', 'iv_list_splice_tail_init')     # move all elements, source left empty
ADD = ('iv_list_add_tail', 'iv_list_add')
DEL = ('iv_list_del', 'iv_list_del_init')
# calls after which a local still holds the value it was assigned (nothing the library reads is written by them in this
# thread).  Lock operations are included on purpose: a local keeps its value across them; the substituted expression
# names the value the local got at its assignment and is only used for type-based matching (which member of which
# record an address denotes), never to claim that re-reading the fields would give the same value.
QUIET_CALLS = set(PURE_CALLS) | set(LOCK_FUNCS)        # (Items: access-path aliases of a node survive these)


def _pure_path(e):
    for x in walk(e):
        if x.get('k') in ('call', 'assign', 'incdec', 'stmtexpr', 'other', 'deep', 'va_arg', 'init', 'compound'):
            return False
    return True


# --------------------------------------------------------------------------
# small expression helpers
# --------------------------------------------------------------------------

def varname(x):
    x = strip(x)
    return x['name'] if isinstance(x, dict) and x.get('k') == 'var' else None


def arg_key(e, i):
    """(record, field) of `&X->field` passed as argument i of a call event."""
    a = strip(e['args'][i]) if len(e.get('args', [])) > i else None
    if isinstance(a, dict) and a.get('k') == 'addr':
        return last_member(a['e'])
    return None


def base_var(x):
    """variable v of an access path `v->a.b` / `&v->a.b` (the object the path lives in)"""
    x = strip(x)
    if isinstance(x, dict) and x.get('k') == 'addr':
        x = strip(x['e'])
    while isinstance(x, dict) and x.get('k') == 'member':
        if x.get('arrow'):
            return varname(x['base'])
        x = strip(x['base'])
    return None


def arg_base(e, i):
    """variable name v of an argument `&v->field` (also `&v->a.field`)."""
    a = strip(e['args'][i]) if len(e.get('args', [])) > i else None
    if isinstance(a, dict) and a.get('k') == 'addr':
        return base_var(a)
    return None


def is_incr(e, key):
    """store that adds one to record.field: x++, ++x, x += 1, x = x + 1, x = 1 + x"""
    if e['ev'] != 'store' or last_member(e['lhs']) != key:
        return False
    if e['op'] == '++':
        return True
    if e['op'] == '+=':
        return is_int(e.get('rhs'), 1)
    if e['op'] == '=' and 'rhs' in e:
        r = strip(e['rhs'])
        if isinstance(r, dict) and r.get('k') == 'bin' and r['op'] == '+':
            for a, b in ((r['l'], r['r']), (r['r'], r['l'])):
                if is_int(b, 1) and last_member(a) == key and canon(a) == canon(e['lhs']):
                    return True
    return False


def writes(e, key):
    return e['ev'] == 'store' and key in lvalue_steps(e['lhs'])


def atoms_on(blk, si):
    if not blk.term or len(blk.succ) != 2 or blk.term.get('cls') in ('SwitchStmt', 'MethodDispatch'):
        return []
    c = blk.term.get('cond')
    if c is None:
        return []
    if any(x.get('k') == 'assign' for x in walk(c)):
        # the value of `(x = e)` is x (the store itself is an event of the block)
        c = subst(c, lambda n: {'k': 'load', 'e': n['l']} if n.get('k') == 'assign' and n.get('op') == '=' else None)
    return norm_cond(c, si == 0)


def compare_fields(atom, lkey, rfield):
    """For an atom comparing record.field `lkey` with a `.rfield` member (either operand order) returns the
    operator normalised to `lkey OP rfield`, else None."""
    from ..core import SWAP
    (op, lc, rc, l, r) = atom
    if op == 'const' or not isinstance(r, dict):
        return None
    d = strip(l)
    if rc == '0' and isinstance(d, dict) and d.get('k') == 'bin' and d['op'] == '-':
        # (x - y) OP 0  is  x OP y  (int fields far from overflow)
        l, r = d['l'], d['r']
    ll, rr = last_member(l), last_member(r)
    if ll == lkey and rr is not None and rr[1] == rfield:
        return op
    if rr == lkey and ll is not None and ll[1] == rfield:
        return SWAP[op]
    return None


def seq_relation(atom, a, b):
    """'eq' / 'ne' when the atom states equality / inequality of the fields a and b:
    a == b, a != b, (a - b) == 0, !(a - b), in either operand order."""
    (op, lc, rc, l, r) = atom
    if op not in ('==', '!='):
        return None
    if isinstance(r, dict) and {last_member(l), last_member(r)} == {a, b}:
        return 'eq' if op == '==' else 'ne'
    if rc == '0':
        d = strip(l)
        if isinstance(d, dict) and d.get('k') == 'bin' and d['op'] == '-' and {last_member(d['l']), last_member(d['r'])} == {a, b}:
            return 'eq' if op == '==' else 'ne'
    return None


def touches(g, record):
    """the (inlined) function accesses a member of `record`"""
    for e in g.events():
        for x in walk(e):
            if x.get('k') == 'member' and x.get('record') == record:
                return True
    return False


# --------------------------------------------------------------------------
# normalisations local to C12 (wanted in core, see REPORT-C12.md)
# --------------------------------------------------------------------------

def renumber(g):
    g._preds = None
    for b in g.blocks.values():
        for i, e in enumerate(b.events):
            e['_b'] = b.id
            e['_i'] = i


def _addr_value(rhs):
    """rhs is the address of an access path (`&a->b.c`, `&x`): a value that only depends on what the path reads."""
    r = strip(rhs)
    if not (isinstance(r, dict) and r.get('k') == 'addr'):
        return None
    if not _pure_path(r):
        return None
    x = strip_load(r['e'])
    while isinstance(x, dict) and x.get('k') in ('member', 'index', 'load', 'cast', 'deref'):
        if x.get('k') == 'member':
            x = x['base']
        elif x.get('k') == 'index':
            if strip_load(x['idx']).get('k') not in ('int', 'var'):
                return None
            x = x['base']
        else:
            x = x['e']
    if not (isinstance(x, dict) and x.get('k') == 'var'):
        return None
    return r


ARITH = ('+', '-', '*', '&', '|', '^', '<<', '>>')


def _arith_value(rhs):
    """rhs is side-effect free arithmetic over access paths and constants (`pool->seq_tail - pool->seq_head`)"""
    r = strip(rhs)
    if not (isinstance(r, dict) and r.get('k') == 'bin' and r.get('op') in ARITH):
        return None
    if not _pure_path(rhs) or sum(1 for _ in walk(rhs)) > 40:
        return None
    for x in walk(rhs):
        if x.get('k') == 'bin' and x.get('op') not in ARITH:
            return None
        if x.get('k') not in ('bin', 'un', 'load', 'cast', 'var', 'member', 'int', 'index', 'deref', 'paren'):
            return None
    return rhs


def _value_keys(e):
    keys = set()
    for x in walk(e):
        k = x.get('k')
        if k == 'member':
            keys.add((x.get('record'), x['field']))
        elif k == 'var':
            keys.add(('var', x['name']))
        elif k in ('deref', 'index'):
            keys.add(('mem', '*'))
    return frozenset(keys)


def _addr_keys(r):
    """what the *value* of the address expression depends on: the variables and the pointer fields loaded on the
    way (`&this->priv->idle` reads this and iv_work_pool.priv), not the addressed member itself."""
    keys = set()
    def rd(x, addr):
        k = x.get('k')
        if k == 'var':
            keys.add(('var', x['name']))
        elif k == 'member':
            if not addr:
                keys.add((x.get('record'), x['field']))
            if x['arrow']:
                rd(x['base'], False)
            else:
                rd(x['base'], addr)
        elif k == 'index':
            rd(x['base'], addr if 'bound' in x else False)
            rd(x['idx'], False)
        elif k == 'deref':
            rd(x['e'], False)
        elif k in ('load', 'cast'):
            rd(x['e'], addr)
        elif k == 'addr':
            rd(x['e'], True)
    rd(r, False)
    return frozenset(keys)


def _path_value(rhs):
    """rhs is a plain read of an access path through memory (`this->max_threads`, `thr->pool`)"""
    r = strip_load(rhs)
    while isinstance(r, dict) and r.get('k') == 'cast':
        r = strip_load(r['e'])
    if not (isinstance(r, dict) and r.get('k') in ('member', 'index', 'deref')) or not _pure_path(rhs):
        return None
    x = r
    while isinstance(x, dict) and x.get('k') in ('member', 'index', 'load', 'cast', 'deref'):
        if x.get('k') == 'member':
            x = x['base']
        elif x.get('k') == 'index':
            if strip_load(x['idx']).get('k') not in ('int', 'var'):
                return None
            x = x['base']
        else:
            x = x['e']
    if not (isinstance(x, dict) and x.get('k') == 'var'):
        return None
    return rhs


def _raw_contexts(prog):
    """the module roots with helpers inlined, *not* normalised (normalisation itself asks immutable_key)"""
    cache = prog.__dict__.get('_h12_raw')
    if cache is None:
        files = module_files(prog)
        cache = []
        for r in module_roots(prog):
            try:
                cache.append(_inliner(prog).inline(r))
            except AnalysisBroken:
                pass
        prog.__dict__['_h12_raw'] = cache
    return cache


def _fresh_base(fn, e):
    """the store event e of fn writes into an object that fn has just allocated (malloc / calloc into the base variable)"""
    x = strip(e['lhs'])
    base = None
    while isinstance(x, dict) and x.get('k') in ('member', 'index'):
        if x.get('k') == 'member' and x['arrow']:
            base = varname(x['base'])
            break
        x = strip(x['base'])
    if base is None:
        return False
    if any(s_['ev'] == 'store' and 'rhs' in s_ and varname(s_['lhs']) == base and
           any(y.get('k') == 'call' and y.get('callee') in ('malloc', 'calloc') for y in walk(s_['rhs']))
           for s_ in fn.events()):
        return True
    # the allocation reaches the base variable through copies (an allocator helper returning object-or-NULL, inlined)
    return base in fresh_objects(fn)


def immutable_key(prog, key):
    """record.field is only ever stored to in objects that the storing code has just allocated (written once before
    publication), or not at all by the library: a cached copy of it never goes stale.  A store made by a helper that gets
    the object as a parameter is judged in every calling context (root with helpers inlined) that contains it."""
    cache = prog.__dict__.setdefault('_h12_immut', {})
    if key not in cache:
        cache[key] = True          # (re-entrant queries while the contexts are built: optimistic, re-evaluated below)
        ok = True
        files = module_files(prog)
        for (fn, e) in prog.writers_of(*key):
            if _fresh_base(fn, e):
                continue
            fresh = False
            if fn.file in files:
                copies = [(g, x) for g in _raw_contexts(prog) for x in g.events()
                          if x['ev'] == 'store' and x.get('loc') == e.get('loc') and last_member(x['lhs']) == last_member(e['lhs'])]
                fresh = bool(copies) and all(_fresh_base(g, x) for g, x in copies)
            if not fresh:
                ok = False
                break
        cache[key] = ok
    return cache[key]


def value_propagate(g, prog):
    """`q = &pool->idle_threads; ... iv_list_empty(q) ... q->next`, `pending = pool->seq_tail - pool->seq_head; if (!pending)`,
    `max = this->max_threads; ... started < max` read like the versions without the local.
    Flow-sensitive must-available copies of (a) addresses of access paths, (b) side-effect free arithmetic over access paths,
    (c) plain reads of access paths.  Killed by reassignment and by stores to what the expression reads (type-based).
    Cached *values* that read mutable memory also die at calls into unknown code, user callbacks and lock operations (another
    thread may have changed the field; same policy as core.copy_propagate); values that only read fields that are written
    once before publication (immutable_key) survive.  A local keeps the *address* it was assigned whatever happens; the
    substituted text names that value and is only used for type-based matching."""
    addr_taken = set()
    for e in g.events():
        for x in walk(e):
            if x.get('k') == 'addr':
                v = strip(x['e'])
                if isinstance(v, dict) and v.get('k') == 'var':
                    addr_taken.add(v['name'])

    # locals that only ever hold a decision: every store assigns an integer constant or a boolean expression
    stores_ = {}
    for e in g.events():
        if e['ev'] == 'store':
            l = strip(e['lhs'])
            if isinstance(l, dict) and l.get('k') == 'var':
                r = strip(e.get('rhs')) if 'rhs' in e else None
                okc = e.get('op') == '=' and isinstance(r, dict) and (r.get('k') == 'int' or _is_boolean_expr(r))
                stores_.setdefault(l['name'], []).append(okc and l.get('vk') == 'local')
    flaglike = {n for n, oks in stores_.items() if all(oks) and n not in addr_taken}

    def mutable(keys):
        return any(k[0] != 'var' and (k[0] == 'mem' or not immutable_key(prog, k)) for k in keys)

    def bind(S, name, expr, keys, kind):
        return frozenset(x for x in S if x[0] != name) | {(name, json.dumps(expr, sort_keys=True), keys, kind, kind == 'val' and mutable(keys))}

    def transfer(e, S):
        ev = e['ev']
        kills = set()
        if ev == 'store':
            for st in lvalue_steps(e['lhs']):
                kills.add(st)
            l = strip(e['lhs'])
            if l.get('k') == 'var':
                kills.add(('var', l['name']))
            if l.get('k') in ('deref', 'index') and not lvalue_steps(e['lhs']):
                kills.add(('mem', '*'))
        elif ev == 'decl':
            kills.add(('var', e['name']))
        elif ev == 'call':
            nm = e.get('callee')
            if 'fnexpr' in e or (nm and nm not in PURE_CALLS and nm not in LIST_PRIMS):
                S = frozenset(x for x in S if not x[4])
            elif nm in LIST_PRIMS:
                kills |= LIST_KEYS
            for a in e.get('args', []):
                a = strip(a)
                if isinstance(a, dict) and a.get('k') == 'addr':
                    v = strip(a['e'])
                    if isinstance(v, dict) and v.get('k') == 'var':
                        kills.add(('var', v['name']))
        if kills:
            S = frozenset(x for x in S if not (x[2] & kills) and ('var', x[0]) not in kills)
        if ev == 'store' and e.get('op') == '=' and 'rhs' in e:
            l = strip(e['lhs'])
            if l.get('k') == 'var' and l.get('vk') == 'local' and l['name'] not in addr_taken:
                me = ('var', l['name'])
                r = _addr_value(e['rhs'])
                if r is not None:
                    if me not in _addr_keys(r):
                        S = bind(S, l['name'], r, _addr_keys(r), 'addr')
                    return S
                a = _arith_value(e['rhs']) or _path_value(e['rhs'])
                if a is not None:
                    if me not in _value_keys(a):
                        S = bind(S, l['name'], a, _value_keys(a), 'val')
                    return S
                # copy of a local that is itself bound (helper results, parameters passed by value)
                v = varname(e['rhs'])
                src = [x for x in S if x[0] == v] if v else []
                if src and v != l['name']:
                    S = frozenset(x for x in S if x[0] != l['name']) | {(l['name'],) + src[0][1:]}
                elif v and v != l['name'] and v in flaglike:
                    # copy of a decision (`fate = $ret2; unlock(); switch (fate)`): the copy reads like the local it copies
                    # while neither is reassigned, so that the flag partitioning sees the test of the decision itself
                    S = bind(S, l['name'], {'k': 'load', 'e': dict(strip(e['rhs']))}, frozenset({('var', v)}), 'val')
        return S

    _, ev_in = forward(g, frozenset(), transfer, lambda a, b: a & b)
    n = [0]

    def rewrite(x, S):
        avail = {x[0]: x[1] for x in S}
        if not avail:
            return x
        def r(nd):
            if nd.get('k') == 'load':
                inner = nd.get('e')
                if isinstance(inner, dict) and inner.get('k') == 'var' and inner['name'] in avail and inner.get('vk') in ('local', 'param'):
                    n[0] += 1
                    out = json.loads(avail[inner['name']])
                    out['_was'] = inner['name']
                    return out
            return None
        return simplify(subst(x, r))

    for b, blk in g.blocks.items():
        for i, e in enumerate(blk.events):
            S = ev_in.get((b, i))
            if not S or e['ev'] == 'load':
                continue
            for key in ('rhs', 'args', 'fnexpr', 'value'):
                if key in e:
                    e[key] = rewrite(e[key], S)
            if e['ev'] == 'store' and strip(e['lhs']).get('k') != 'var':
                e['lhs'] = rewrite(e['lhs'], S)
        S = ev_in.get((b, len(blk.events)))
        if S and blk.term and blk.term.get('cond') is not None:
            blk.term = dict(blk.term, cond=rewrite(blk.term['cond'], S))
    return n[0]


def snapshot_flags(g):
    """`e = iv_list_empty(q); ...; if (e) ...` : the predicate result is a boolean flag.  Rewritten to
    `e = (iv_list_empty(q) != 0)` so that core.partition_flags splits the paths at the snapshot."""
    n = 0
    for e in g.events():
        if e['ev'] == 'store' and e.get('op') == '=' and 'rhs' in e and varname(e['lhs']):
            r = strip(e['rhs'])
            if isinstance(r, dict) and r.get('k') == 'call' and r.get('callee') == 'iv_list_empty':
                e['rhs'] = {'k': 'bin', 'op': '!=', 'l': e['rhs'], 'r': {'k': 'int', 'v': 0}, 'type': 'int'}
                n += 1
    return n


def fuse_open_coded_del(g):
    """`n->prev->next = n->next; n->next->prev = n->prev;` (either order, optionally followed by the NULLing
    stores of iv_list_del or by INIT_IV_LIST_HEAD(n)) is iv_list_del(n) / iv_list_del_init(n)."""
    def link_store(e):
        # returns (node canon, node expr, 'next'|'prev') for  N->prev->next = N->next  /  N->next->prev = N->prev
        if e['ev'] != 'store' or e.get('op') != '=' or 'rhs' not in e:
            return None
        l = strip(e['lhs'])
        r = strip(e['rhs'])
        if not (isinstance(l, dict) and l.get('k') == 'member' and l.get('record') == LH and l.get('arrow')):
            return None
        inner = strip(l['base'])
        if not (isinstance(inner, dict) and inner.get('k') == 'member' and inner.get('record') == LH):
            return None
        if not (isinstance(r, dict) and r.get('k') == 'member' and r.get('record') == LH):
            return None
        if {l['field'], inner['field']} != {'next', 'prev'} or r['field'] != l['field']:
            return None
        def node(m):
            return m['base'] if m['arrow'] else {'k': 'addr', 'e': m['base']}
        if canon(node(inner)) != canon(node(r)):
            return None
        return canon(node(r)), node(r), l['field']
    changed = 0
    for blk in g.blocks.values():
        evs = blk.events
        out = []
        i = 0
        while i < len(evs):
            e = evs[i]
            a = link_store(e)
            if a:
                j = i + 1
                while j < len(evs) and evs[j]['ev'] == 'load':
                    j += 1
                b = link_store(evs[j]) if j < len(evs) else None
                if b and b[0] == a[0] and b[2] != a[2]:
                    k = j + 1
                    callee = 'iv_list_del'
                    # trailing  N->next = NULL; N->prev = NULL;  or INIT_IV_LIST_HEAD(N)
                    while k < len(evs):
                        x = evs[k]
                        if x['ev'] == 'load':
                            k += 1
                            continue
                        if x['ev'] == 'store' and x.get('op') == '=' and last_member(x['lhs']) in LIST_KEYS and 'rhs' in x \
                                and canon(x['rhs']) in ('NULL', '0'):
                            m = strip(x['lhs'])
                            nd = m['base'] if m['arrow'] else {'k': 'addr', 'e': m['base']}
                            if canon(nd) == a[0]:
                                k += 1
                                continue
                        if x['ev'] == 'call' and x.get('callee') == 'INIT_IV_LIST_HEAD' and canon(x['args'][0]) == a[0]:
                            callee = 'iv_list_del_init'
                            k += 1
                        break
                    # drop trailing pure loads that were consumed with the stores
                    out.append({'ev': 'call', 'callee': callee, 'args': [a[1]], 'loc': e['loc'], 'used': False,
                                'synthetic': True, 'chain': e.get('chain'), 'fn': e.get('fn')})
                    i = k
                    changed += 1
                    continue
            out.append(e)
            i += 1
        blk.events = out
    return changed


def _node_of(m):
    return m['base'] if m['arrow'] else {'k': 'addr', 'e': m['base']}


def _link_lhs(l):
    """store target N->f or N->f2->f1 of list links: (canon of N, N, (f,) / (f2, f1))"""
    l = strip(l)
    if not (isinstance(l, dict) and l.get('k') == 'member' and l.get('record') == LH and l['field'] in ('next', 'prev')):
        return None
    n1 = _node_of(l)
    s1 = strip(n1)
    if isinstance(s1, dict) and s1.get('k') == 'member' and s1.get('record') == LH and s1['field'] in ('next', 'prev'):
        return canon(_node_of(s1)), _node_of(s1), (s1['field'], l['field'])
    return canon(n1), n1, (l['field'],)


def _link_rhs(r):
    s_ = strip(r)
    if isinstance(s_, dict) and s_.get('k') == 'member' and s_.get('record') == LH and s_['field'] in ('next', 'prev'):
        return ('field', canon(_node_of(s_)), s_['field'], None)
    return ('ptr', canon(r), None, r)


def fuse_open_coded_add(g):
    """the four link stores of iv_list_add_tail(N, H) / iv_list_add(N, H), written out in one block (loads in between),
    are replaced by the primitive."""
    changed = 0
    for blk in g.blocks.values():
        evs = blk.events
        idx = [i for i, e in enumerate(evs) if e['ev'] == 'store' and e.get('op') == '=' and 'rhs' in e and _link_lhs(e['lhs'])]
        used = set()
        repl = {}
        for k in range(len(idx) - 3):
            quad = idx[k:k + 4]
            if used & set(quad):
                continue
            if any(evs[j]['ev'] != 'load' for j in range(quad[0], quad[3]) if j not in quad):
                continue
            D = [(_link_lhs(evs[j]['lhs']), _link_rhs(evs[j]['rhs'])) for j in quad]
            for callee, fa, fb in (('iv_list_add_tail', 'next', 'prev'), ('iv_list_add', 'prev', 'next')):
                # add_tail: N->next = H; N->prev = H->prev; H->prev->next = N; H->prev = N
                # add     : N->prev = H; N->next = H->next; H->next->prev = N; H->next = N
                a = [i for i, (L, R) in enumerate(D) if L[2] == (fa,) and R[0] == 'ptr']
                for ia in a:
                    N, Nx = D[ia][0][0], D[ia][0][1]
                    H, Hx = D[ia][1][1], D[ia][1][3]
                    ib = [i for i, (L, R) in enumerate(D) if L[0] == N and L[2] == (fb,) and R[:3] == ('field', H, fb)]
                    ic = [i for i, (L, R) in enumerate(D) if L[0] == H and L[2] == (fb, fa) and R[0] == 'ptr' and R[1] == N]
                    id_ = [i for i, (L, R) in enumerate(D) if L[0] == H and L[2] == (fb,) and R[0] == 'ptr' and R[1] == N]
                    if ib and ic and id_ and len({ia, ib[0], ic[0], id_[0]}) == 4 and ic[0] < id_[0] and ib[0] < id_[0]:
                        e0 = evs[quad[0]]
                        repl[quad[0]] = {'ev': 'call', 'callee': callee, 'args': [Nx, Hx], 'loc': e0['loc'], 'used': False,
                                         'synthetic': True, 'chain': e0.get('chain'), 'fn': e0.get('fn')}
                        used |= set(quad)
                        break
                if used & set(quad):
                    break
        if repl:
            out = []
            for i, e in enumerate(evs):
                if i in repl:
                    out.append(repl[i])
                elif i in used:
                    continue
                else:
                    out.append(e)
            blk.events = out
            changed += len(repl)
    return changed


def fold_container_of(g, prog):
    """`(struct R *)((char *)E - offsetof(struct R, m))` (the expansion of iv_container_of with the offset folded by the
    compiler) is container_of(E, R, m)."""
    n = [0]
    def r(nd):
        if nd.get('k') == 'cast' and nd.get('record') and str(nd.get('to', '')).rstrip().endswith('*'):
            b = nd.get('e')
            while isinstance(b, dict) and b.get('k') in ('paren',):
                b = b['e']
            if isinstance(b, dict) and b.get('k') == 'bin' and b.get('op') == '-' and is_int(b.get('r')):
                l = b['l']
                while isinstance(l, dict) and l.get('k') == 'cast':
                    l = l['e']
                off = strip(b['r'])['v']
                rec = prog.records.get(nd['record'], {})
                fl = [f for f in rec.get('fields', []) if f.get('offset') == off and f.get('record')]
                inner = strip(l)
                if fl and isinstance(inner, dict) and (inner.get('trecord') == fl[0]['record'] or inner.get('record') == fl[0]['record']):
                    n[0] += 1
                    return {'k': 'container_of', 'e': subst(l, r), 'record': nd['record'], 'member': fl[0]['name']}
        return None
    for blk in g.blocks.values():
        for e in blk.events:
            for key in ('rhs', 'args', 'fnexpr', 'value', 'e'):
                if key in e and isinstance(e[key], (dict, list)):
                    e[key] = subst(e[key], r)
        if blk.term and blk.term.get('cond') is not None:
            blk.term = dict(blk.term, cond=subst(blk.term['cond'], r))
    return n[0]


def _map_exprs(g, fn):
    """apply the expression rewriter fn to every expression of every event and terminator"""
    for blk in g.blocks.values():
        for e in blk.events:
            for key in ('lhs', 'rhs', 'args', 'fnexpr', 'value', 'e'):
                if key in e and isinstance(e[key], (dict, list)):
                    e[key] = fn(e[key])
        if blk.term and blk.term.get('cond') is not None:
            blk.term = dict(blk.term, cond=fn(blk.term['cond']))


def deref_addr(g):
    """`*&v` is `v`: an out-parameter whose argument `&v` the inliner substituted for the parameter
    (`*_item = x` in a helper called with `&item`) is the caller's local itself.  The arguments of the `enter`
    markers (which only document the call that was inlined) are moved aside, so that a local whose address was only
    ever passed to an inlined helper does not count as address-taken."""
    n = [0]

    def r(nd):
        if nd.get('k') == 'deref':
            b = nd.get('e')
            while isinstance(b, dict) and b.get('k') in ('load', 'paren') and 'e' in b:
                b = b['e']
            if isinstance(b, dict) and b.get('k') == 'addr':
                n[0] += 1
                return subst(b['e'], r)
        return None
    _map_exprs(g, lambda x: simplify(subst(x, r)))
    for e in g.events():
        if e['ev'] == 'enter' and e.get('args'):
            e['args0'] = e['args']
            e['args'] = []
    # the "read" of a parameter that was replaced by an address constant (`&c`) reads nothing
    drop = 0
    for blk in g.blocks.values():
        keep = [e for e in blk.events if not (e['ev'] == 'load' and isinstance(e.get('e'), dict) and e['e'].get('k') == 'addr')]
        drop += len(blk.events) - len(keep)
        blk.events = keep
    if drop:
        renumber(g)
    return n[0]


def _new_block(g, events, succ, term, noreturn=False):
    nid = max(g.blocks) + 1
    g.blocks[nid] = Block(nid, events, succ, term, noreturn)
    return nid


def _cond_value(rhs):
    """the conditional expression `c ? a : b` that is the value of rhs (behind casts / loads), else None"""
    r = rhs
    while isinstance(r, dict) and r.get('k') in ('load', 'cast', 'paren', 'stmtexpr') and 'e' in r:
        r = r['e']
    return r if isinstance(r, dict) and r.get('k') == 'cond' and _pure_cond(r['c']) else None


def _pure_cond(c):
    for x in walk(c):
        if x.get('k') in ('assign', 'incdec', 'stmtexpr', 'other', 'deep', 'va_arg'):
            return False
        if x.get('k') == 'call' and x.get('callee') not in PURE_CALLS:
            return False
    return True


def lower_ternaries(g):
    """`x = c ? a : b;` (also `return c ? a : b;` of an inlined helper) is `if (c) x = a; else x = b;`: the block is split at
    the store and branches on c (the operands of c were evaluated just before; c itself is side-effect free), so that the
    choice is an *edge* like any other branch and a constant-valued choice is a flag.  Purely a CFG refinement."""
    n = 0
    again = True
    while again:
        again = False
        for bid in sorted(g.blocks):
            blk = g.blocks[bid]
            for i, e in enumerate(blk.events):
                if e['ev'] != 'store' or e.get('op') != '=' or 'rhs' not in e:
                    continue
                c = _cond_value(e['rhs'])
                if c is None:
                    continue
                rest = _new_block(g, blk.events[i + 1:], list(blk.succ), blk.term, blk.noreturn)
                if hasattr(blk, 'labels'):
                    pass
                arms = []
                for val in (c['a'], c['b']):
                    e2 = {k: v for k, v in e.items() if k not in ('_b', '_i')}
                    e2['rhs'] = val
                    arms.append(_new_block(g, [e2], [rest], None))
                blk.events = blk.events[:i]
                blk.succ = arms
                blk.term = {'cls': 'FlagSplit', 'cond': c['c'], 'loc': e.get('loc', '')}
                blk.noreturn = False
                if g.exit == bid:
                    g.exit = rest
                n += 1
                again = True
                break
            if again:
                break
    if n:
        # `ret` events that repeat the conditional value are documentation only
        renumber(g)
    return n


def _quiet_block(blk):
    return all(e['ev'] == 'load' for e in blk.events) and not blk.noreturn


def collapse_empty_diamonds(g):
    """A two-way branch both of whose arms are empty and meet again decides nothing (what clang leaves of `c ? a : b` once
    the value is assigned in the arms by lower_ternaries, or of an `if` whose body was compiled out)."""
    n = 0
    changed = True
    while changed:
        changed = False
        for bid, blk in g.blocks.items():
            if len(blk.succ) != 2 or None in blk.succ or not blk.term or blk.term.get('cls') in ('SwitchStmt', 'MethodDispatch'):
                continue
            ends = []
            for s in blk.succ:
                seen = set()
                chain = [s]
                while _quiet_block(g.blocks[s]) and len(g.blocks[s].succ) == 1 and g.blocks[s].succ[0] is not None \
                        and s not in seen and s != g.exit and not (g.blocks[s].term and g.blocks[s].term.get('cond') is not None):
                    seen.add(s)
                    s = g.blocks[s].succ[0]
                    chain.append(s)
                ends.append(chain)
            common = [x for x in ends[0] if x in ends[1]]
            if not common:
                continue
            j = common[0]
            # every block skipped on either arm must be quiet (chain membership guarantees it except for j itself)
            blk.succ = [j]
            blk.term = None
            n += 1
            changed = True
    return n


def prune_constant_branches(g):
    """branches on a constant (a parameter the inliner replaced by the literal argument: `run_work` := 0) take one edge;
    blocks that are no longer reachable are removed"""
    n = 0
    for blk in g.blocks.values():
        if not blk.term or blk.term.get('cond') is None or len(blk.succ) < 2:
            continue
        c = strip(fold(blk.term['cond']))
        if not (isinstance(c, dict) and c.get('k') in ('int', 'null')):
            continue
        v = 0 if c.get('k') == 'null' else c['v']
        if blk.term.get('cls') == 'SwitchStmt':
            cases = blk.term.get('cases', [])
            pick = [s for s, cv in zip(blk.succ, cases) if cv == v] or [s for s, cv in zip(blk.succ, cases) if cv == 'default']
            if not pick:
                continue
            blk.succ = [pick[0]]
        elif len(blk.succ) == 2:
            blk.succ = [blk.succ[0] if v else blk.succ[1]]
        else:
            continue
        blk.term = {'cls': 'Pruned', 'loc': blk.term.get('loc', '')}
        n += 1
    reach = g.reachable_blocks()
    dead = [b for b in g.blocks if b not in reach and b != g.exit]
    for b in dead:
        del g.blocks[b]
    if n or dead:
        renumber(g)
    return n + len(dead)


def scalarise_local_structs(g):
    """A local struct that is only ever used member by member (`c.pool`, `c.work`; a context record handed to helpers by
    address, which the inliner has substituted) is a bundle of independent locals: `c.work` becomes the local `c$work`.
    Locals whose address is really used (`&items` of a list head, whole-struct copies) are left alone."""
    uses, bad = {}, set()

    def scan(x, parent_ok):
        if isinstance(x, list):
            for y in x:
                scan(y, False)
            return
        if not isinstance(x, dict):
            return
        k = x.get('k')
        if k == 'member' and not x.get('arrow'):
            b = x.get('base')
            while isinstance(b, dict) and b.get('k') == 'load' and 'e' in b:
                b = b['e']
            if isinstance(b, dict) and b.get('k') == 'var' and b.get('vk') == 'local' and b.get('record') and not b.get('ptr'):
                uses[b['name']] = uses.get(b['name'], 0) + 1
                return
        if k == 'var' and x.get('vk') == 'local' and x.get('record') and not x.get('ptr'):
            bad.add(x['name'])
            return
        for key, v in x.items():
            if isinstance(v, (dict, list)) and key not in ('sizeof',):
                scan(v, False)
    for blk in g.blocks.values():
        for e in blk.events:
            if e['ev'] in ('enter', 'leave', 'decl'):
                continue
            for key in ('lhs', 'rhs', 'args', 'fnexpr', 'value', 'e'):
                if key in e:
                    scan(e[key], False)
        if blk.term and blk.term.get('cond') is not None:
            scan(blk.term['cond'], False)
    names = {n for n in uses if n not in bad}
    if not names:
        return 0
    n = [0]

    def r(nd):
        if nd.get('k') == 'member' and not nd.get('arrow'):
            b = nd.get('base')
            while isinstance(b, dict) and b.get('k') == 'load' and 'e' in b:
                b = b['e']
            if isinstance(b, dict) and b.get('k') == 'var' and b.get('name') in names and b.get('vk') == 'local':
                n[0] += 1
                v = {'k': 'var', 'name': '%s$%s' % (b['name'], nd['field']), 'vk': 'local', 'type': nd.get('type')}
                if nd.get('trecord'):
                    v['record'] = nd['trecord']
                    v['ptr'] = bool(nd.get('tptr'))
                return v
        return None
    _map_exprs(g, lambda x: subst(x, r))
    return n[0]


def resolve_embedded_calls(g):
    """core.Inliner replaces the call expression of an inlined helper by its return temporary only in the rest of the
    *source block* that holds the call.  An expression that spells the call again in a later block keeps the text of the call
    (`return iv_list_empty(done_queue(p)) ? A : B;`: the condition is evaluated before the diamond, the value is built after
    it).  A call expression (callee, source location) names one evaluation; where exactly one inlined instance of it exists,
    the remaining spellings are replaced by that instance's return temporary."""
    enters, rets = {}, {}
    for e in g.events():
        if e['ev'] == 'enter' and 'callee' in e and e.get('inst') is not None:
            enters[e['inst']] = (e['callee'], e.get('loc'))
    for e in g.events():
        if e['ev'] == 'leave' and e.get('retvar') and e.get('inst') in enters:
            rets.setdefault(enters[e['inst']], set()).add((e['retvar'], e.get('rettype')))
    uniq = {k: next(iter(v)) for k, v in rets.items() if len(v) == 1}
    if not uniq:
        return 0
    n = [0]

    def r(nd):
        if nd.get('k') == 'call' and (nd.get('callee'), nd.get('loc')) in uniq:
            name, typ = uniq[(nd.get('callee'), nd.get('loc'))]
            n[0] += 1
            return {'k': 'load', 'e': {'k': 'var', 'name': name, 'vk': 'local', 'type': typ}}
        return None
    _map_exprs(g, lambda x: subst(x, r))
    return n[0]


def normalise(g, prog):
    resolve_embedded_calls(g)
    deref_addr(g)
    scalarise_local_structs(g)
    fold_container_of(g, prog)
    fuse_open_coded_del(g)
    fuse_open_coded_add(g)
    renumber(g)
    lower_ternaries(g)
    collapse_empty_diamonds(g)
    prune_constant_branches(g)
    value_propagate(g, prog)
    deref_addr(g)
    lower_ternaries(g)
    snapshot_flags(g)
    for _ in range(6):
        if not partition_flags(g):
            break
    prune_constant_branches(g)
    renumber(g)
    return g


# --------------------------------------------------------------------------
# calling contexts
# --------------------------------------------------------------------------

def _table_entries(prog, unit, fx):
    """For a call through `TABLE[i]` / `TABLE[i].member` where TABLE is a static array of the module that is initialised
    with functions and never written: ([(index, function)], index expression), else None."""
    fx = strip(fx)
    member = None
    if isinstance(fx, dict) and fx.get('k') == 'member' and not fx.get('arrow'):
        member = fx['field']
        fx = strip(fx['base'])
    if not (isinstance(fx, dict) and fx.get('k') == 'index'):
        return None
    base = strip(fx['base'])
    if not (isinstance(base, dict) and base.get('k') == 'var' and base.get('vk') in ('global', 'staticlocal')):
        return None
    gl = prog.global_for(unit, base['name'])
    if not isinstance(gl, dict) or not gl.get('static') or not isinstance(gl.get('init'), dict) or 'elems' not in gl['init']:
        return None
    if prog.global_writers(base['name']):
        return None
    out = []
    for i, el in enumerate(gl['init']['elems']):
        if member is not None:
            el = (el.get('fields') or {}).get(member) if isinstance(el, dict) else None
        el = strip(el) if isinstance(el, dict) else el
        if isinstance(el, dict) and el.get('k') == 'var' and el.get('vk') == 'func':
            t = prog.resolve(unit, el['name'])
            if t is None or not t.blocks:
                return None
            out.append((i, t))
        elif isinstance(el, dict) and el.get('k') in ('int', 'null'):
            continue                      # unset slot: calling it is not a behaviour of the program
        else:
            return None
    return (out, fx['idx']) if out else None


class ModInliner(Inliner):
    """core.Inliner that also enters the module's own function pointers: a parameter that the caller binds to a named
    function (`drain(items, complete_one)` ... `action(item)`), and a call through a constant table of functions
    (`next_step[what_next(pool)](thr)`): every entry is inlined behind a switch on the index expression, so that flag
    partitioning selects the entry like a `switch` statement would.  (Wanted in core.Inliner._targets.)"""

    def __init__(self, prog, **kw):
        Inliner.__init__(self, prog, **kw)
        self._rens = []

    def _emit(self, f, ren, chain, active, depth, retvar):
        self._rens.append(ren)
        try:
            return Inliner._emit(self, f, ren, chain, active, depth, retvar)
        finally:
            self._rens.pop()

    def _targets(self, caller, e, known_table=None):
        t = Inliner._targets(self, caller, e, known_table)
        if t or 'callee' in e or 'fnexpr' not in e:
            return t
        ren = self._rens[-1] if self._rens else {}
        fx = strip(e['fnexpr'])
        if isinstance(fx, dict) and fx.get('k') == 'var' and fx.get('vk') in ('param', 'local') and isinstance(ren.get(fx['name']), dict):
            fx = strip(ren[fx['name']])
        unit = self.prog.unit_of(caller)
        if isinstance(fx, dict) and fx.get('k') == 'var' and fx.get('vk') == 'func':
            g = self.prog.resolve(unit, fx['name']) if unit else None
            if g is not None and g.blocks and not self.stop(g):
                return [g]
            return None
        tab = _table_entries(self.prog, unit, fx) if unit else None
        if tab and not any(self.stop(g) for _, g in tab[0]):
            return [g for _, g in tab[0]]
        return None

    def inline(self, f):
        g = Inliner.inline(self, f)
        unit = self.prog.unit_of(f)
        # table dispatch: the MethodDispatch the base class leaves becomes a switch on the index
        for blk in g.blocks.values():
            if not blk.events or blk.events[-1]['ev'] != 'enter' or 'fnexpr' not in blk.events[-1] or len(blk.succ) < 2:
                continue
            en = blk.events[-1]
            tab = _table_entries(self.prog, unit, en['fnexpr'])
            if not tab:
                continue
            left = list(tab[0])
            cases = []
            for q in en.get('targets', []):
                hit = [k for k, (i, t) in enumerate(left) if t.q == q]
                if not hit:
                    cases = None
                    break
                cases.append(left.pop(hit[0])[0])
            if cases and len(cases) == len(blk.succ):
                blk.term = {'cls': 'SwitchStmt', 'cond': tab[1], 'cases': cases, 'loc': en.get('loc', '')}
        return g


def _inliner(prog):
    files = module_files(prog)
    return ModInliner(prog, stop=lambda t: not t.static and t.file not in files)


def context_of(prog, root):
    """root with every helper inlined that is not library API of another module (a function with external linkage defined
    outside the files of the iv_work code); normalised."""
    cache = prog.__dict__.setdefault('_h12_ctx', {})
    if root.q not in cache:
        g = _inliner(prog).inline(root)
        cache[root.q] = normalise(g, prog)
    return cache[root.q]


RECORDS = ('iv_work_item', 'iv_work_pool')          # the records of the installed header: the module is the code that uses them


def module_files(prog):
    """the .c files whose code accesses the iv_work records (found by what they do, not by name)"""
    cache = prog.__dict__.get('_h12_files')
    if cache is None:
        cache = set()
        for f in prog.all_funcs():
            if f.file.endswith('.c') and f.file not in cache:
                if any(x.get('k') == 'member' and x.get('record') in RECORDS for e in f.events() for x in walk(e)):
                    cache.add(f.file)
        prog.__dict__['_h12_files'] = cache
    return cache


def _internal_pointers(prog):
    """Static functions of the module whose address never leaves it: every use of the address is an argument bound to
    a parameter that a static helper of the module only *calls*, or an entry of a constant dispatch table that is only
    indexed and called (ModInliner enters both).  They are helpers, not entry points."""
    cache = prog.__dict__.get('_h12_internal')
    if cache is not None:
        return cache
    files = module_files(prog)
    funcs = [f for f in prog.all_funcs() if f.file in files and f.blocks]
    uses = {}            # function q -> [bool internal]

    def only_called(callee, pname):
        for e in callee.events():
            if e['ev'] == 'load':
                continue                       # the read that feeds the call
            for key, v in e.items():
                if not isinstance(v, (dict, list)):
                    continue
                for x in walk(v):
                    if x.get('k') == 'var' and x.get('name') == pname and x.get('vk') == 'param':
                        if not (e['ev'] == 'call' and key == 'fnexpr' and varname(v) == pname):
                            return False
        return True

    def table_only_called(unit, gname):
        for f in funcs:
            for e in f.events():
                if e['ev'] == 'load':
                    continue
                for key, v in e.items():
                    if not isinstance(v, (dict, list)):
                        continue
                    for x in walk(v):
                        if x.get('k') == 'var' and x.get('name') == gname and x.get('vk') in ('global', 'staticlocal'):
                            if not (e['ev'] == 'call' and key == 'fnexpr' and _table_entries(prog, unit, v)):
                                return False
        return True

    for f in funcs:
        unit = prog.unit_of(f)
        for e in f.events():
            bound = {}
            if e['ev'] == 'call' and 'callee' in e:
                t = prog.resolve(unit, e['callee']) if unit else None
                if t is not None and t.static and t.file in files and t.blocks:
                    for i, a in enumerate(e.get('args', [])):
                        a = strip(a)
                        if isinstance(a, dict) and a.get('k') == 'var' and a.get('vk') == 'func' and i < len(t.params):
                            bound[id(a)] = only_called(t, t.params[i]['name'])
            for x in walk(e):
                if x.get('k') == 'var' and x.get('vk') == 'func':
                    g = prog.resolve(unit, x['name']) if unit else None
                    if g is not None:
                        uses.setdefault(g.q, []).append(bound.get(id(x), False))
    for name, gl in prog.globals.items():
        init = gl.get('init') if isinstance(gl, dict) else None
        if not isinstance(init, dict):
            continue
        unit = gl.get('unit') or (name.split(':')[0] if ':' in name else None)
        internal = bool(gl.get('static')) and 'elems' in init and not prog.global_writers(gl.get('name', name)) \
            and table_only_called(unit, gl.get('name', name))
        for x in walk(init):
            if x.get('k') == 'var' and x.get('vk') == 'func':
                g = prog.resolve(unit, x['name']) if unit else None
                if g is not None:
                    uses.setdefault(g.q, []).append(internal)
    cache = {q for q, us in uses.items() if us and all(us)}
    prog.__dict__['_h12_internal'] = cache
    return cache


def module_roots(prog):
    """roots (exported functions, installed handlers) of the iv_work code"""
    files = module_files(prog)
    internal = _internal_pointers(prog)
    return [r for r in roles.roots(prog) if r.file in files and not (r.static and r.q in internal)]


def contexts(prog, site_pred):
    """[(root, inlined root, [site events])]: every root (exported function or installed handler) of the iv_work code in
    whose inlined and normalised body an event satisfies site_pred.  (The predicate is evaluated on the normalised
    context, so a site written through a cached address or an extracted helper is found like the plain form.)"""
    out = []
    for r in module_roots(prog):
        g = context_of(prog, r)
        sites = [e for e in g.events() if site_pred(e)]
        if sites:
            out.append((r, g, sites))
    return out


def short(f):
    return f.name


# --------------------------------------------------------------------------
# may-analysis over sets of worlds
# --------------------------------------------------------------------------

def _zero_tested(g):
    """locals that some branch compares with 0 / NULL"""
    cache = g.__dict__.get('_h12_zt')
    if cache is None:
        cache = set()
        for blk in g.blocks.values():
            for si in range(len(blk.succ)):
                for (op, lc, rc, l, r) in atoms_on(blk, si):
                    if op in ('==', '!=') and rc == '0' and varname(l):
                        cache.add(varname(l))
        grown = True
        while grown:
            grown = False
            for e in g.events():
                if e['ev'] == 'store' and e.get('op') == '=' and 'rhs' in e and varname(e['lhs']) in cache:
                    v = varname(e['rhs'])
                    if v and v not in cache:
                        cache.add(v)
                        grown = True
        # a local whose address escapes may change behind the analysis' back
        for e in g.events():
            for x in walk(e):
                if x.get('k') == 'addr' and varname(x['e']):
                    cache.discard(varname(x['e']))
        g.__dict__['_h12_zt'] = cache
    return cache


def _zero_step(e, facts, tracked):
    """facts: frozenset((local, is_zero)) known on this path"""
    ev = e['ev']
    if ev == 'decl':
        return frozenset(f for f in facts if f[0] != e['name']) if facts else facts
    if ev == 'store':
        x = varname(e['lhs'])
        if x is None:
            return facts
        facts = frozenset(f for f in facts if f[0] != x)
        if x in tracked and e.get('op') == '=' and 'rhs' in e:
            r = strip(e['rhs'])
            if isinstance(r, dict):
                if r.get('k') == 'null' or (r.get('k') == 'int' and r['v'] == 0):
                    return facts | {(x, True)}
                if r.get('k') in ('container_of', 'addr') or (r.get('k') == 'int' and r['v'] != 0):
                    return facts | {(x, False)}
                if r.get('k') == 'var':
                    for f in facts:
                        if f[0] == r['name']:
                            return facts | {(x, f[1])}
        return facts
    if ev == 'call' and facts:
        for a in e.get('args', []):
            a = strip(a)
            if isinstance(a, dict) and a.get('k') == 'addr':
                v = varname(a['e'])
                if v:
                    facts = frozenset(f for f in facts if f[0] != v)
    return facts


def _zero_edge(blk, si, facts, tracked):
    for (op, lc, rc, l, r) in atoms_on(blk, si):
        if op in ('==', '!=') and rc == '0':
            v = varname(l)
            if v in tracked:
                z = (op == '==')
                if (v, not z) in facts:
                    return None
                facts = facts | {(v, z)}
    return facts


def _path_tested(g):
    """Access paths through memory (`pool->started_threads`) that branches at more than one source location compare with
    zero: {canonical text: (locals it reads, member steps it reads)}.  The second spelling is usually not a second read
    but the condition written again at the join of a short-circuit value (`if (!(a || b))`, `ok = a && b; if (ok)`):
    a path that took the `a is true` edge cannot take the edge that needs `a == 0` while nothing could have changed it."""
    cache = g.__dict__.get('_h12_pt')
    if cache is None:
        seen = {}
        for blk in g.blocks.values():
            for si in range(len(blk.succ)):
                for (op, lc, rc, l, r) in atoms_on(blk, si):
                    x = strip(l)
                    if op in ('==', '!=') and rc == '0' and isinstance(x, dict) and x.get('k') == 'member' and _pure_path(l):
                        seen.setdefault(lc, (set(), l))[0].add(blk.term.get('loc'))
        cache = {lc: (frozenset(names_of(l)), frozenset(lvalue_steps(l))) for lc, (locs, l) in seen.items() if len(locs) > 1}
        g.__dict__['_h12_pt'] = cache
    return cache


def _path_step(e, facts, paths):
    """forget what the path knows about a memory read when it may have changed: a store to one of the members / locals the
    expression reads (type-based), a store through a bare pointer, any call that is not a pure helper (lock operations,
    user callbacks, library calls)"""
    if not paths or not any(f[0] in paths for f in facts):
        return facts
    ev = e['ev']
    if ev == 'call':
        if 'fnexpr' in e or e.get('callee') not in PURE_CALLS:
            return frozenset(f for f in facts if f[0] not in paths)
        return facts
    if ev == 'decl':
        return frozenset(f for f in facts if not (f[0] in paths and e['name'] in paths[f[0]][0]))
    if ev == 'store':
        steps = set(lvalue_steps(e['lhs']))
        v = varname(e['lhs'])
        l = strip(e['lhs'])
        wild = not steps and v is None
        return frozenset(f for f in facts if not (f[0] in paths and (wild or (steps & paths[f[0]][1]) or (v is not None and v in paths[f[0]][0]))))
    return facts


def _path_edge(blk, si, facts, paths):
    if not paths:
        return facts
    for (op, lc, rc, l, r) in atoms_on(blk, si):
        if op in ('==', '!=') and rc == '0' and lc in paths:
            z = (op == '==')
            if (lc, not z) in facts:
                return None
            facts = facts | {(lc, z)}
    return facts


def worlds(g, init, step, edge=None):
    """Forward may-analysis whose state is a finite set of abstract worlds (path-sensitive up to the world).
    step(event, world) -> iterable of worlds; edge(block, succ index, world) -> world or None (infeasible).
    Every world also carries what the path knows about locals being zero / NULL (assigned NULL, a constant, an address, a
    container_of result, or tested), and edges contradicting it are infeasible: a helper returning "item or NULL" or
    "found / not found" reads like the code with the test inlined.  The same for memory reads that are compared with zero at
    more than one place (_path_tested: the condition of a short-circuit value written again at its join), until something
    may have changed them.
    Returns {(block, i): frozenset(worlds)} (state before event i; i == len(events): at the block end)."""
    tracked = _zero_tested(g)
    paths = _path_tested(g)

    def tr(e, S):
        out = set()
        for (w, facts) in S:
            f2 = _path_step(e, _zero_step(e, facts, tracked), paths)
            for w2 in step(e, w):
                out.add((w2, f2))
        return frozenset(out)

    def ed(blk, si, S):
        if any(at[0] == 'const' and at[1] == 'False' for at in atoms_on(blk, si)):
            return None
        out = set()
        for (w, facts) in S:
            f2 = _zero_edge(blk, si, facts, tracked)
            if f2 is not None:
                f2 = _path_edge(blk, si, f2, paths)
            if f2 is None:
                continue
            w2 = edge(blk, si, w) if edge is not None else w
            if w2 is not None:
                out.add((w2, f2))
        return frozenset(out) if out else None
    _, ev_in = forward(g, frozenset([(init, frozenset())]), tr, lambda a, b: a | b, edge=ed)
    return {k: frozenset(w for (w, _) in v) for k, v in ev_in.items()}


def at_exit(g, ev_in):
    return ev_in.get((g.exit, 0), frozenset())


# --------------------------------------------------------------------------
# work item typestate
# --------------------------------------------------------------------------

_IDENT = re.compile(r'^[\w$@]+$')


def _is_varname(s):
    return bool(_IDENT.match(s))


def _src_of(E):
    """where a list node pointer was read from: ('head'|'tail', key) for X.next / X.prev with key = (record, field)
    of the list head X, ('var', name) for a local head, ('ptr', name) for p->next."""
    m = strip(E)
    if isinstance(m, dict) and m.get('k') == 'member' and m.get('record') == LH and m['field'] in ('next', 'prev'):
        which = 'head' if m['field'] == 'next' else 'tail'
        b = strip(m['base'])
        if not isinstance(b, dict):
            return None
        if not m['arrow']:
            if b.get('k') == 'member':
                return (which, chain_of(b))
            if b.get('k') == 'var':
                return (which, ('var', b['name']))
        elif b.get('k') == 'var':
            return (which, ('ptr', b['name']))
    return None


class Items:
    """Alias typestate of `rec` objects linked through `rec.link`, evaluated per world (h12.worlds).

    An abstract object is (names, phase, src, ulocked).  names: ('i', v) local v points to the object, ('n', s) local or
    access path s points to its list node.  Objects are created by the *definition* that takes them from a list
    (`v = container_of(X.next, rec, link)`, `n = X.next`), so every statement about "the item whose work function is
    called here" is relative to that definition -- independent of loop shape and of how the code is cut into helpers.
    phases: taken -> unlinked -> worked -> queued ; unlinked/worked -> completed ; anything unexpected -> bad;
    (_join, the must-join of two partitions, is kept for users that want a single summary per point)."""

    def __init__(self, g, rec='iv_work_item', link='list', lock=None):
        self.g, self.rec, self.link, self.lock = g, rec, link, lock
        self.ls = locksets(g)
        # one alias/typestate partition per world: no information is lost where paths join
        self.ev_in = worlds(g, frozenset(), lambda e, S: [self._tr(e, S)])

    # -- names -------------------------------------------------------------
    def names_for(self, E):
        out = set()
        s = strip(E)
        if isinstance(s, dict) and s.get('k') == 'addr':
            m = strip(s['e'])
            if last_member(m) == (self.rec, self.link) and m.get('arrow'):
                b = varname(m['base'])
                if b:
                    out.add(('i', b))
            return out
        for nm in names_of(E):
            out.add(('n', nm))
        return out

    @staticmethod
    def find(S, names):
        for o in S:
            if o[0] & names:
                return o
        return None

    def obj_of_var(self, S, v):
        return self.find(S, {('i', v)})

    @staticmethod
    def _replace(S, old, new):
        S = set(S)
        S.discard(old)
        if new is not None and new[0]:
            S.add(new)
        return frozenset(S)

    @staticmethod
    def _mentions(s, v):
        return s == v or bool(re.search(r'(?<![\w$@])%s(?![\w$@])' % re.escape(v), s))

    @classmethod
    def _unbind(cls, S, v):
        out = set()
        for o in S:
            nm = frozenset(n for n in o[0] if not cls._mentions(n[1], v))
            if nm:
                out.add((nm,) + o[1:])
        return frozenset(out)

    @staticmethod
    def _kill_mem(S):
        out = set()
        for o in S:
            nm = frozenset(n for n in o[0] if _is_varname(n[1]))
            if nm:
                out.add((nm,) + o[1:])
        return frozenset(out)

    # -- transfer -----------------------------------------------------------
    def _tr(self, e, S):
        ev = e['ev']
        if ev == 'decl':
            return self._unbind(S, e['name'])
        if ev == 'store':
            l = strip(e['lhs'])
            if l.get('k') == 'var':
                x = l['name']
                S = self._unbind(S, x)
                if e.get('op') != '=' or 'rhs' not in e:
                    return S
                r = strip(e['rhs'])
                if not isinstance(r, dict):
                    return S
                if r.get('k') == 'container_of' and r.get('record') == self.rec and r.get('member') == self.link:
                    nm = {n for n in self.names_for(r['e']) if not self._mentions(n[1], x)}
                    o = self.find(S, nm)
                    if o is not None:
                        return self._replace(S, o, (o[0] | {('i', x)},) + o[1:])
                    src = _src_of(r['e'])
                    return S | {(frozenset(nm | {('i', x)}), 'taken', src, False)}
                if r.get('k') == 'member' and r.get('record') == LH and r['field'] in ('next', 'prev') \
                        and (l.get('record') == LH or LH in str(l.get('type', ''))):
                    nm = {n for n in self.names_for(e['rhs']) if not self._mentions(n[1], x)}
                    o = self.find(S, nm)
                    if o is not None:
                        return self._replace(S, o, (o[0] | {('n', x)},) + o[1:])
                    return S | {(frozenset(nm | {('n', x)}), 'taken', _src_of(r), False)}
                if r.get('k') == 'var':
                    o = self.find(S, {('i', r['name']), ('n', r['name'])})
                    if o is not None:
                        tag = 'i' if ('i', r['name']) in o[0] else 'n'
                        return self._replace(S, o, (o[0] | {(tag, x)},) + o[1:])
                    return S
                if r.get('k') == 'addr':
                    o = self.find(S, {n for n in self.names_for(e['rhs']) if n[0] == 'i'})
                    if o is not None:
                        return self._replace(S, o, (o[0] | {('n', x)},) + o[1:])
                return S
            if set(lvalue_steps(e['lhs'])) & LIST_KEYS or l.get('k') in ('deref', 'index'):
                return self._kill_mem(S)
            return S
        if ev != 'call':
            return S
        nm = e.get('callee')
        if nm in DEL and e.get('args'):
            o = self.find(S, self.names_for(e['args'][0]))
            S2 = S
            if o is not None:
                locked = self.lock is None or self.lock in held(self.ls.get((e['_b'], e['_i'])))
                new = (o[0], 'unlinked' if o[1] == 'taken' else 'bad', o[2], locked)
                S2 = self._replace(S, o, new)
            return self._kill_mem(S2)
        if nm in ADD and e.get('args'):
            o = self.find(S, self.names_for(e['args'][0]))
            S2 = S
            if o is not None:
                new = (o[0], 'queued' if o[1] in ('worked', 'unlinked') else 'bad', o[2], o[3])
                S2 = self._replace(S, o, new)
            return self._kill_mem(S2)
        ck = callback_kind(e) if 'fnexpr' in e else None
        if ck and ck[0] == 'callback' and ck[1] in ('work', 'completion'):
            b = varname(strip(e['fnexpr']).get('base'))
            o = self.obj_of_var(S, b) if b else None
            S2 = S
            if o is not None:
                if ck[1] == 'work':
                    ph = 'worked' if o[1] == 'unlinked' else 'bad'
                else:
                    ph = 'completed' if o[1] in ('unlinked', 'worked') else 'bad'
                S2 = self._replace(S, o, (o[0], ph, o[2], o[3]))
            return self._kill_mem(S2)
        if 'fnexpr' in e or (nm and nm not in QUIET_CALLS):
            S = self._kill_mem(S)
        # a local whose address is passed out may be rewritten
        for a in e.get('args', []):
            a = strip(a)
            if isinstance(a, dict) and a.get('k') == 'addr':
                v = strip(a['e'])
                if isinstance(v, dict) and v.get('k') == 'var' and v.get('ptr'):
                    S = self._unbind(S, v['name'])
        return S

    @staticmethod
    def _join(a, b):
        if a == b:
            return a
        out = set()
        for oa in a:
            for ob in b:
                nm = oa[0] & ob[0]
                if nm:
                    out.add((nm, oa[1] if oa[1] == ob[1] else 'mixed', oa[2] if oa[2] == ob[2] else None, oa[3] and ob[3]))
        return frozenset(out)

    # -- queries --------------------------------------------------------------
    def before(self, e):
        """the alias/typestate partitions that can hold before event e (one per world)"""
        return self.ev_in.get((e['_b'], e['_i']), frozenset())

    def callee_objects(self, e):
        """per world: the abstract object the indirect call `v->work(...)` / `v->completion(...)` is made on (None: unknown)"""
        b = varname(strip(e['fnexpr']).get('base'))
        return [self.obj_of_var(S, b) if b else None for S in self.before(e)]

    def var_objects(self, e, v):
        return [self.obj_of_var(S, v) if v else None for S in self.before(e)]

    def arg_objects(self, e, i=0):
        a = e['args'][i] if len(e.get('args', [])) > i else None
        return [self.find(S, self.names_for(a)) if a is not None else None for S in self.before(e)]


# --------------------------------------------------------------------------
# keys: an object member is named by its chain of (record, field) steps inside the object
# --------------------------------------------------------------------------

def chain_of(x):
    """Key of an access path (or of the address of one): the member steps from the last `->` to the end,
    `pool->seq.tail` -> ((work_pool_priv, seq), (<anon>, tail)).  Independent of how the object is reached and of the
    nesting of sub-structures being spelled differently elsewhere (the role inference derives the key from the code)."""
    x = strip(x)
    if isinstance(x, dict) and x.get('k') == 'addr':
        x = strip(x['e'])
    if not (isinstance(x, dict) and x.get('k') == 'member'):
        return None
    _, ch = field_chain(x)
    return tuple(ch)


def arg_chain(e, i):
    """key of `&X->a.b` passed as argument i of a call event (None for anything that is not the address of a member)"""
    a = strip(e['args'][i]) if len(e.get('args', [])) > i else None
    if isinstance(a, dict) and a.get('k') == 'addr':
        return chain_of(a)
    return None


def step_of(e, key):
    """+1 / -1 when the store event steps the field `key` by one (x++, --x, x += 1, x -= 1, x = x + 1, x = x - 1, x = 1 + x)"""
    if key is None or e['ev'] != 'store' or chain_of(e['lhs']) != key:
        return None
    return step_sign(e)


def step_sign(e):
    op = e.get('op')
    if op == '++':
        return 1
    if op == '--':
        return -1
    if op in ('+=', '-=') and is_int(e.get('rhs')):
        v = strip(e['rhs'])['v']
        if abs(v) == 1:
            return v if op == '+=' else -v
        return None
    if op == '=' and 'rhs' in e:
        r = strip(e['rhs'])
        if isinstance(r, dict) and r.get('k') == 'bin' and r['op'] in ('+', '-'):
            me = canon(e['lhs'])
            if is_int(r['r']) and abs(strip(r['r'])['v']) == 1 and canon(r['l']) == me:
                v = strip(r['r'])['v']
                return v if r['op'] == '+' else -v
            if r['op'] == '+' and is_int(r['l'], 1) and canon(r['r']) == me:
                return 1
    return None


def mark_effect(e, key):
    """'set' / 'clear' when the store event sets / clears the mark `key`: `m = <nonzero>` / `m = 0`, or a bit of a flags word
    `m |= BIT` / `m &= ~BIT`; None for other events."""
    if key is None or e['ev'] != 'store' or chain_of(e['lhs']) != key or 'rhs' not in e:
        return None
    return mark_op(e)


def mark_op(e):
    r = strip(fold(e['rhs'])) if 'rhs' in e else None
    if not (isinstance(r, dict) and r.get('k') == 'int'):
        return None
    if e.get('op') == '=':
        return 'set' if r['v'] != 0 else 'clear'
    if e.get('op') == '|=' and r['v'] != 0:
        return 'set'
    if e.get('op') == '&=' and r['v'] != -1 and (r['v'] & 0xffffffff) != 0xffffffff:
        return 'clear'
    return None


def writes_key(e, key):
    """the store event writes (part of) the member `key`"""
    if key is None or e['ev'] != 'store':
        return False
    c = chain_of(e['lhs'])
    if not c:
        return False
    n = min(len(c), len(key))
    return c[:n] == key[:n]


def empty_test(atom, key):
    """'empty' / 'nonempty' when the atom is a truth test of iv_list_empty(&X) for the list head `key`"""
    (op, lc, rc, l, r) = atom
    c = strip(l)
    if key is None or not (isinstance(c, dict) and c.get('k') == 'call' and c.get('callee') == 'iv_list_empty' and rc == '0'):
        return None
    if chain_of(c['args'][0]) != key or strip(c['args'][0]).get('k') != 'addr':
        return None
    return 'empty' if op == '!=' else 'nonempty'


def registered_test(atom, key):
    """'registered' / 'unregistered' when the atom is a truth test of iv_task_registered(&X) for the task `key`"""
    (op, lc, rc, l, r) = atom
    c = strip(l)
    if key is None or not (isinstance(c, dict) and c.get('k') == 'call' and c.get('callee') == 'iv_task_registered' and rc == '0'):
        return None
    if not c.get('args') or chain_of(c['args'][0]) != key or strip(c['args'][0]).get('k') != 'addr':
        return None
    return 'registered' if op == '!=' else 'unregistered'


def compare_keys(atom, lkey, rkeys):
    """For an atom comparing the field `lkey` with one of the fields `rkeys` (either operand order, also as
    `(a - b) OP 0`): the operator normalised to `lkey OP rkey`, else None."""
    from ..core import SWAP
    (op, lc, rc, l, r) = atom
    if op == 'const' or lkey is None or not isinstance(r, dict):
        return None
    d = strip(l)
    if rc == '0' and isinstance(d, dict) and d.get('k') == 'bin' and d['op'] == '-':
        l, r = d['l'], d['r']
    ll, rr = chain_of(l), chain_of(r)
    if ll == lkey and rr in rkeys:
        return op
    if rr == lkey and ll in rkeys:
        return SWAP[op]
    return None


def compare_zero(atom, key):
    """operator of `key OP 0` (also `key OP 1` normalised: x >= 1 is x > 0, x < 1 is x <= 0), else None"""
    (op, lc, rc, l, r) = atom
    if op == 'const' or key is None or chain_of(l) != key:
        return None
    if rc == '0':
        return op
    if rc == '1':
        return {'>=': '>', '<': '<='}.get(op)
    return None


def is_unsigned(x):
    """the C type of the (member) expression is an unsigned integer type"""
    t = str((strip(x) or {}).get('type', '')) if isinstance(strip(x), dict) else ''
    return 'unsigned' in t or t.startswith(('uint', 'size_t', '__u'))


def key_relation(atom, a, b):
    """'eq' / 'ne' when the atom states equality / inequality of the fields a and b (a == b, a != b, (a - b) == 0, !(a - b))"""
    (op, lc, rc, l, r) = atom
    if op not in ('==', '!=') or a is None or b is None:
        return None
    if isinstance(r, dict) and {chain_of(l), chain_of(r)} == {a, b}:
        return 'eq' if op == '==' else 'ne'
    if rc == '0':
        d = strip(l)
        if isinstance(d, dict) and d.get('k') == 'bin' and d['op'] == '-' and {chain_of(d['l']), chain_of(d['r'])} == {a, b}:
            return 'eq' if op == '==' else 'ne'
    return None


def seq_order(atom, head, tail):
    """'eq' / 'ne' when the atom decides whether the two sequence numbers are equal, given head never runs ahead of tail:
    head == tail, head != tail, (tail - head) == 0 / != 0 / > 0 / <= 0 (signed difference), head >= tail, head < tail, and the
    same with the operands swapped."""
    from ..core import SWAP
    r = key_relation(atom, head, tail)
    if r is not None or head is None or tail is None:
        return r
    (op, lc, rc, l, rr) = atom
    if op == 'const':
        return None
    d = strip(l)
    if rc == '0' and isinstance(d, dict) and d.get('k') == 'bin' and d['op'] == '-':
        a, b = chain_of(d['l']), chain_of(d['r'])
    elif isinstance(rr, dict):
        a, b = chain_of(l), chain_of(rr)
    else:
        return None
    if (a, b) == (head, tail):
        op = SWAP[op]
    elif (a, b) != (tail, head):
        return None
    # now: tail OP head
    return {'>': 'ne', '<=': 'eq'}.get(op)


def all_atoms(g):
    for blk in g.blocks.values():
        for si in range(len(blk.succ)):
            for at in atoms_on(blk, si):
                yield at


# --------------------------------------------------------------------------
# teardown of a pool (R-C12g)
# --------------------------------------------------------------------------

ALLOC = ('malloc', 'calloc')


def fresh_objects(g):
    """Locals of the context that only ever hold an object allocated in this very context (every definition is a malloc /
    calloc result, NULL, or a copy of such a local; at least one allocation; the address of the local is never taken).
    Such an object has not been published: no item can have been submitted to it, releasing it loses nothing."""
    defs, taken = {}, set()
    for e in g.events():
        for x in walk(e):
            if x.get('k') == 'addr' and varname(x['e']):
                taken.add(varname(x['e']))
        if e['ev'] == 'store':
            v = varname(e['lhs'])
            if v is not None:
                defs.setdefault(v, []).append(e)
    def kind(e, fresh):
        if e.get('op') != '=' or 'rhs' not in e:
            return None
        r = strip(e['rhs'])
        if not isinstance(r, dict):
            return None
        if r.get('k') == 'call' and r.get('callee') in ALLOC:
            return 'alloc'
        if r.get('k') == 'null' or (r.get('k') == 'int' and r['v'] == 0):
            return 'null'
        if r.get('k') == 'var' and r['name'] in fresh:
            return 'copy'
        return None
    fresh = {v for v in defs if v not in taken}
    grown = True
    while grown:
        grown = False
        for v in sorted(fresh):
            if any(kind(e, fresh) is None for e in defs[v]):
                fresh.discard(v)
                grown = True
    # at least one allocation reaches the local (directly or through copies)
    has = {v for v in fresh if any(kind(e, fresh) == 'alloc' for e in defs[v])}
    grown = True
    while grown:
        grown = False
        for v in fresh - has:
            if any(kind(e, fresh) == 'copy' and strip(e['rhs'])['name'] in has for e in defs[v]):
                has.add(v)
                grown = True
    return has


def _points_to(x, rec, also=()):
    """the expression is a pointer to an object of record `rec` (a typed local / parameter, one of the untyped locals
    `also` that hold the same pointer, or the public priv pointer)"""
    x = strip(x)
    if not isinstance(x, dict) or rec is None:
        return False
    if x.get('k') == 'var':
        return x.get('record') == rec or x.get('name') in also
    if x.get('k') == 'member':
        return last_member(x) == PUBLIC_PRIV or (x.get('trecord') == rec and bool(x.get('tptr')))
    return False


def pool_pointers(g, S):
    """Locals / parameters of the context that hold a pointer to a pool object without being typed so: the `void *` cookie of
    a handler that is copied into the typed local (`pool = _pool`), or an untyped copy of a typed one (closure over plain
    copies in either direction)."""
    typed, pairs = set(), set()
    for e in g.events():
        for x in walk(e):
            if x.get('k') == 'var' and x.get('record') == S.priv and S.priv is not None:
                typed.add(x['name'])
        if e['ev'] == 'store' and e.get('op') == '=' and 'rhs' in e:
            a, b = varname(e['lhs']), varname(e['rhs'])
            if a and b and a != b:
                pairs.add((a, b))
    out = set(typed)
    grown = True
    while grown:
        grown = False
        for a, b in pairs:
            if (a in out) != (b in out):
                out |= {a, b}
                grown = True
    return out - typed


def teardown_kind(e, S, also=()):
    """What a call event releases of a pool, by role: 'freed' (free of an object of the pool record), 'event' (the event whose
    handler runs the completions is unregistered: no completion is delivered afterwards), 'lock' (the pool lock is destroyed).
    None for every other event."""
    if e['ev'] != 'call' or 'callee' not in e or not e.get('args'):
        return None
    nm = e['callee']
    if nm == 'free':
        return 'freed' if _points_to(e['args'][0], S.priv, also) else None
    if nm == 'iv_event_unregister':
        return 'event' if (S.ev is not None and arg_chain(e, 0) == S.ev) else None
    if nm.endswith('_destroy') and nm not in LOCK_FUNCS and S.lock is not None:
        a = strip(e['args'][0])
        if isinstance(a, dict) and a.get('k') == 'addr' and lock_id(e['args'][0]) == S.lock:
            return 'lock'
    return None


def teardown_object(e):
    """the local that names the pool object a teardown event works on (`free(v)`, `f(&v->m)`); None if it is reached otherwise"""
    a = e['args'][0]
    return varname(a) or base_var(a)


# --------------------------------------------------------------------------
# role inference: which record / field plays which part
# --------------------------------------------------------------------------

ITEM_LINK = (('iv_work_item', 'list'),)                   # installed header
PUBLIC_MAX = (('iv_work_pool', 'max_threads'),)           # installed header
PUBLIC_PRIV = ('iv_work_pool', 'priv')                    # installed header
HANDLER_RECORDS = ('iv_event', 'iv_task', 'iv_task_', 'iv_timer', 'iv_timer_', 'iv_event_raw')


class Schema:
    """The private data layout of the iv_work code, found by what the code does with it (nothing here is a name of a
    private struct, field, global or static function):

      priv       the record iv_work_pool.priv points to
      thread     the record of the cookie handed to iv_thread_create
      lock       the lock inside a priv object that the module takes
      work_items the priv list an exported function links the caller's item into;  localq: the same for the non-pool list
      work_done  the priv list the worker links items into / the owner detaches
      idle       the priv list thread records are linked into;  thr_link: their link member
      ev / kick / needed / task: the event (task) whose installed handler is the owner / worker / thread-request / local root
      kicked     the integer member of thread that submit sets and the worker clears
      counter    the priv integer that counts threads (stepped where a thread is created and where one ends)
      seq_tail / seq_head: the priv integers stepped by the submit functions / by the worker
      maxkeys    iv_work_pool.max_threads and its write-once copies
    A role that cannot be found is None (the obligations that need it fail or their section is ANALYSIS-BROKEN); an
    ambiguous role is ANALYSIS-BROKEN."""

    def describe(self):
        def k(c):
            return '.'.join(f for _, f in c) if c else 'None'
        return ('priv=%s thread=%s lock=%s work_items=%s work_done=%s idle=%s localq=%s thr_link=%s ev=%s kick=%s needed=%s task=%s '
                'kicked=%s counter=%s(%s) seq_head=%s seq_tail=%s max=%s'
                % (self.priv, self.thread, self.lock, k(self.work_items), k(self.work_done), k(self.idle), k(self.localq), k(self.thr_link),
                   k(self.ev), k(self.kick), k(self.needed), k(self.task), k(self.kicked), k(self.counter), self.direction,
                   k(self.seq_head), k(self.seq_tail), sorted(k(m) for m in self.maxkeys)))


def _one(cands, what, need=False):
    cands = {c for c in cands if c}
    if len(cands) == 1:
        return next(iter(cands))
    if not cands:
        if need:
            raise AnalysisBroken('role inference: %s not found' % what)
        return None
    raise AnalysisBroken('role inference: %s is ambiguous: %s' % (what, sorted(map(str, cands))[:4]))


def work_site(e):
    return callback_kind(e) == ('callback', 'work')


def completion_site(e):
    return callback_kind(e) == ('callback', 'completion')


def schema(prog):
    cache = prog.__dict__.get('_h12_schema')
    if cache is None:
        try:
            cache = _infer(prog)
        except AnalysisBroken as x:
            cache = x
        prog.__dict__['_h12_schema'] = cache
    if isinstance(cache, Exception):
        raise AnalysisBroken(str(cache))
    return cache


def _infer(prog):
    S = Schema()
    roots = module_roots(prog)
    ctxs = [(r, context_of(prog, r)) for r in roots]
    if not ctxs:
        raise AnalysisBroken('role inference: no code uses the iv_work records')
    # ---- records ------------------------------------------------------------------------------------------------
    priv = {}
    for r, g in ctxs:
        for e in g.events():
            if e['ev'] == 'store' and e.get('op') == '=' and 'rhs' in e:
                l, rh = strip(e['lhs']), strip(e['rhs'])
                if isinstance(rh, dict) and last_member(rh) == PUBLIC_PRIV and isinstance(l, dict) and l.get('k') == 'var' and l.get('record'):
                    priv[l['record']] = priv.get(l['record'], 0) + 1
                if last_member(l) == PUBLIC_PRIV and isinstance(rh, dict) and rh.get('k') == 'var' and rh.get('record'):
                    priv[rh['record']] = priv.get(rh['record'], 0) + 1
            for x in walk(e):
                if x.get('k') == 'member' and x.get('arrow') and last_member(x.get('base')) == PUBLIC_PRIV and x.get('record'):
                    priv[x['record']] = priv.get(x['record'], 0) + 1
    S.priv = _one(set(priv), 'the record iv_work_pool.priv points to', need=True)
    thread = set()
    for r, g in ctxs:
        for e in g.events():
            if is_call(e, 'iv_thread_create') and e['ev'] == 'call' and len(e.get('args', [])) > 2:
                a = strip(e['args'][2])
                if isinstance(a, dict) and a.get('k') == 'var' and a.get('record'):
                    thread.add(a['record'])
    S.thread = _one(thread, 'the record of the thread cookie')

    def rooted(c, rec):
        return bool(c) and rec is not None and c[0][0] == rec

    # ---- roles of the roots ------------------------------------------------------------------------------------
    def has(g, pred):
        return any(pred(e) for e in g.events())
    pooled = {r.q: touches(g, S.priv) for r, g in ctxs}
    workers = [(r, g) for r, g in ctxs if pooled[r.q] and has(g, work_site)]
    owners = [(r, g) for r, g in ctxs if pooled[r.q] and has(g, completion_site) and not has(g, work_site)]
    locals_ = [(r, g) for r, g in ctxs if not pooled[r.q] and has(g, work_site)]
    creators = [(r, g) for r, g in ctxs if pooled[r.q] and has(g, lambda e: e['ev'] == 'call' and is_call(e, 'iv_thread_create'))]
    submitters = [(r, g) for r, g in ctxs if not r.static and has(g, lambda e: is_call(e, ADD) and arg_chain(e, 0) == ITEM_LINK)]
    S.roles = {'worker': [r.q for r, _ in workers], 'owner': [r.q for r, _ in owners], 'local': [r.q for r, _ in locals_],
               'creator': [r.q for r, _ in creators], 'submit': [r.q for r, _ in submitters]}
    # ---- the lock -----------------------------------------------------------------------------------------------
    locks = set()
    for r, g in ctxs:
        for e in g.events():
            if e['ev'] == 'call' and e.get('callee') in LOCK_FUNCS and e.get('args'):
                if rooted(chain_of(e['args'][0]), S.priv):
                    for (op, lid) in lock_effect(e):
                        locks.add(lid)
    S.lock = _one(locks, 'the lock of a pool')
    # ---- lists --------------------------------------------------------------------------------------------------
    wi, lq, wd, idle, tl = set(), set(), set(), set(), set()
    for r, g in submitters:
        for e in g.events():
            if is_call(e, ADD) and arg_chain(e, 0) == ITEM_LINK:
                c = arg_chain(e, 1)
                (wi if rooted(c, S.priv) else lq).add(c)
    S.work_items = _one(wi, 'the queue of a pool')
    S.localq = _one(lq, 'the queue of the NULL pool')
    for r, g in workers:
        for e in g.events():
            if is_call(e, ADD):
                c = arg_chain(e, 1)
                if rooted(c, S.priv) and c != S.work_items and not rooted(arg_chain(e, 0), S.thread):
                    wd.add(c)
    for r, g in owners:
        for e in g.events():
            if is_call(e, DETACH):
                c = arg_chain(e, 0)
                if rooted(c, S.priv):
                    wd.add(c)
    S.work_done = _one(wd, 'the done queue of a pool')
    for r, g in ctxs:
        for e in g.events():
            if is_call(e, ADD) and rooted(arg_chain(e, 0), S.thread) and rooted(arg_chain(e, 1), S.priv):
                idle.add(arg_chain(e, 1))
                tl.add(arg_chain(e, 0))
    S.idle = _one(idle, 'the idle list of a pool')
    S.thr_link = _one(tl, 'the link member of a thread record')
    # ---- events and tasks, by the role of the installed handler -------------------------------------------------
    by_q = {r.q: r for r, _ in ctxs}
    role_of = {}
    for nm, lst in (('kick', workers), ('ev', owners), ('task', locals_)):
        for r, _ in lst:
            role_of[r.q] = nm
    for r, _ in creators:
        if r.static and r.q not in role_of:
            role_of[r.q] = 'needed'
    inst = {'kick': set(), 'ev': set(), 'task': set(), 'needed': set()}
    seen_fn = set()
    scan = [g for _, g in ctxs] + [f for f in prog.all_funcs() if f.file in module_files(prog)]
    for g in scan:
        for e in g.events():
            if e['ev'] == 'store' and e.get('op') == '=' and 'rhs' in e:
                rh = strip(e['rhs'])
                if isinstance(rh, dict) and rh.get('k') == 'var' and rh.get('vk') == 'func':
                    c = chain_of(e['lhs'])
                    if c and len(c) >= 2 and c[-1][1] == 'handler' and c[-1][0] in HANDLER_RECORDS:
                        f = e.get('fn')
                        unit = (f.split(':')[0] if f and ':' in f else None)
                        t = None
                        for u in ([unit] if unit else []) + [prog.unit_of(x) for x in roots[:1]]:
                            t = prog.resolve(u, rh['name']) if u else None
                            if t is not None:
                                break
                        if t is not None and role_of.get(t.q):
                            inst[role_of[t.q]].add(c[:-1])
    S.kick = _one(inst['kick'], 'the event whose handler is the worker')
    S.ev = _one(inst['ev'], 'the event whose handler runs the completions')
    S.task = _one(inst['task'], 'the task whose handler runs the NULL-pool items')
    S.needed = _one(inst['needed'], 'the event whose handler starts a thread')
    # ---- the kicked mark -----------------------------------------------------------------------------------------
    kw = {}
    for lst, want in ((submitters, 'set'), (workers, 'clear')):
        for r, g in lst:
            for e in g.events():
                if e['ev'] == 'store' and 'rhs' in e and mark_op(e) == want:
                    c = chain_of(e['lhs'])
                    if rooted(c, S.thread):
                        kw[c] = kw.get(c, 0) + 1
    if len(kw) > 1:
        # the mark is the one that some handler tests
        tested = set()
        for r, g in ctxs:
            for at in all_atoms(g):
                if at[0] != 'const' and at[2] == '0':
                    for x in walk(at[3]):
                        if x.get('k') == 'member' and chain_of(x) in kw:
                            tested.add(chain_of(x))
        kw = {c: n for c, n in kw.items() if c in tested} or kw
    S.kicked = _one(set(kw), 'the kicked mark of a thread record')
    # ---- maximum and counters ------------------------------------------------------------------------------------
    S.maxkeys = {PUBLIC_MAX}
    grown = True
    while grown:
        grown = False
        for g in scan:
            for e in g.events():
                if e['ev'] == 'store' and e.get('op') == '=' and 'rhs' in e:
                    c = chain_of(e['lhs'])
                    if c and c not in S.maxkeys and chain_of(e['rhs']) in S.maxkeys and strip(e['rhs']).get('k') == 'member' \
                            and immutable_key(prog, c[-1]):
                        S.maxkeys.add(c)
                        grown = True
    steps = {}
    for r, g in ctxs:
        for e in g.events():
            if e['ev'] == 'store':
                c = chain_of(e['lhs'])
                if rooted(c, S.priv):
                    sg = step_sign(e)
                    if sg:
                        steps.setdefault(c, set()).add((r.q, sg))
    submit_q = {r.q for r, _ in submitters}
    worker_q = {r.q for r, _ in workers}
    creator_q = {r.q for r, _ in creators}
    cw = {}
    for c, st in steps.items():
        n = 0
        if any(q in creator_q and q not in submit_q for q, _ in st):
            n += 1                                          # stepped by the handler that starts a requested thread
        if {sg for _, sg in st} == {1, -1}:
            n += 1                                          # counts both ways: threads come and go
        cw[c] = n
    for r, g in ctxs:
        for at in all_atoms(g):
            for c in steps:
                if compare_keys(at, c, S.maxkeys) is not None:
                    cw[c] = cw.get(c, 0) + 1                # compared with the maximum
                    break
    best = max(cw.values()) if cw else 0
    S.counter = _one({c for c, n in cw.items() if n == best and n > 0}, 'the thread counter of a pool')
    # direction: what a thread that ends does to the counter is the opposite of what a started thread does
    ends = {sg for q, sg in steps.get(S.counter, ()) if q not in creator_q}
    S.direction = 'down' if ends == {1} else 'up'
    seq = {c: st for c, st in steps.items() if c != S.counter}
    tails = {c for c, st in seq.items() if any(q in submit_q and sg == 1 for q, sg in st)}
    heads = {c for c, st in seq.items() if any(q in worker_q and sg == 1 for q, sg in st)} - tails
    pairs = set()
    for r, g in ctxs:
        for at in all_atoms(g):
            (op, lc, rc, l, rr) = at
            if op in ('==', '!=', '<', '>', '<=', '>='):
                d = strip(l)
                if rc == '0' and isinstance(d, dict) and d.get('k') == 'bin' and d['op'] == '-':
                    a, b = chain_of(d['l']), chain_of(d['r'])
                elif isinstance(rr, dict):
                    a, b = chain_of(l), chain_of(rr)
                else:
                    continue
                if rooted(a, S.priv) and rooted(b, S.priv) and a != b and S.counter not in (a, b) and not ({a, b} & S.maxkeys):
                    pairs.add(frozenset((a, b)))
    for pr in pairs:
        if not tails and len(heads) == 1 and heads & pr:
            tails = set(pr - heads)
        if not heads and len(tails) == 1 and tails & pr:
            heads = set(pr - tails)
    S.seq_tail = _one(tails, 'the sequence number stepped by submit')
    S.seq_head = _one(heads, 'the sequence number stepped by the worker')
    return S


# --------------------------------------------------------------------------
# C integer arithmetic on expression trees; wrap-safety of comparisons between free-running counters (R-C12i)
# --------------------------------------------------------------------------

class CUndecided(Exception):
    pass


_CTYPES = {'int': (32, True), 'signed int': (32, True), 'signed': (32, True), 'unsigned int': (32, False), 'unsigned': (32, False),
           'long': (64, True), 'long int': (64, True), 'unsigned long': (64, False), 'unsigned long int': (64, False),
           'long long': (64, True), 'long long int': (64, True), 'unsigned long long': (64, False), 'unsigned long long int': (64, False),
           'short': (16, True), 'short int': (16, True), 'unsigned short': (16, False), 'unsigned short int': (16, False),
           'char': (8, True), 'signed char': (8, True), 'unsigned char': (8, False), '_Bool': (8, False), 'bool': (8, False),
           'size_t': (64, False), 'uintptr_t': (64, False), 'uintmax_t': (64, False), 'ssize_t': (64, True), 'intptr_t': (64, True),
           'ptrdiff_t': (64, True), 'intmax_t': (64, True), 'off_t': (64, True), 'time_t': (64, True)}
C_INT = (32, True)
REL_OPS = ('<', '<=', '>', '>=', '==', '!=')
LOGIC_OPS = ('&&', '||')


def ctype(t):
    """(width in bits, signed) of a C integer type name (LP64), None for anything else"""
    t = re.sub(r'\b(const|volatile|register|_Atomic)\b', ' ', str(t or ''))
    t = re.sub(r'\s+', ' ', t).strip()
    m = re.match(r'^(?:__)?(u?)int(?:_least|_fast)?(8|16|32|64)_t$', t)
    if m:
        return (int(m.group(2)), not m.group(1))
    m = re.match(r'^__([us])(8|16|32|64)$', t)
    if m:
        return (int(m.group(2)), m.group(1) == 's')
    if t.startswith('enum '):
        return (32, False)
    return _CTYPES.get(t)


def cconv(v, t):
    """the value v converted to the integer type t (modular; two's complement for signed types)"""
    w, s = t
    v &= (1 << w) - 1
    if s and v >= (1 << (w - 1)):
        v -= (1 << w)
    return v


def _cpromote(t):
    return C_INT if t[0] < 32 else t


def _ccommon(a, b):
    a, b = _cpromote(a), _cpromote(b)
    if a == b:
        return a
    if a[1] == b[1]:
        return a if a[0] >= b[0] else b
    u, s = (a, b) if not a[1] else (b, a)
    return u if u[0] >= s[0] else s


def _cleaf(x):
    return isinstance(x, dict) and x.get('k') in ('var', 'member', 'deref', 'index', 'call')


def ceval(x, leaf):
    """(value, type) of the integer expression x under C semantics (integer promotions, usual arithmetic conversions, modular
    conversion); leaf(node) gives (value, type) of variables / memory reads / calls or raises CUndecided"""
    if not isinstance(x, dict):
        raise CUndecided('not an expression')
    k = x.get('k')
    if k in ('load', 'paren', 'stmtexpr', 'compound') and isinstance(x.get('e'), dict):
        return ceval(x['e'], leaf)
    if k == 'cast':
        v, t = ceval(x['e'], leaf)
        to = str(x.get('to') or '')
        if to.strip() in ('_Bool', 'bool'):
            return (int(v != 0), (8, False))
        tt = ctype(to)
        if tt is None:
            raise CUndecided('cast to %s' % to)
        return (cconv(v, tt), tt)
    if k == 'int':
        v = x['v']
        t = ctype(x.get('type')) if x.get('type') else None
        if t is None:
            t = C_INT if -(1 << 31) <= v < (1 << 31) else ((32, False) if v < (1 << 32) else ((64, True) if v < (1 << 63) else (64, False)))
        return (cconv(v, t), t)
    if k == 'null':
        return (0, (64, False))
    if _cleaf(x):
        return leaf(x)
    if k == 'incdec':
        return ceval(x['e'], leaf)                         # value up to +-1: irrelevant for invariance under a common shift
    if k == 'un':
        v, t = ceval(x['e'], leaf)
        op = x['op']
        if op == '!':
            return (int(v == 0), C_INT)
        t = _cpromote(t)
        if op == '-':
            return (cconv(-v, t), t)
        if op == '~':
            return (cconv(~v, t), t)
        if op == '+':
            return (cconv(v, t), t)
        raise CUndecided('unary %s' % op)
    if k == 'cond':
        c, _ = ceval(x['c'], leaf)
        a, ta = ceval(x['a'], leaf)
        b, tb = ceval(x['b'], leaf)
        t = _ccommon(ta, tb)
        return (cconv(a if c else b, t), t)
    if k == 'bin':
        op = x['op']
        if op in LOGIC_OPS:
            l, _ = ceval(x['l'], leaf)
            if op == '&&' and not l:
                return (0, C_INT)
            if op == '||' and l:
                return (1, C_INT)
            r, _ = ceval(x['r'], leaf)
            return (int(r != 0), C_INT)
        l, tl = ceval(x['l'], leaf)
        r, tr = ceval(x['r'], leaf)
        if op == ',':
            return (r, tr)
        if op in ('<<', '>>'):
            t = _cpromote(tl)
            l = cconv(l, t)
            if not 0 <= r < t[0]:
                raise CUndecided('shift count')
            return (cconv(l << r if op == '<<' else l >> r, t), t)
        t = _ccommon(tl, tr)
        l, r = cconv(l, t), cconv(r, t)
        if op in REL_OPS:
            return (int({'<': l < r, '<=': l <= r, '>': l > r, '>=': l >= r, '==': l == r, '!=': l != r}[op]), C_INT)
        if op == '+':
            return (cconv(l + r, t), t)
        if op == '-':
            return (cconv(l - r, t), t)
        if op == '*':
            return (cconv(l * r, t), t)
        if op == '&':
            return (cconv(l & r, t), t)
        if op == '|':
            return (cconv(l | r, t), t)
        if op == '^':
            return (cconv(l ^ r, t), t)
        if op in ('/', '%'):
            if r == 0:
                raise CUndecided('division by zero')
            q = abs(l) // abs(r) * (1 if (l < 0) == (r < 0) else -1)
            return (cconv(q if op == '/' else l - q * r, t), t)
        raise CUndecided('operator %s' % op)
    raise CUndecided('expression kind %s' % k)


def _unwrap(x):
    while isinstance(x, dict) and x.get('k') in ('load', 'cast', 'paren', 'stmtexpr') and isinstance(x.get('e'), dict):
        x = x['e']
    return x


class SeqValues:
    """Which values of a context are values of the free-running sequence counters `keys` (member chains found by role):
      * counter leaves: a read of such a member, or a local every definition of which is a plain copy of a counter leaf (a snapshot
        like `last = pool->seq_tail`, possibly of another width / signedness: the local's own declared type is used);
      * derived locals: a local whose definitions are pure expressions over counter leaves (`backlog = (int32_t)(last - head)`); a
        comparison that reads it is evaluated with the definition substituted."""

    def __init__(self, g, keys):
        self.keys = {k for k in keys if k is not None}
        defs = {}
        for e in g.events():
            if e['ev'] == 'store' and e.get('op') == '=' and 'rhs' in e and varname(e['lhs']):
                defs.setdefault(varname(e['lhs']), []).append(e['rhs'])
        self.snaps = set()
        grown = True
        while grown:
            grown = False
            for v, rs in defs.items():
                if v not in self.snaps and all(self.counter_leaf(r) for r in rs):
                    self.snaps.add(v)
                    grown = True
        self.derived = {}
        grown = True
        while grown:
            grown = False
            for v, rs in defs.items():
                if v in self.snaps or v in self.derived:
                    continue
                if all(_pure_path(r) for r in rs) and any(self.mentions(r) for r in rs):
                    uniq = {}
                    for r in rs:
                        uniq.setdefault(json.dumps(r, sort_keys=True, default=str), r)
                    self.derived[v] = list(uniq.values())
                    grown = True

    def counter_leaf(self, x):
        x = _unwrap(x)
        if not isinstance(x, dict):
            return False
        if x.get('k') == 'incdec':
            return self.counter_leaf(x['e'])
        if x.get('k') == 'member':
            return chain_of(x) in self.keys
        return x.get('k') == 'var' and x['name'] in self.snaps

    def mentions(self, x):
        """the expression reads a counter value (leaf, snapshot or derived local)"""
        for n in walk(x):
            if n.get('k') == 'member' and chain_of(n) in self.keys:
                return True
            if n.get('k') == 'var' and (n['name'] in self.snaps or n['name'] in self.derived):
                return True
        return False

    def leaves(self, x, seen=()):
        """(counter leaves {canon: node}, free leaves {canon: node}, derived locals read) of the expression with derived locals expanded"""
        C, F, D = {}, {}, set()
        def visit(n, seen):
            if not isinstance(n, dict):
                return
            if _cleaf(n):
                if n['k'] == 'var' and n['name'] in self.derived:
                    if n['name'] in seen:
                        raise CUndecided('local %s is defined in terms of itself' % n['name'])
                    D.add(n['name'])
                    for r in self.derived[n['name']]:
                        visit(r, seen + (n['name'],))
                elif self.counter_leaf(n):
                    C[canon(n)] = n
                elif n['k'] == 'call' and self.mentions(n):
                    raise CUndecided('counter value passed to %s' % canon(n))
                else:
                    F[canon(n)] = n
                return
            for key, v in n.items():
                if key in ('sizeof', 'type', 'to'):
                    continue
                if isinstance(v, dict):
                    visit(v, seen)
                elif isinstance(v, list):
                    for y in v:
                        visit(y, seen)
        visit(x, tuple(seen))
        return C, F, D


def wrap_safe(x, sv, width):
    """Is the truth of the expression x a function of the *sequence order* of the counter values it reads?  The counters are
    free-running, `width` bits wide; their ideal (unbounded) values are pairwise less than 2^(width-1) apart.  Evaluated with C
    arithmetic over boundary vectors:
      * invariance under wrap: for every vector of distances between the counter leaves, the truth is the same for every base
        value (0, 1, around 2^(width-1), up to 2^width - 1: the vectors straddle the wrap of every leaf);
      * full width: with one leaf ahead of / behind the others by a large distance (2^(width/2), 2^(width/2)+1, 2^(width-8),
        2^(width-1)-1) the truth does not depend on which of these distances it is (a difference truncated to a narrower type does).
    Returns (ok, detail)."""
    C, F, D = sv.leaves(x)
    if len(C) < 2:
        return None
    import itertools
    M = 1 << width
    bases = [0, 1, 2, (M >> 1) - 2, (M >> 1) - 1, M >> 1, (M >> 1) + 1, M - 3, M - 2, M - 1]
    far = [1 << (width // 2), (1 << (width // 2)) + 1, 1 << (width - 8), (M >> 1) - 1]
    cn = sorted(C)
    fn = sorted(F)
    ct = {}
    for c in cn:
        t = ctype(C[c].get('type'))
        if t is None:
            raise CUndecided('type of %s: %s' % (c, C[c].get('type')))
        ct[c] = t
    fvals = (0, 1, 2) if len(fn) <= 2 else (0, 1)
    if len(fn) > 6:
        raise CUndecided('too many other operands')
    dn = sorted(D)
    choices = list(itertools.product(*[range(len(sv.derived[d])) for d in dn]))[:32]
    def truth(base, delta, fa, ch):
        pick = dict(zip(dn, ch))
        def leaf(n, depth=0):
            key = canon(n)
            if n['k'] == 'var' and n['name'] in sv.derived:
                v, t = ceval(sv.derived[n['name']][pick[n['name']]], leaf)
                tt = ctype(n.get('type'))
                if tt is None:
                    raise CUndecided('type of %s' % n['name'])
                return (cconv(v, tt), tt)
            if key in ct:
                return (cconv((base + delta[key]) % M, ct[key]), ct[key])
            if key in fa:
                t = ctype(n.get('type')) or C_INT
                return (cconv(fa[key], t), t)
            raise CUndecided('operand %s' % key)
        return bool(ceval(x, leaf)[0])
    for ch in choices:
        for fv in itertools.product(fvals, repeat=len(fn)):
            fa = dict(zip(fn, fv))
            for dv in itertools.product((0, 1, 2), repeat=len(cn)):
                delta = dict(zip(cn, dv))
                seen = {}
                for b in bases:
                    seen.setdefault(truth(b, delta, fa, ch), b)
                if len(seen) > 1:
                    return (False, 'NOT invariant under wrap-around: with %s it is true for base = %#x and false for base = %#x'
                            % (', '.join('%s = base + %d' % (c, delta[c]) for c in cn), seen[True], seen[False]))
            for c in cn:
                for sign in (1, -1):
                    seen = {}
                    for d in far:
                        delta = {o: 0 for o in cn}
                        delta[c] = sign * d
                        for b in bases:
                            seen.setdefault(truth(b, delta, fa, ch), (d, b))
                    if len(seen) > 1:
                        return (False, 'NOT the difference of the full counter width (%d bits): with %s %s the others by %#x it is %s, by %#x it is %s'
                                % (width, c, 'ahead of' if sign > 0 else 'behind', seen[True][0], 'true', seen[False][0], 'false'))
    return (True, 'a function of the %d-bit modular differences of %s' % (width, ', '.join(cn)))


def counter_width(g, keys):
    """width in bits of the sequence counters (declared type of the members)"""
    ws = set()
    for e in g.events():
        for n in walk(e):
            if n.get('k') == 'member' and chain_of(n) in keys and ctype(n.get('type')):
                ws.add(ctype(n.get('type'))[0])
    return max(ws) if ws else None


def seq_compare_sites(g, sv):
    """[(loc, expression)]: every branch condition, and every relational / logical expression inside an event, that reads counter values"""
    out = []
    def rel_nodes(n):
        if not isinstance(n, dict):
            if isinstance(n, list):
                for y in n:
                    yield from rel_nodes(y)
            return
        if n.get('k') == 'bin' and n.get('op') in REL_OPS + LOGIC_OPS and sv.mentions(n):
            yield n
            return
        for key, v in n.items():
            if key not in ('sizeof', 'type', 'to') and isinstance(v, (dict, list)):
                yield from rel_nodes(v)
    for bid, blk in g.blocks.items():
        for e in blk.events:
            for n in rel_nodes({k: v for k, v in e.items() if not k.startswith('_') and k not in ('chain', 'loc', 'fn')}):
                out.append((e.get('loc', ''), n))
        c = blk.term.get('cond') if blk.term else None
        if c is not None and blk.term.get('cls') not in ('SwitchStmt', 'MethodDispatch') and sv.mentions(c):
            loc = blk.term.get('loc') or next((e.get('loc') for e in reversed(blk.events) if e.get('loc')), '')
            out.append((loc, c))
    return out
