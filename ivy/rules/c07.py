"""C07 — iv_main returns iff nothing is registered or quit.

Decided statically: the loop-object accounting (balance of the counters the
exit test reads, on all paths incl. failure paths), who writes them, and the
placement of the exit test.  Not decided: progress per wake-up.
"""
from ..core import (names_of, same_value, AnalysisBroken, Inliner, canon, strip, evloc, lvalue_steps, lvalue_root,
                    last_member, norm_cond, walk, relpath)
from ..analyses import (delta_analysis, is_fail, is_success, is_call, loops, innermost_loop,
                        edge_dominates, path_to, describe)
from ..core import must_pass as core_must_pass

COUNTERS = [('iv_state', 'numobjs'), ('iv_state', 'numfds'), ('iv_state', 'event_count'),
            ('iv_wait_thr_info', 'wait_count')]

# Object kinds whose registration changes the counters iv_main's exit test
# reads.  reg/unreg are API entry points; `tokens` maps helper functions to a
# symbolic +1/-1 so that a failure path that undoes a registration by calling
# the kind's own unregister helper is balanced by construction.
KINDS = [
    dict(kind='fd', reg=['iv_fd_register'], unreg=['iv_fd_unregister']),
    dict(kind='fd-try', reg=['iv_fd_register_try'], unreg=['iv_fd_unregister']),
    dict(kind='timer', reg=['iv_timer_register'], unreg=['iv_timer_unregister'],
         discr=[('iv_timer_', 'index')],
         arms=[dict(atom=(('iv_timer_', 'index'), '==', 0), delta=0,
                    reason='timer is in the expired batch: iv_run_timers already took it out of '
                           'the heap through iv_timer_unregister, which counted it')]),
    dict(kind='task', reg=['iv_task_register'], unreg=['iv_task_unregister']),
    dict(kind='event', reg=['iv_event_register'], unreg=['iv_event_unregister']),
    dict(kind='event-raw', reg=['iv_event_raw_register'], unreg=['iv_event_raw_unregister']),
    dict(kind='signal', reg=['iv_signal_register'], unreg=['iv_signal_unregister']),
    dict(kind='wait-core', reg=['__iv_wait_interest_register'], unreg=['__iv_wait_interest_unregister']),
    dict(kind='wait', reg=['iv_wait_interest_register', 'iv_wait_interest_register_spawn'],
         unreg=['iv_wait_interest_unregister'],
         tokens={'__iv_wait_interest_register': 1, '__iv_wait_interest_unregister': -1}),
    dict(kind='inotify', reg=['iv_inotify_register'], unreg=['iv_inotify_unregister'], optional=True),
]


def _fmt(d, names):
    return '{' + ', '.join('%s%+d' % (n, v) for n, v in zip(names, d) if v) + '}' if any(d) else '{0}'


def analyse(ctx, prog, fq, tokens, discr=()):
    f = prog.fn(fq)
    tok = tokens or {}
    stopset = set(tok)
    inl = Inliner(prog, expand_methods=True, stop=lambda t: t.name in stopset)
    g = inl.inline(f)
    counters = COUNTERS + ([('token', 'registration')] if tok else [])

    def call_delta(e):
        if tok and e.get('callee') in tok:
            return tuple([0] * len(COUNTERS) + [tok[e['callee']]])
        return None
    res = delta_analysis(g, counters, discr=discr, call_delta=call_delta)
    # counter stores covered by this root
    covered = set()
    for e in g.events():
        if e['ev'] == 'store':
            k = counter_key(e)
            if k in COUNTERS:
                covered.add(e['loc'])
    rets = list(res.rets)
    # void functions falling off the end
    if f.ret == 'void':
        rets = [r for r in rets]
        for (d, envk, preds) in res.exit_states:
            rets.append((None, d, 'void', preds))
    return g, rets, covered, counters


def counter_key(e):
    steps = lvalue_steps(e['lhs'])
    if steps and len(steps) == 1:
        return steps[0]
    if not steps:
        r = lvalue_root(e['lhs'])
        if r is not None and r.get('vk') in ('global', 'staticlocal'):
            return ('global', r['name'])
    return None


def run(ctx):
    prog = ctx.prog
    ctx.rule('R-C07a', 'every store to a loop-accounting counter is a unit step (quit: constant) and lies in a '
                       'function whose paths the balance rule covers', floor=14)
    ctx.rule('R-C07b.fail', 'a registration path that returns failure leaves every counter unchanged', floor=4)
    ctx.rule('R-C07b.sets', 'set of success-path counter deltas of register == negated set of unregister-path '
                            'deltas, per object kind; state-discriminated arms as tabled', floor=9)
    ctx.rule('R-C07b.auto', 'auto-unregistration (task/timer runners) drops the count exactly once per object, '
                            'before the handler', floor=2)
    ctx.rule('R-C07c', 'iv_main: quit cleared on entry; each iteration runs tasks, then evaluates quit||!numobjs, '
                       'before polling; no other loop exit', floor=5)
    ctx.rule('R-C07d', 'failed iv_fd_register_try clears `registered` and calls the method unregister hook', floor=2)

    ctx.rule('R-C07e', 'no busy wake-ups from rounding: the millisecond conversion of the remaining time rounds up (shared with C04 R-C04g)', floor=6)
    ctx.section(lambda c: __import__('ivy.rules.c04', fromlist=['x']).rounding(c, 'R-C07e'))
    covered = set()
    ctx.section(balance, covered)
    ctx.section(auto_unregister, covered)
    ctx.section(writers, covered)
    ctx.section(check_main, prog)
    ctx.section(try_rollback)


def balance(ctx, covered):
    prog = ctx.prog
    names = [c[1] for c in COUNTERS]
    for K in KINDS:
        if K.get('optional') and not all(prog.has_fn(x) for x in K['reg'] + K['unreg']):
            continue
        discr = K.get('discr', ())
        nm = names + (['registrations'] if K.get('tokens') else [])
        succ = set()
        for fq in K['reg']:
            g, rets, cov, counters = analyse(ctx, prog, fq, K.get('tokens'), discr)
            covered |= cov
            fails = {}
            for (e, d, rc, preds) in rets:
                if is_fail(rc):
                    key = '%s:failure-return %s' % (fq, canon(e['value']) if e is not None and 'value' in e else '')
                    fails.setdefault(key, []).append((e, d))
                elif is_success(rc) or rc == '?':
                    # unknown return values are treated as success *and* must not be failure-only
                    succ.add(d)
                else:
                    succ.add(d)
            for key, lst in sorted(fails.items()):
                badl = [(e, d) for (e, d) in lst if any(d)]
                e0 = (badl or lst)[0][0]
                ctx.ob('R-C07b.fail', key, not badl, loc=e0['loc'] if e0 else prog.fn(fq).loc,
                       detail='net change on this failure path: %s' % ', '.join(sorted({_fmt(d, nm) for e, d in lst})),
                       path=path_to(g, e0) if (badl and e0) else None, fn=fq)
        unreg = set()
        arm_states = {}
        for fq in K['unreg']:
            g, rets, cov, counters = analyse(ctx, prog, fq, K.get('tokens'), discr)
            covered |= cov
            for (e, d, rc, preds) in rets:
                placed = False
                for arm in K.get('arms', []):
                    a = arm['atom']
                    if (a[0], a[1], a[2]) in preds:
                        arm_states.setdefault(str(a), []).append((e, d, arm))
                        placed = True
                if not placed:
                    unreg.add(d)
        neg = {tuple(-x for x in d) for d in unreg}
        ok = (succ == neg) and bool(succ)
        ctx.ob('R-C07b.sets', K['kind'], ok, loc=prog.fn(K['unreg'][0]).loc,
               detail='register success deltas %s ; unregister deltas %s'
                      % (sorted(_fmt(d, nm) for d in succ), sorted(_fmt(d, nm) for d in unreg)),
               fn=K['unreg'][0])
        for arm in K.get('arms', []):
            lst = arm_states.get(str(arm['atom']), [])
            if not lst:
                raise AnalysisBroken('kind %s: no unregister path takes the tabled arm %s' % (K['kind'], arm['atom']))
            want = tuple([arm['delta']] * len(nm)) if arm['delta'] == 0 else arm['delta']
            bad = [(e, d) for (e, d, _) in lst if d != want]
            ctx.ob('R-C07b.sets', '%s:arm %s.%s %s %s' % (K['kind'], arm['atom'][0][0], arm['atom'][0][1], arm['atom'][1], arm['atom'][2]),
                   not bad, loc=prog.fn(K['unreg'][0]).loc,
                   detail='deltas on this arm: %s (expected %s: %s)' % (sorted({_fmt(d, nm) for e, d, _ in lst}), _fmt(want, nm), arm['reason']),
                   fn=K['unreg'][0])
    # epoll kick receiver: slot pair event_rx_on / event_rx_off
    tables = prog.method_tables()
    for t, slots in sorted(tables.items()):
        on, off = slots.get('event_rx_on'), slots.get('event_rx_off')
        if not on and not off:
            continue
        if not (on and off):
            ctx.ob('R-C07b.sets', 'kick:%s' % t, False, loc=prog.globals[t]['loc'],
                   detail='event_rx_on/off must be defined together')
            continue
        fon, foff = prog.resolve(*on), prog.resolve(*off)
        g, rets, cov, _ = analyse(ctx, prog, fon.q, None)
        covered |= cov
        succ, failbad = set(), []
        for (e, d, rc, preds) in rets:
            if is_fail(rc):
                if any(d):
                    failbad.append((e, d))
            else:
                succ.add(d)
        ctx.ob('R-C07b.fail', '%s:failure-return' % fon.name, not failbad, loc=fon.loc,
               detail='kick receiver enable, table %s' % t, fn=fon.q)
        g2, rets2, cov2, _ = analyse(ctx, prog, foff.q, None)
        covered |= cov2
        un = {d for (e, d, rc, preds) in rets2}
        ctx.ob('R-C07b.sets', 'kick:%s' % t, succ == {tuple(-x for x in d) for d in un} and bool(succ), loc=foff.loc,
               detail='rx_on success deltas %s ; rx_off deltas %s' % (sorted(_fmt(d, names) for d in succ), sorted(_fmt(d, names) for d in un)),
               fn=foff.q)



def auto_unregister(ctx, covered):
    prog = ctx.prog
    names = [c[1] for c in COUNTERS]
    # task runner: between the unlink of a task and its handler, numobjs drops by exactly one
    f = prog.fn('iv_run_tasks')
    lps = loops(f)
    sites = [e for e in f.events() if e['ev'] == 'call' and last_member(e.get('fnexpr')) == ('iv_task_', 'handler')]
    if not sites:
        raise AnalysisBroken('iv_run_tasks: task handler call site not found')
    for cs in sites:
        h = innermost_loop(f, cs['_b'], lps)
        if h is None:
            raise AnalysisBroken('iv_run_tasks: handler call is not in a loop')
        cut = {(b, si) for b in lps[h] for si, s in enumerate(f.blocks[b].succ) if s == h}
        res = delta_analysis(f, COUNTERS, start_block=h, cut=frozenset(cut), stop=lambda e: e is cs)
        st = res.at.get(id(cs))
        ds = {d for (d, envk, p) in st[1]} if st else set()
        for e in f.events():
            if e['ev'] == 'store' and counter_key(e) in COUNTERS:
                covered.add(e['loc'])
        ctx.ob('R-C07b.auto', 'iv_run_tasks:per-task', ds == {(-1, 0, 0, 0)}, loc=cs['loc'],
               detail='net change from loop head to the handler call: %s' % sorted(_fmt(d, names) for d in ds), fn=f.q)
    # timer runner: every timer moved to the expired batch went through iv_timer_unregister (heap arm)
    f = prog.fn('iv_run_timers')
    adds = [e for e in f.events() if is_call(e, ('iv_list_add_tail', 'iv_list_add'))
            and last_member(strip(e['args'][0]).get('e') if strip(e['args'][0]).get('k') == 'addr' else None) == ('iv_timer_', 'list_expired')]
    if not adds:
        raise AnalysisBroken('iv_run_timers: expired-batch add not found')
    lps = loops(f)
    for a in adds:
        h = innermost_loop(f, a['_b'], lps)
        if h is None:
            raise AnalysisBroken('iv_run_timers: expired-batch add is not in a loop')
        obj = canon(strip(strip(a['args'][0])['e'])['base'])
        def is_unreg(e, obj=obj):
            return is_call(e, 'iv_timer_unregister') and obj in names_of(e['args'][0])
        mp = _must_since_block(f, h, lps[h], is_unreg)
        ctx.ob('R-C07b.auto', 'iv_run_timers:expire', bool(mp.get((a['_b'], a['_i']))), loc=a['loc'],
               detail='iv_timer_unregister(%s) precedes the move to the expired batch in the same iteration' % obj, fn=f.q)



def writers(ctx, covered):
    prog = ctx.prog
    for c in COUNTERS[:3] + [('iv_state', 'quit')]:
        ws = prog.writers_of(*c)
        for (f, e) in ws:
            if len(lvalue_steps(e['lhs'])) != 1:
                continue
            op = e['op']
            if c[1] == 'quit':
                ok = op == '=' and strip(e['rhs']).get('k') == 'int' and strip(e['rhs'])['v'] in (0, 1)
                det = 'constant store'
            elif op == '=' and strip(e['rhs']).get('k') == 'int' and strip(e['rhs'])['v'] == 0 and c[1] == 'event_count':
                ok = f.name == 'iv_event_init' or _only_called_from_init(prog, f)
                det = 'zeroing at thread init'
            else:
                ok = op in ('++', '--')
                det = 'unit step'
                if ok and e['loc'] not in covered:
                    ok = False
                    det = 'store is not on any path analysed by the balance rule (unbalanced writer)'
            ctx.ob('R-C07a', '%s:%s.%s %s' % (f.name, c[0], c[1], op), ok, loc=e['loc'], detail=det, fn=f.q)



def try_rollback(ctx):
    prog = ctx.prog
    f = prog.fn('iv_fd_register_try')
    g = Inliner(prog, expand_methods=False).inline(f)
    res = delta_analysis(g, COUNTERS)
    failrets = [(e, d) for (e, d, rc, p) in res.rets if is_fail(rc)]
    if not failrets:
        raise AnalysisBroken('iv_fd_register_try has no failure return')
    for key, pred, what in (
            ('registered=0', lambda e: e['ev'] == 'store' and lvalue_steps(e['lhs'])[:1] == [('iv_fd_', 'registered')] and canon(e.get('rhs')) == '0', 'fd->registered = 0'),
            ('unregister_fd', lambda e: e['ev'] == 'call' and last_member(e.get('fnexpr')) == ('iv_fd_poll_method', 'unregister_fd'), 'method->unregister_fd (if set)')):
        mp = core_must_pass(g, pred)
        for (e, d) in failrets:
            # the hook call is conditional on the slot being non-NULL: accept either the call or the NULL edge
            ok = mp.get((e['_b'], e['_i']), False)
            if not ok and key == 'unregister_fd':
                ok = _call_or_null_slot(g, e, 'unregister_fd')
            ctx.ob('R-C07d', 'iv_fd_register_try:%s' % key, ok, loc=e['loc'],
                   detail='every failing path executes %s before returning' % what, fn=f.q)


def _only_called_from_init(prog, f):
    cs = prog.callers_of(f.name)
    return bool(cs) and all(c.name in ('iv_init', 'iv_event_init') for c, _ in cs)


def _must_since_block(f, h, body, pred):
    """must-analysis restarted at loop header h (per iteration)."""
    from ..core import forward
    def tr(e, s):
        return True if pred(e) else s
    def edge(blk, si, s):
        return False if blk.succ[si] == h else s
    inst, ev_in = forward(f, False, tr, lambda a, b: a and b, edge=edge)
    return ev_in


def _call_or_null_slot(g, ret_ev, slot):
    """Every path to ret_ev either calls method-><slot> or crossed the NULL edge of a test of it."""
    from ..core import forward
    def tr(e, s):
        if e['ev'] == 'call' and last_member(e.get('fnexpr')) == ('iv_fd_poll_method', slot):
            return True
        return s
    def edge(blk, si, s):
        if blk.term and blk.term.get('cond') is not None and len(blk.succ) == 2:
            for (op, lc, rc, l, r) in norm_cond(blk.term['cond'], si == 0):
                if last_member(l) == ('iv_fd_poll_method', slot) and op == '==' and rc == '0':
                    return True
        return s
    _, ev_in = forward(g, False, tr, lambda a, b: a and b, edge=edge)
    return bool(ev_in.get((ret_ev['_b'], ret_ev['_i'])))


def check_main(ctx, prog):
    f = prog.fn('iv_main')
    lps = loops(f)
    if not lps:
        raise AnalysisBroken('iv_main has no loop')
    polls = [e for e in f.events() if is_call(e, 'iv_fd_poll_and_run')]
    if len(polls) != 1:
        raise AnalysisBroken('iv_main: expected one poll call, found %d' % len(polls))
    poll = polls[0]
    h = innermost_loop(f, poll['_b'], lps)
    if h is None:
        raise AnalysisBroken('iv_main: poll call not in a loop')
    body = lps[h]
    # (1) quit cleared on entry, before the loop
    mp = core_must_pass(f, lambda e: e['ev'] == 'store' and lvalue_steps(e['lhs'])[:1] == [('iv_state', 'quit')]
                        and canon(e.get('rhs')) == '0')
    hb = f.blocks[h]
    ctx.ob('R-C07c', 'iv_main:quit-cleared', bool(mp.get((h, 0))) or _entry_state(f, mp, h), loc=f.loc,
           detail='store quit = 0 on every path from entry to the loop head', fn=f.q)
    # (2) loop exits: only through tests of quit / numobjs
    exits = []
    for b in body:
        blk = f.blocks[b]
        for si, s in enumerate(blk.succ):
            if s is not None and s not in body:
                exits.append((b, si))
    if not exits:
        raise AnalysisBroken('iv_main: loop has no exit')
    quit_edges, num_edges = [], []
    for (b, si) in exits:
        blk = f.blocks[b]
        atoms = norm_cond(blk.term['cond'], si == 0) if blk.term and blk.term.get('cond') is not None else []
        kinds = set()
        for (op, lc, rc, l, r) in atoms:
            lm = last_member(l)
            if lm == ('iv_state', 'quit') and op == '!=' and rc == '0':
                kinds.add('quit')
            if lm == ('iv_state', 'numobjs') and op == '==' and rc == '0':
                kinds.add('numobjs')
            if lm == ('iv_state', 'numobjs') and op == '<=' and rc == '0':
                kinds.add('numobjs')
        ctx.ob('R-C07c', 'iv_main:exit-edge(%s)' % (','.join(sorted(kinds)) or canon(blk.term.get('cond') if blk.term else None)),
               bool(kinds), loc=(blk.term or {}).get('loc', f.loc),
               detail='loop is left only on quit != 0 or numobjs == 0', fn=f.q)
        if 'quit' in kinds:
            quit_edges.append((b, si))
        if 'numobjs' in kinds:
            num_edges.append((b, si))
    ctx.ob('R-C07c', 'iv_main:exit-on-quit', bool(quit_edges), loc=f.loc, detail='an exit edge tests quit', fn=f.q)
    ctx.ob('R-C07c', 'iv_main:exit-on-empty', bool(num_edges), loc=f.loc, detail='an exit edge tests numobjs == 0', fn=f.q)
    # (3) within an iteration: tasks ran before each exit test; both tests passed before the poll
    def is_tasks(e):
        return is_call(e, 'iv_run_tasks')
    ev_in = _must_since_block(f, h, body, is_tasks)
    for (b, si) in exits:
        n = len(f.blocks[b].events)
        ctx.ob('R-C07c', 'iv_main:tasks-before-exit-test', bool(ev_in.get((b, n))), loc=(f.blocks[b].term or {}).get('loc', f.loc),
               detail='iv_run_tasks runs in every iteration before the exit test is evaluated', fn=f.q)
    # timers: iv_run_timers runs before the exit test whenever the previous poll asked for it
    # (checked by C04); here: the poll is reached only after both continue-edges
    for kind, edges in (('quit', quit_edges), ('numobjs', num_edges)):
        ok = False
        for (b, si) in edges:
            other = 1 - si
            if edge_dominates_in_loop(f, h, body, b, other, poll['_b']):
                ok = True
        ctx.ob('R-C07c', 'iv_main:poll-after-%s-test' % kind, ok, loc=poll['loc'],
               detail='the poll call is reached only through the continue edge of the %s test of the same iteration' % kind, fn=f.q)
    # no store to quit/numobjs between test and poll by iv_main itself is implied by who-may-write


def _entry_state(f, mp, h):
    # loop head reached from entry: check the predecessor outside the loop
    return False


def edge_dominates_in_loop(f, h, body, b, si, target):
    """Within one iteration (start at header, back edges cut), every path to
    target takes edge (b, si)."""
    seen = set()
    st = [h]
    while st:
        x = st.pop()
        if x in seen:
            continue
        seen.add(x)
        for i, s in enumerate(f.blocks[x].succ):
            if s is None or s == h or (x == b and i == si):
                continue
            if s in body:
                st.append(s)
    return target not in seen
