"""Helpers of C15: system-call sites as anchors, calling contexts, fault-scenario simulation.

The rules of C15 speak about what the library does when a system call fails in a
particular way ("eventfd2 is missing", "this read was interrupted").  Instead of matching
the shape of the code that handles the failure (which helper, which flag variable, if/else
vs switch vs early return), the failure is *injected* into the control-flow graph of the
entry point (exported function / poll-method slot / installed handler) with every internal
helper inlined, and the graph is walked path-sensitively over a small abstract domain
(integer intervals for scalar locals, file-scope flags, errno and call results).  A rule then
states what must be true of every path that saw the failure: it reaches the alternative call,
it does not end in iv_fatal(), it returns non-zero, a second invocation does not try the
missing call again, ...  No repository code is executed.
"""
import os
import re

from ..core import AnalysisBroken, Inliner, canon, strip, walk, norm_cond, last_member, lvalue_steps, lvalue_root
from ..analyses import liveness
from .. import roles

ENOSYS, EINTR, EINVAL, EPERM, EAGAIN, EMFILE = 38, 4, 22, 1, 11, 24

# --------------------------------------------------------------------------
# primitive (system call / libc call) sites
# --------------------------------------------------------------------------

_SYSCALL_NR = None
_NR_FALLBACK = {7: 'poll', 22: 'pipe', 213: 'epoll_create', 232: 'epoll_wait', 271: 'ppoll', 275: 'splice',
                283: 'timerfd_create', 284: 'eventfd', 290: 'eventfd2', 291: 'epoll_create1', 293: 'pipe2',
                441: 'epoll_pwait2'}


def syscall_numbers():
    """{number: name} of the build host's system-call table (the facts are extracted with the host's headers,
    so `syscall(__NR_x, ...)` appears with the host's number)."""
    global _SYSCALL_NR
    if _SYSCALL_NR is None:
        tab = {}
        for p in ('/usr/include/x86_64-linux-gnu/asm/unistd_64.h', '/usr/include/asm/unistd_64.h',
                  '/usr/include/asm-generic/unistd.h'):
            if os.path.exists(p):
                for m in re.finditer(r'^#define\s+__NR_(\w+)\s+(\d+)\s*$', open(p).read(), flags=re.M):
                    tab.setdefault(int(m.group(2)), m.group(1))
                break
        _SYSCALL_NR = tab or dict(_NR_FALLBACK)
    return _SYSCALL_NR


def prim_kind(e):
    """Semantic name of the kernel/libc primitive a direct call event invokes, whatever wrapper spelling is
    used: `syscall(__NR_eventfd2, ...)` and `eventfd(0, flags != 0)` are both 'eventfd2'."""
    if e.get('ev') != 'call' and e.get('k') != 'call':
        return None
    nm = e.get('callee')
    if nm is None:
        return None
    args = e.get('args', [])
    if nm == 'syscall':
        a0 = strip(args[0]) if args else None
        if isinstance(a0, dict) and a0.get('k') == 'int':
            return syscall_numbers().get(a0['v'], 'syscall#%d' % a0['v'])
        return 'syscall'
    if nm == 'eventfd':
        a1 = strip(args[1]) if len(args) > 1 else None
        if isinstance(a1, dict) and a1.get('k') == 'int' and a1['v'] == 0:
            return 'eventfd'
        return 'eventfd2'
    return nm


def is_prim(e, kinds):
    return e.get('ev') == 'call' and 'callee' in e and prim_kind(e) in kinds


def zero_timeout_poll(e):
    """poll(..., 0): a non-blocking query, not a wait."""
    return e.get('callee') == 'poll' and len(e.get('args', [])) > 2 and canon(e['args'][2]) == '0'


# --------------------------------------------------------------------------
# the selected-method pointer (by type, not by name)
# --------------------------------------------------------------------------

def method_pointer_names(prog):
    """names of the file-scope variable(s) of type `const struct iv_fd_poll_method *`"""
    out = set()
    for key, g in prog.globals.items():
        if g.get('record') == 'iv_fd_poll_method' and g.get('ptr'):
            out.add(g['name'])
    if not out:
        raise AnalysisBroken('no global pointer to struct iv_fd_poll_method (selected method) found')
    return out


def is_method_store(prog, e):
    if e['ev'] != 'store':
        return False
    l = strip(e['lhs'])
    return isinstance(l, dict) and l.get('k') == 'var' and l.get('vk') == 'global' and l['name'] in method_pointer_names(prog)


def stored_table(e):
    """table name for `method = &table`, else None"""
    r = strip(e.get('rhs')) if 'rhs' in e else None
    if isinstance(r, dict) and r.get('k') == 'addr':
        v = strip(r['e'])
        if isinstance(v, dict) and v.get('k') == 'var':
            return v['name']
    return None


# --------------------------------------------------------------------------
# calling contexts: nearest entry points of a function
# --------------------------------------------------------------------------

def _root_set(prog):
    if getattr(prog, '_h15_roots', None) is None:
        prog._h15_roots = {r.q: r for r in roles.roots(prog)}
    return prog._h15_roots


def direct_callers(prog, f):
    out = {}
    for (c, e) in prog.callers_of(f.name):
        u = prog.unit_of(c)
        t = prog.resolve(u, e['callee']) if u else prog.funcs.get(e['callee'])
        if t is not None and t.q != f.q:
            continue
        if t is None and f.static and f.file.endswith('.c'):
            continue
        out[c.q] = c
    return [out[q] for q in sorted(out)]


def nearest_roots(prog, f, strictly_above=False):
    """Entry points (exported functions, method slots, installed handlers) closest to f on the direct-call
    graph: the search upwards stops at the first entry point on every chain."""
    rts = _root_set(prog)
    found, seen = {}, set()
    work = [f] if not strictly_above else direct_callers(prog, f)
    while work:
        x = work.pop()
        if x.q in seen:
            continue
        seen.add(x.q)
        if x.q in rts:
            found[x.q] = x
            continue
        work.extend(direct_callers(prog, x))
    return [found[q] for q in sorted(found)]


def root_role(prog, r):
    """Stable description of an entry point: 'slot:<slot>' and 'slot:<slot>@<table>' for poll-method slots,
    'api:<name>' for exported functions, 'handler:<name>' for other address-taken functions."""
    roles_ = []
    for t, slots in sorted(prog.method_tables().items()):
        for k, v in sorted(slots.items()):
            if v and v[0] != 'str' and v[1] == r.name and prog.resolve(v[0], v[1]) is r:
                roles_.append('slot:' + k)
                roles_.append('slot:%s@%s' % (k, t.replace('iv_fd_poll_method_', '')))
    if roles_:
        return sorted(set(roles_))
    if not r.static:
        return ['api:' + r.name]
    return ['handler:' + r.name]


_PUBLIC = {}


def is_external_entry(prog, r):
    """Can code outside the library's direct-call graph enter r?  True for functions whose address is taken
    (method slots, handlers, thread bodies) and for functions declared in the installed headers (src/include)."""
    if r.q in roles.address_taken(prog):
        return True
    if r.static:
        return False
    from .. import core as _core
    inc = os.path.join(_core.REPO, 'src', 'include')
    txt = _PUBLIC.get(inc)
    if txt is None:
        txt = ''
        if os.path.isdir(inc):
            for fn in sorted(os.listdir(inc)):
                if fn.endswith('.h'):
                    txt += open(os.path.join(inc, fn), errors='replace').read()
        _PUBLIC[inc] = txt
    if not txt:
        return True
    return re.search(r'\b%s\b' % re.escape(r.name), txt) is not None


def inlined(prog, r, **kw):
    """Inliner(prog, **kw).inline(r), cached on the program object (roles.inlined keys its cache by id(prog),
    which a later program loaded in the same process may reuse)"""
    cache = prog.__dict__.setdefault('_h15_inl', {})
    key = (r.q, tuple(sorted(kw.items())))
    if key not in cache:
        cache[key] = Inliner(prog, **kw).inline(r)
    return cache[key]


def in_contexts(prog, owner, check, depth=0, **kw):
    """Evaluate check(root, inlined root) -> (ok, detail) in the nearest entry points of `owner`.  A site
    obligation that does not hold within a nearest entry point which is merely a library-internal function with
    external linkage (not declared in the installed headers, address not taken: every caller is in the call
    graph) may still be discharged by *every* caller of it (the handling code was moved outwards); it holds
    iff it holds in every context.
    Returns (ok, [(root, ok, detail)])."""
    res = []
    ok_all = True
    rts = nearest_roots(prog, owner)
    if not rts:
        return False, [(owner, False, 'not reachable from any entry point')]
    for r in rts:
        g = inlined(prog, r, **kw)
        ok, detail = check(r, g)
        # only for library-internal functions with external linkage: all their callers are in the call graph
        if not ok and depth < 2 and not is_external_entry(prog, r):
            outer = nearest_roots(prog, r, strictly_above=True)
            outer = [o for o in outer if o.q != r.q]
            if outer:
                ok2 = True
                for o in outer:
                    g2 = inlined(prog, o, **kw)
                    k2, d2 = check(o, g2)
                    if not k2:
                        ok2 = False
                if ok2:
                    ok, detail = True, detail + ' (discharged in every caller)'
        res.append((r, ok, detail))
        ok_all = ok_all and ok
    return ok_all, res


# --------------------------------------------------------------------------
# abstract values: integer intervals (lo, hi, nonzero)
# --------------------------------------------------------------------------

TOP = (None, None, False)
NZ = (None, None, True)


def const(n):
    return (n, n, False)


def is_const(v):
    return v[0] is not None and v[0] == v[1]


def _norm(v):
    lo, hi, nz = v
    if lo is not None and hi is not None and lo > hi:
        return None
    if nz:
        if lo == 0 and hi == 0:
            return None
        if lo == 0:
            lo = 1
        if hi == 0:
            hi = -1
        if lo is not None and hi is not None and lo > hi:
            return None
        if (lo is not None and lo > 0) or (hi is not None and hi < 0):
            nz = False
    return (lo, hi, nz)


def meet(v, op, n):
    """v restricted by (v op n); None when empty"""
    lo, hi, nz = v
    if op == '==':
        if (lo is not None and n < lo) or (hi is not None and n > hi) or (nz and n == 0):
            return None
        return const(n)
    if op == '!=':
        if is_const(v) and lo == n:
            return None
        if n == 0:
            return _norm((lo, hi, True))
        if lo == n:
            return _norm((lo + 1, hi, nz))
        if hi == n:
            return _norm((lo, hi - 1, nz))
        return v
    if op == '<':
        n, op = n - 1, '<='
    if op == '>':
        n, op = n + 1, '>='
    if op == '<=':
        return _norm((lo, n if hi is None else min(hi, n), nz))
    if op == '>=':
        return _norm((n if lo is None else max(lo, n), hi, nz))
    return v


def truth(v):
    """True / False / None (unknown)"""
    if v is None:
        return None
    lo, hi, nz = v
    if is_const(v):
        return lo != 0
    if nz or (lo is not None and lo > 0) or (hi is not None and hi < 0):
        return True
    return None


def compare(a, op, b):
    """True / False / None for (a op b)"""
    if is_const(a) and is_const(b):
        x, y = a[0], b[0]
        return {'==': x == y, '!=': x != y, '<': x < y, '>': x > y, '<=': x <= y, '>=': x >= y}[op]
    if is_const(b):
        m = meet(a, op, b[0])
        if m is None:
            return False
        neg = {'==': '!=', '!=': '==', '<': '>=', '>=': '<', '>': '<=', '<=': '>'}[op]
        if meet(a, neg, b[0]) is None:
            return True
        return None
    if is_const(a):
        sw = {'==': '==', '!=': '!=', '<': '>', '>': '<', '<=': '>=', '>=': '<='}[op]
        return compare(b, sw, a)
    return None


BOOL = (0, 1, False)
_SAT = 4


def _b(x):
    return BOOL if x is None else const(int(x))


def is_errno(x):
    x = strip(x)
    if isinstance(x, dict) and x.get('k') == 'deref':
        c = strip(x['e'])
        return isinstance(c, dict) and c.get('k') == 'call' and c.get('callee') == '__errno_location'
    return False


def evaluate(x, env):
    x = strip(x)
    if not isinstance(x, dict):
        return TOP
    k = x.get('k')
    if k == 'int':
        return const(x['v'])
    if k == 'null':
        return const(0)
    if k in ('addr', 'str'):
        return NZ
    if k == 'var':
        if x.get('vk') == 'func':
            return NZ
        return env.get(x['name'], TOP)
    if k == 'call':
        return env.get('$call:%s' % x.get('loc'), TOP)
    if is_errno(x):
        return env.get('$errno', TOP)
    if k == 'assign':
        # `(v = f()) < 0` inside a condition: the store itself is an event of the same block
        if x.get('op') == '=':
            key = _lvalue_key(x['l'])
            if key is not None and key in env:
                return env[key]
            return evaluate(x['r'], env)
        return TOP
    if k == 'un':
        v = evaluate(x['e'], env)
        if x['op'] == '-':
            lo, hi, nz = v
            return (None if hi is None else -hi, None if lo is None else -lo, nz)
        if x['op'] == '!':
            t = truth(v)
            return _b(None if t is None else not t)
        if x['op'] == '+':
            return v
        return TOP
    if k == 'bin':
        op = x['op']
        if op in ('==', '!=', '<', '>', '<=', '>='):
            return _b(compare(evaluate(x['l'], env), op, evaluate(x['r'], env)))
        if op == '&&':
            a, b = truth(evaluate(x['l'], env)), truth(evaluate(x['r'], env))
            if a is False or b is False:
                return const(0)
            return _b(True if (a and b) else None)
        if op == '||':
            a, b = truth(evaluate(x['l'], env)), truth(evaluate(x['r'], env))
            if a or b:
                return const(1)
            return _b(False if (a is False and b is False) else None)
        if op in ('+', '-'):
            a, b = evaluate(x['l'], env), evaluate(x['r'], env)
            if is_const(a) and is_const(b):
                n = a[0] + b[0] if op == '+' else a[0] - b[0]
                return const(n) if abs(n) <= _SAT else TOP
        return TOP
    if k == 'cond':
        c = truth(evaluate(x['c'], env))
        if c is True:
            return evaluate(x['a'], env)
        if c is False:
            return evaluate(x['b'], env)
        a, b = evaluate(x['a'], env), evaluate(x['b'], env)
        return a if a == b else TOP
    return TOP


def _lvalue_key(l):
    """env key an atom's left operand refers to, or None"""
    l = strip(l)
    if not isinstance(l, dict):
        return None
    if l.get('k') == 'var' and l.get('vk') != 'func':
        return l['name']
    if l.get('k') == 'call':
        return '$call:%s' % l.get('loc')
    if is_errno(l):
        return '$errno'
    if l.get('k') == 'assign' and l.get('op') == '=':
        return _lvalue_key(l['l'])
    return None


# --------------------------------------------------------------------------
# the simulator
# --------------------------------------------------------------------------

class Outcome:
    """what a non-inlined call does in a scenario"""
    __slots__ = ('ret', 'errno', 'marks')

    def __init__(self, ret=TOP, errno=None, marks=()):
        self.ret, self.errno, self.marks = ret, errno, tuple(marks)


def fail(errno, *marks):
    return Outcome(const(-1), const(errno), marks)


class Sim:
    """Path-sensitive walk of an (inlined) function.

    oracle(event, env, marks) -> Outcome | None   result/errno of a call that is not inlined (None: unknown)
    marker(event, env, marks) -> iterable of marks to add when the path executes the event
    init: {name: value} initial environment (parameters, file-scope flags); everything else is unknown.

    After run(): exits = [(ret event | None, env, marks, return value)], fatals = [(block id, env, marks)].
    Marks only grow along a path, so "the path saw X" is `X in marks` at its end."""

    def __init__(self, g, oracle=None, marker=None, init=None, max_states=30000, edge_marker=None):
        self.g = g
        self.edge_marker = edge_marker
        self.oracle = oracle or (lambda e, env, marks: None)
        self.marker = marker
        self.init = dict(init or {})
        self.max_states = max_states
        self.exits = []
        self.fatals = []
        prep = g.__dict__.get('_h15_prep')
        if prep is None:
            names = set()
            globs = set()
            for e in g.events():
                for x in walk(e):
                    if x.get('k') == 'var' and x.get('vk') != 'func':
                        if x.get('vk') in ('global', 'staticlocal'):
                            globs.add(x['name'])
                        else:
                            names.add(x['name'])
            for b in g.blocks.values():
                if b.term and b.term.get('cond') is not None:
                    for x in walk(b.term['cond']):
                        if x.get('k') == 'var' and x.get('vk') in ('global', 'staticlocal'):
                            globs.add(x['name'])
                        elif x.get('k') == 'var' and x.get('vk') != 'func':
                            names.add(x['name'])
            locs = names - globs
            prep = g.__dict__['_h15_prep'] = (globs, locs, liveness(g, locs), {})
        self.globals, self.locals, self.live, self._atoms = prep

    # -- state helpers ----------------------------------------------------
    @staticmethod
    def _key(env):
        return tuple(sorted((k, v) for k, v in env.items() if v != TOP))

    def _prune(self, env, b, i):
        la = self.live.get((b, i))
        if la is None:
            return env
        return {k: v for k, v in env.items() if k in la or k in self.globals or k == '$errno' or k.startswith('$call:') or k.startswith('%')}

    # -- transfer ---------------------------------------------------------
    @staticmethod
    def _apply(add, env, marks):
        """marks to add; an element ('%set', key, value) instead sets the path-local pseudo variable `key`
        (keys start with '%'), which unlike a mark can be reset later on the path"""
        plain = [x for x in add if not (isinstance(x, tuple) and x and x[0] == '%set')]
        sets = [x for x in add if isinstance(x, tuple) and x and x[0] == '%set']
        if sets:
            env = dict(env)
            for (_, k, v) in sets:
                env[k] = v
        if plain:
            marks = marks | frozenset(plain)
        return env, marks

    def _event(self, e, env, marks):
        ev = e['ev']
        if self.marker is not None:
            add = self.marker(e, env, marks)
            if add:
                env, marks = self._apply(add, env, marks)
        if ev == 'store':
            l = strip(e['lhs'])
            key = None
            if isinstance(l, dict) and l.get('k') == 'var':
                key = l['name']
            elif is_errno(l):
                key = '$errno'
            if key is not None:
                op = e.get('op')
                if op == '=' and 'rhs' in e:
                    v = evaluate(e['rhs'], env)
                elif op in ('++', '--') and is_const(env.get(key, TOP)):
                    n = env[key][0] + (1 if op == '++' else -1)
                    v = const(n) if abs(n) <= _SAT else TOP
                elif op in ('+=', '-=') and 'rhs' in e and is_const(env.get(key, TOP)) and is_const(evaluate(e['rhs'], env)):
                    n = env[key][0] + evaluate(e['rhs'], env)[0] * (1 if op == '+=' else -1)
                    v = const(n) if abs(n) <= _SAT else TOP
                else:
                    v = TOP
                env = dict(env)
                if v == TOP:
                    env.pop(key, None)
                else:
                    env[key] = v
        elif ev == 'decl':
            if e['name'] in env:
                env = dict(env)
                env.pop(e['name'], None)
        elif ev == 'call':
            if e.get('callee') == '__errno_location':
                return env, marks
            env = dict(env)
            if 'fnexpr' in e:
                # code outside this graph (user callback, method slot): file-scope state and errno may change
                for k in list(env):
                    if k in self.globals or k == '$errno':
                        env.pop(k)
                out = self.oracle(e, env, marks)
            else:
                out = self.oracle(e, env, marks)
                if out is None or out.errno is None:
                    env.pop('$errno', None)
            if out is not None:
                if out.errno is not None:
                    env['$errno'] = out.errno
                if out.marks:
                    env, marks = self._apply(out.marks, env, marks)
            ret = out.ret if out is not None else TOP
            ck = '$call:%s' % e.get('loc')
            if ret == TOP:
                env.pop(ck, None)
            else:
                env[ck] = ret
            for a in e.get('args', []):
                a = strip(a)
                if isinstance(a, dict) and a.get('k') == 'addr':
                    v = strip(a['e'])
                    if isinstance(v, dict) and v.get('k') == 'var':
                        env.pop(v['name'], None)
        return env, marks

    def _edges(self, blk, env):
        """[(succ, env)] feasible successors"""
        succ = [s for s in blk.succ]
        term = blk.term
        if not succ:
            return []
        if len(succ) == 1 or not term or term.get('cond') is None:
            return [(s, env, si) for si, s in enumerate(succ) if s is not None]
        cond = term['cond']
        if term.get('cls') == 'SwitchStmt':
            v = evaluate(cond, env)
            key = _lvalue_key(cond)
            cases = term.get('cases', [])
            out = []
            taken_const = False
            for si, (s, cv) in enumerate(zip(succ, cases)):
                if s is None or cv == 'default':
                    continue
                m = meet(v, '==', cv)
                if m is None:
                    continue
                e2 = env
                if key is not None:
                    e2 = dict(env)
                    e2[key] = m
                out.append((s, e2, si))
                if is_const(v):
                    taken_const = True
            if not taken_const:
                for si, (s, cv) in enumerate(zip(succ, cases)):
                    if s is not None and cv == 'default':
                        out.append((s, env, si))
                if 'default' not in cases and len(succ) > len(cases):
                    out.append((succ[-1], env, len(succ) - 1))
            return out
        if len(succ) != 2:
            return [(s, env, si) for si, s in enumerate(succ) if s is not None]
        t = truth(evaluate(cond, env))
        out = []
        for si in (0, 1):
            if succ[si] is None:
                continue
            if t is not None and t != (si == 0):
                continue
            e2 = dict(env)
            dead = False
            atoms = self._atoms.get((blk.id, si))
            if atoms is None:
                atoms = self._atoms[(blk.id, si)] = [(op, lc, rc, _lvalue_key(l) if op != 'const' else None, r)
                                                     for (op, lc, rc, l, r) in norm_cond(cond, si == 0)]
            for (op, lc, rc, key, r) in atoms:
                if op == 'const':
                    if lc == 'False':
                        dead = True
                    continue
                rv = evaluate(r, e2) if isinstance(r, dict) else TOP
                if key is None:
                    # constant on the left is already swapped by norm_cond; negated operand `-x op n`
                    continue
                if not is_const(rv):
                    continue
                m = meet(e2.get(key, TOP), op, rv[0])
                if m is None:
                    dead = True
                    break
                if m == TOP:
                    e2.pop(key, None)
                else:
                    e2[key] = m
            if not dead:
                out.append((succ[si], e2, si))
        return out

    def run(self):
        g = self.g
        start = (g.entry, self._key(self.init), frozenset())
        seen = {start}
        work = [start]
        n = 0
        while work:
            b, envk, marks = work.pop()
            n += 1
            if n > self.max_states:
                raise AnalysisBroken('scenario simulation of %s exceeds %d states' % (g.name, self.max_states))
            env = dict(envk)
            blk = g.blocks[b]
            done = False
            for i, e in enumerate(blk.events):
                if e['ev'] == 'ret' and not e.get('chain'):
                    m2 = marks
                    if self.marker is not None:
                        add = self.marker(e, env, marks)
                        if add:
                            m2 = marks | frozenset(add)
                    self.exits.append((e, env, m2, evaluate(e['value'], env) if 'value' in e else None))
                    done = True
                    break
                env, marks = self._event(e, env, marks)
                env = self._prune(env, b, i)
            if done:
                continue
            if blk.noreturn:
                self.fatals.append((b, env, marks))
                continue
            if b == g.exit or not blk.succ:
                self.exits.append((None, env, marks, None))
                continue
            for (s, e2, si) in self._edges(blk, env):
                m2 = marks
                if self.edge_marker is not None:
                    add = self.edge_marker(blk, si, e2, marks)
                    if add:
                        m2 = marks | frozenset(add)
                e2 = {k: v for k, v in e2.items() if not k.startswith('$call:')}
                st = (s, self._key(e2), m2)
                if st not in seen:
                    seen.add(st)
                    work.append(st)
        self.states = n
        return self

    def global_env(self, env):
        return {k: v for k, v in env.items() if k in self.globals}
