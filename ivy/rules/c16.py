"""C16 — the AVL tree stays a correct balanced ordered set.

Every rule evaluates the *public* operations (iv_avl_tree_insert / _delete / _next / _prev /
_min / _max / _empty) with the shape interpreter of h16 (abstract execution of the CFG facts
over a named symbolic heap; comparator outcomes are an abstract assignment; no repository code
runs) and states demands on the resulting heap.  No rule names a static helper or a local
variable of iv_avl.c, so how insert / delete / rebalancing are cut into helpers is irrelevant.

Families of inputs
  shapes     every AVL shape of height <= 4 (335 shapes, up to 15 nodes) and a sample of the
             sparsest shapes of height 5 (where one deletion needs two rotations); on each:
             insert at every gap, insert a duplicate of every node, delete every node
  histories  the state graph reachable from the empty tree by insert / delete / duplicate
             insert over K keys (every history over K keys, explored per distinct state)

A state of a history is the tree plus whatever static storage the operations have written (h16 keeps it in the
heap), so residue that an operation leaves outside the tree is carried into the next operation.

The global invariant over arbitrarily large trees is not decided (no inductive proof).
"""
from ..core import AnalysisBroken
from ..heap import NULL
from . import h16
from .h16 import JUNK, DEMANDS
from .c11 import null_rule

INSERT, DELETE = 'iv_avl_tree_insert', 'iv_avl_tree_delete'
K_KEYS = 7
MAX_H = 4
SPARSE_H, SPARSE_STEP = 5, 9


def run(ctx):
    ctx.rule('R-C16a', 'any history: in every state reachable from the empty tree over %d keys, after an insert / delete the in-order '
                       'sequence is the old one plus / minus the node, the root slot and every child->parent link are consistent and '
                       'every recorded height is exact (whatever rotations the operation performed)' % K_KEYS, floor=6)
    ctx.rule('R-C16b', 'any shape: on every AVL shape up to height %d, inserting at every position and deleting every node yields exactly '
                       'the old sequence plus / minus the node, with every link paired (child slot <-> parent pointer, root slot, the '
                       'removed node no longer referenced, no uninitialised field) and exact recorded heights' % MAX_H, floor=6)
    ctx.rule('R-C16c', 'inserting a node whose key is present fails and writes nothing at all; inserting a new key succeeds; the '
                       'comparator is only ever reached through the tree object, with nodes of that tree', floor=6)
    ctx.rule('R-C16d', 'rebalancing covers the whole changed path: after a single insert / delete on every AVL shape (including the sparse '
                       'shapes of height %d that need two rotations) all heights are exact and all nodes balanced; a node is restructured '
                       'only after its height was recomputed' % SPARSE_H, floor=5)
    ctx.rule('R-C16e', 'the tree is height-balanced after every operation: subtree heights differ by at most one at every node '
                       '(histories and shapes)', floor=4)
    ctx.rule('R-C16g', 'NULL-CONTRADICTION in iv_avl.c', floor=3)
    ctx.rule('R-C16f', 'traversal: for every binary-tree shape of up to 6 nodes and every node, next / prev return the in-order neighbour '
                       '(NULL at the ends), next_safe the same and NULL for NULL, min / max the extremes, empty tells whether there is a root; '
                       'none of them writes', floor=6)
    ctx.section(traversal)
    ctx.section(operations)
    ctx.section(lambda c: null_rule(c, 'R-C16g', ('iv_avl.c',)))


# --------------------------------------------------------------------------
# insert / delete / duplicate insert on the two families
# --------------------------------------------------------------------------

class Tally:
    """runs and failing examples per (family, op, demand)"""

    def __init__(self):
        self.n = {}
        self.bad = {}

    def count(self, fam, op):
        self.n[(fam, op)] = self.n.get((fam, op), 0) + 1
        self.run = (fam, op, self.n[(fam, op)])

    def fail(self, fam, op, demand, example):
        """a demand fails in the current run"""
        self.bad.setdefault((fam, op, demand), []).append((self.run, example))

    def runs(self, fam, op):
        if isinstance(fam, tuple):
            return sum(self.runs(f, op) for f in fam)
        return self.n.get((fam, op), 0)

    def fails(self, fam, op, demand):
        if isinstance(fam, tuple):
            return [x for f in fam for x in self.fails(f, op, demand)]
        if isinstance(demand, tuple):
            return [x for d in demand for x in self.fails(fam, op, d)]
        return self.bad.get((fam, op, demand), [])


class _Lazy:
    """a description that is only rendered when a run fails"""

    def __init__(self, fn):
        self.fn = fn

    def __str__(self):
        return self.fn()


def render(H, x=None, first=True, seen=None):
    """the tree below x as text (a heap that an operation has damaged may contain cycles: every node is shown once)"""
    if first:
        x = H.nodes['T']['root']
        seen = set()
    if x is NULL:
        return '.'
    if not isinstance(x, str) or x not in H.nodes or x == 'T':
        return repr(x)
    if x in seen:
        return '%s(again)' % x
    seen.add(x)
    n = H.nodes[x]
    if n.get('left') is NULL and n.get('right') is NULL:
        return x
    return '%s(%s %s)' % (x, render(H, n.get('left'), False, seen), render(H, n.get('right'), False, seen))


def fresh_node(H, name):
    H.node(name, left=JUNK, right=JUNK, parent=JUNK, height=JUNK)


def foreign_node(H, name):
    """a node that is a member of some other tree: its fields are meaningful there"""
    for x in ('F1', 'F2', 'F3'):
        if x not in H.nodes:
            H.node(x, left=NULL, right=NULL, parent=NULL, height=1)
    H.node(name, left='F1', right='F2', parent='F3', height=2)


def do_insert(prog, H, order, node, rank, tally, fam, ctxt):
    """insert `node` (absent); returns the resulting heap when everything is as demanded"""
    tally.count(fam, 'insert')
    r = h16.run_op(prog, INSERT, H, ['T', node], rank)
    pos = sum(1 for x in order if rank[x] < rank[node])
    exp = order[:pos] + [node] + order[pos:]
    what = _Lazy(lambda: '%sinsert %s into %s' % (ctxt, node, render(H)))
    if r.stuck:
        for d in DEMANDS + ('ret', 'discipline', 'cmp'):
            tally.fail(fam, 'insert', d, '%s: interpretation stuck: %s' % (what, r.stuck))
        return None
    a = h16.audit(r.heap, exp)
    ok = True
    for d in DEMANDS:
        if a[d]:
            ok = False
            tally.fail(fam, 'insert', d, '%s gives %s: %s' % (what, render(r.heap), '; '.join(a[d][:2])))
    if r.ret is JUNK or r.ret is NULL or r.ret != 0:
        ok = False
        tally.fail(fam, 'insert', 'ret', '%s returns %r although the key is new' % (what, r.ret))
    if r.heap.nodes['T']['compare'] != H.nodes['T']['compare']:
        ok = False
        tally.fail(fam, 'insert', 'links', '%s overwrites tree->compare' % what)
    # ordering discipline: a node of the old tree gets a child link rewritten (restructuring, not the linking of the
    # new node) only after its own height was rewritten in this operation, if it is rewritten at all
    # "restructured" is a fact about the heap, not about store statements: the first moment at which a child link of the node
    # holds something else than it held when the operation began (and not the new node).  A store of the value the link already
    # holds (e.g. `*ref = rebalance_node(an)` when nothing was rotated) changes no state and is no restructuring.
    th, tl, at_entry = {}, {}, {}
    for i, (n_, fld, old, new, loc) in enumerate(r.machine.writes):
        if n_ == node or n_ == 'T':
            continue
        if fld == 'height':
            th.setdefault(n_, i)
        elif fld in ('left', 'right'):
            was = at_entry.setdefault((n_, fld), old)
            if new != node and new != was:
                tl.setdefault(n_, (i, loc))
    for n_ in tl:
        if n_ in th and tl[n_][0] < th[n_]:
            tally.fail(fam, 'insert', 'discipline', '%s: %s is restructured (%s) before its height is recomputed' % (what, n_, _rel(tl[n_][1])))
    if not r.machine.indirect:
        if order:
            tally.fail(fam, 'insert', 'cmp', '%s never consults the comparator' % what)
    return r.heap if ok else None


def do_duplicate(prog, H, order, twin, tally, fam, ctxt):
    """insert a node whose key equals that of `twin` (present)"""
    tally.count(fam, 'duplicate')
    G = h16.clone(H)
    foreign_node(G, 'D')
    rank = {x: 2 * i + 2 for i, x in enumerate(order)}
    rank['D'] = rank[twin]
    r = h16.run_op(prog, INSERT, G, ['T', 'D'], rank)
    what = _Lazy(lambda: '%sinsert a duplicate of %s into %s' % (ctxt, twin, render(H)))
    if r.stuck:
        for d in ('fails', 'pure'):
            tally.fail(fam, 'duplicate', d, '%s: interpretation stuck: %s' % (what, r.stuck))
        return
    if r.ret is JUNK or r.ret is NULL or r.ret == 0:
        tally.fail(fam, 'duplicate', 'fails', '%s returns %r (success); tree afterwards %s' % (what, r.ret, render(r.heap)))
    if r.machine.writes:
        w = r.machine.writes[0]
        tally.fail(fam, 'duplicate', 'pure', '%s writes %s->%s = %s at %s%s' % (what, w[0], w[1], w[3], _rel(w[4]),
                                                                           '' if r.heap.nodes != G.nodes else ' (restored later)'))
    elif r.heap.nodes != G.nodes:
        tally.fail(fam, 'duplicate', 'pure', '%s changes the heap' % what)


def do_delete(prog, H, order, node, tally, fam, ctxt):
    tally.count(fam, 'delete')
    r = h16.run_op(prog, DELETE, H, ['T', node], None)
    what = _Lazy(lambda: '%sdelete %s from %s' % (ctxt, node, render(H)))
    if r.stuck:
        for d in DEMANDS:
            tally.fail(fam, 'delete', d, '%s: interpretation stuck: %s' % (what, r.stuck))
        return None
    exp = [x for x in order if x != node]
    a = h16.audit(r.heap, exp)
    ok = True
    for d in DEMANDS:
        if a[d]:
            ok = False
            tally.fail(fam, 'delete', d, '%s gives %s: %s' % (what, render(r.heap), '; '.join(a[d][:2])))
    if r.heap.nodes['T']['compare'] != H.nodes['T']['compare']:
        ok = False
        tally.fail(fam, 'delete', 'links', '%s overwrites tree->compare' % what)
    return r.heap if ok else None


def _rel(loc):
    from ..core import relpath
    return relpath(loc) if loc else '?'


def shape_family(prog, tally):
    fams = [('shapes', sh) for h in range(0, MAX_H + 1) for sh in h16.avl_shapes(h)]
    fams += [('sparse', sh) for sh in h16.fib_shapes(SPARSE_H)[::SPARSE_STEP]]
    for fam, sh in fams:
        H, order = h16.build_tree(sh)
        k = len(order)
        G = h16.clone(H)
        fresh_node(G, 'N')
        for g in range(k + 1):
            rank = {x: 2 * i + 2 for i, x in enumerate(order)}
            rank['N'] = 2 * g + 1
            do_insert(prog, G, order, 'N', rank, tally, fam, '')
        for x in order:
            do_duplicate(prog, H, order, x, tally, fam, '')
            do_delete(prog, H, order, x, tally, fam, '')
    return len(fams)


def state_key(H):
    out = []

    def walk(x):
        if x is NULL:
            return
        n = H.nodes[x]
        walk(n['left'])
        out.append((x, n['left'], n['right'], n['parent'], n['height']))
        walk(n['right'])
    walk(H.nodes['T']['root'])
    # objects outside the tree that an operation wrote (file-scope / static state) persist into the next operation
    return tuple(out), h16.frozen_globals(H)


def history_family(prog, tally, K=K_KEYS, max_states=4000):
    """breadth-first over the distinct states reachable from the empty tree (a state is the tree plus whatever static storage the
    operations have written).  Returns (states explored, bound hit): when the bound is hit the exploration stops, what was evaluated
    so far is still reported, and the caller declares the analysis broken after that (isolated failure)."""
    keys = ['k%d' % i for i in range(K)]
    rank = {k: 2 * i + 2 for i, k in enumerate(keys)}
    H0 = h16.Heap()
    H0.node('T', root=NULL, compare=('cmp', 'T'))
    for k in keys:
        fresh_node(H0, k)
    seen = {state_key(H0): None}
    hist = {state_key(H0): ''}
    work = [(H0, [])]
    nstates = 0
    while work:
        nxt = []
        for (H, order) in work:
            nstates += 1
            here = hist[state_key(H)]
            ctxt = ('after [%s]: ' % here.strip()) if here else ''
            for k in keys:
                if k in order:
                    do_duplicate(prog, H, order, k, tally, 'histories', ctxt)
                    G = do_delete(prog, H, order, k, tally, 'histories', ctxt)
                    step = '-%s' % k
                    if G is not None:
                        # the removed node is free memory now
                        G.nodes[k] = dict(left=JUNK, right=JUNK, parent=JUNK, height=JUNK)
                        o2 = [x for x in order if x != k]
                else:
                    G = do_insert(prog, H, order, k, rank, tally, 'histories', ctxt)
                    step = '+%s' % k
                    if G is not None:
                        o2 = sorted(order + [k], key=lambda x: rank[x])
                if G is None:
                    continue
                key = state_key(G)
                if key not in seen:
                    seen[key] = None
                    hist[key] = here + ' ' + step
                    nxt.append((G, o2))
                    if len(seen) > max_states:
                        return nstates, True
        work = nxt
    return nstates, False


def operations(ctx):
    prog = ctx.prog
    ins = h16.public_fn(prog, INSERT)
    dele = h16.public_fn(prog, DELETE)
    for f, n in ((ins, 2), (dele, 2)):
        if len(f.params) != n:
            raise AnalysisBroken('%s: unexpected signature' % f.name)
    rec = prog.records.get('iv_avl_node', {})
    if {fl['name'] for fl in rec.get('fields', [])} != {'left', 'right', 'parent', 'height'}:
        raise AnalysisBroken('struct iv_avl_node has other fields than left/right/parent/height: heap model out of date')
    rect = prog.records.get('iv_avl_tree', {})
    if {fl['name'] for fl in rect.get('fields', [])} != {'compare', 'root'}:
        raise AnalysisBroken('struct iv_avl_tree has other fields than compare/root: heap model out of date')
    t = Tally()
    nshapes = shape_family(prog, t)
    nstates, truncated = history_family(prog, t)
    if t.runs('shapes', 'insert') < 3000 or t.runs('shapes', 'delete') < 3000 or nstates < 1:
        raise AnalysisBroken('shape family degenerate')
    fn_of = {'insert': ins, 'delete': dele, 'duplicate': ins}
    ALLSH = ('shapes', 'sparse')

    def ob(rid, inst, fam, op, demand, text):
        bad = t.fails(fam, op, demand)
        n = t.runs(fam, op)
        f = fn_of[op]
        ctx.ob(rid, inst, not bad, loc=f.loc, fn=f.q,
               detail=('%d of %d runs fail; first: %s' % (len({r for r, _ in bad}), n, bad[0][1])) if bad else '%d runs: %s' % (n, text))

    words = {'order': 'the in-order sequence is the old one %s the node',
             'links': 'root slot, child slots and parent pointers are paired; nothing uninitialised or stale is reachable',
             'heights': 'every recorded height is exact'}
    for op, pm in (('insert', 'plus'), ('delete', 'minus')):
        for d in ('order', 'links', 'heights'):
            txt = words[d] % pm if '%s' in words[d] else words[d]
            ob('R-C16a', 'histories:%s:%s' % (op, d), 'histories', op, d, '(%d reachable states over %d keys) %s' % (nstates, K_KEYS, txt))
            ob('R-C16b', 'shapes:%s:%s' % (op, d), ALLSH, op, d, '(%d shapes) %s' % (nshapes, txt))
        ob('R-C16e', 'histories:%s:balance' % op, 'histories', op, 'balance', 'every node has balance -1..1 afterwards')
        ob('R-C16e', 'shapes:%s:balance' % op, ALLSH, op, 'balance', 'every node has balance -1..1 afterwards')
        ob('R-C16d', 'shapes:%s:rebalanced' % op, 'shapes', op, ('heights', 'balance'),
           'heights exact and balance restored from the changed position up to the root')
        ob('R-C16d', 'sparse-height-%d:%s:rebalanced' % (SPARSE_H, op), 'sparse', op, ('heights', 'balance'),
           'heights exact and balance restored, including the cases that need a rotation at two levels')
    ob('R-C16d', 'insert:height-recomputed-before-restructuring', ALLSH + ('histories',), 'insert', 'discipline',
       'no node of the old tree has a child link rewritten before its own height was recomputed')
    for fam, fl in ((ALLSH, 'shapes'), ('histories', 'histories')):
        ob('R-C16c', '%s:duplicate:returns-failure' % fl, fam, 'duplicate', 'fails', 'a node with a present key is rejected with a non-zero result')
        ob('R-C16c', '%s:duplicate:writes-nothing' % fl, fam, 'duplicate', 'pure', 'the rejected insert performs no write to any node or to the tree')
    ob('R-C16c', 'insert:fails-only-on-equal-key', ALLSH + ('histories',), 'insert', 'ret', 'every insert of a new key returns 0')
    ob('R-C16c', 'comparator:reached-through-the-tree', ALLSH + ('histories',), 'insert', 'cmp',
       'every call that leaves the library through a pointer is a call of tree->compare on (nodes of) this tree; every insert into a '
       'non-empty tree consults it')
    if truncated:
        raise AnalysisBroken('history exploration over %d keys does not close within %d states (operations leave residue in static '
                             'storage that multiplies the states); the obligations above cover the states explored' % (K_KEYS, nstates))


# --------------------------------------------------------------------------
# traversal
# --------------------------------------------------------------------------

def _shapes(n):
    """all binary tree shapes with n nodes as nested tuples (left, right)"""
    if n == 0:
        return [None]
    out = []
    for l in range(n):
        for a in _shapes(l):
            for b in _shapes(n - 1 - l):
                out.append((a, b))
    return out


def traversal(ctx, maxn=6):
    prog = ctx.prog
    fns = {'next': 'iv_avl_tree_next', 'prev': 'iv_avl_tree_prev', 'min': 'iv_avl_tree_min', 'max': 'iv_avl_tree_max',
           'empty': 'iv_avl_tree_empty', 'next_safe': 'iv_avl_tree_next_safe'}
    bad = {k: [] for k in fns}
    cases = {k: 0 for k in fns}

    def ask(which, H, arg):
        cases[which] += 1
        r = h16.run_op(prog, fns[which], H, [arg], None)
        if r.stuck:
            return 'stuck: %s' % r.stuck
        if r.machine.writes:
            w = r.machine.writes[0]
            return 'writes %s->%s at %s' % (w[0], w[1], _rel(w[4]))
        if r.machine.indirect:
            return 'calls out of the library through a pointer (callback)'
        return r.ret

    for f in fns.values():
        h16.public_fn(prog, f)
    for n in range(0, maxn + 1):
        for shape in _shapes(n):
            # heights are irrelevant to traversal (shapes need not be balanced)
            H, order = h16.build_tree(shape)
            for which in ('min', 'max'):
                got = ask(which, H, 'T')
                want = (order[0] if which == 'min' else order[-1]) if order else NULL
                if got != want:
                    bad[which].append((render(H), got, want))
            got = ask('empty', H, 'T')
            if isinstance(got, str) or got is JUNK or (got is not NULL and got != 0) != (not order):
                bad['empty'].append((render(H), got, 'non-zero' if not order else '0'))
            got = ask('next_safe', H, NULL)
            if got is not NULL:
                bad['next_safe'].append((render(H), 'next_safe of NULL is %s' % (got,), NULL))
            for i, nd in enumerate(order):
                nx = order[i + 1] if i + 1 < len(order) else NULL
                for which, want in (('next', nx), ('next_safe', nx), ('prev', order[i - 1] if i > 0 else NULL)):
                    got = ask(which, H, nd)
                    if got != want:
                        bad[which].append((render(H), '%s of %s is %s' % (which, nd, got), want))
    for which in ('next', 'prev', 'min', 'max', 'empty', 'next_safe'):
        f = prog.fn(fns[which])
        b = bad[which]
        ctx.ob('R-C16f', fns[which], not b, loc=f.loc,
               detail=('%d cases; first failure: tree %s: %s, expected %s' % (cases[which], b[0][0], b[0][1], b[0][2])) if b else
                      '%d (shape, node) cases up to %d nodes: every result is the in-order neighbour / extreme; nothing is written' % (cases[which], maxn),
               fn=f.q)
