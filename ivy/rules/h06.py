"""Helpers of the C06 rules: role-based anchors (who runs task handlers, who enters the kernel wait,
who links tasks) and three small abstract analyses over the inlined, normalised CFG of those roots.

  TaskFlow   must-analysis with object tokens: which task object a pointer local denotes (copies of a
             pointer share the token of the definition they come from), whether that object has been
             unlinked / stamped with the current round since its definition, which locals equal the
             round counter, whether the counter was advanced, whether the object counter was decremented
             since the previous handler call.
  link_alts  path-sensitive (disjunctive) analysis of the list a task is linked into as a function of the
             tests the path took (round stamp vs round counter, running batch present).
  WaitFlow   path-sensitive analysis of the main loop: outcome of the pending-task test, what the deadline
             pointer points to, which timespec fields of a local are known to be zero, whether tasks ran since
             the previous kernel wait.

Nothing here depends on names of static functions, locals or parameters, or on the loop form.
"""
import re

from ..core import (AnalysisBroken, Inliner, canon, strip, last_member, walk, norm_cond, forward, names_of,
                    lvalue_steps, members, method_slot, is_int, subst, simplify, PURE_CALLS)
from ..analyses import callback_kind
from .. import roles

TASK = 'iv_task_'
STATE = 'iv_state'
STAMP = (TASK, 'epoch')
LINK = (TASK, 'list')
HANDLER = (TASK, 'handler')
COUNTER = (STATE, 'task_epoch')
PENDING = (STATE, 'tasks')
CURRENT = (STATE, 'tasks_current')
NUMOBJS = (STATE, 'numobjs')

LIST_DEL = ('iv_list_del', 'iv_list_del_init')
LIST_ADD = ('iv_list_add', 'iv_list_add_tail')
LIST_MOVE_OUT = ('__iv_list_steal_elements', 'iv_list_splice_init', 'iv_list_splice_tail_init')
LIST_PRIMS = LIST_DEL + LIST_ADD + LIST_MOVE_OUT + ('iv_list_splice', 'iv_list_splice_tail', '__iv_list_splice', 'INIT_IV_LIST_HEAD')

_SIMPLE = re.compile(r'^[\w$@]+$')


# --------------------------------------------------------------------------
# expression roles
# --------------------------------------------------------------------------

def var_of(x):
    x = strip(x)
    return x if isinstance(x, dict) and x.get('k') == 'var' else None


def local_name(x):
    v = var_of(x)
    return v['name'] if v is not None and v.get('vk') in ('local', 'param') else None


def object_root(m):
    """For an access X->f / (*X).f with X a pointer variable: the name of X."""
    m = strip(m)
    if not (isinstance(m, dict) and m.get('k') == 'member'):
        return None
    b = strip(m['base'])
    if m.get('arrow'):
        return local_name(b)
    if isinstance(b, dict) and b.get('k') == 'deref':
        return local_name(b['e'])
    return None


def fn_target(fe):
    """the expression that yields the function pointer of an indirect call: `(*p->h)(..)` calls p->h"""
    fe = strip(fe)
    while isinstance(fe, dict) and fe.get('k') == 'deref':
        fe = strip(fe['e'])
    return fe


def zero_init(x):
    """an initialiser list / compound literal all of whose given fields are 0 (fields not given are 0 anyway)"""
    x = strip(x)
    while isinstance(x, dict) and x.get('k') == 'compound':
        x = strip(x.get('e'))
    if not (isinstance(x, dict) and x.get('k') == 'init'):
        return False
    vals = list((x.get('fields') or {}).values()) + list(x.get('elems') or [])
    for v in vals:
        v = strip(v)
        if isinstance(v, dict) and v.get('k') == 'init':
            if not zero_init(v):
                return False
        elif not (isinstance(v, dict) and ((v.get('k') == 'int' and v['v'] == 0) or v.get('k') == 'null')):
            return False
    return True


def addr_of_member(x):
    """(record, field) when x is &P->f / &S.f, else None."""
    x = strip(x)
    if isinstance(x, dict) and x.get('k') == 'addr':
        return last_member(x['e'])
    return None


def addr_of_local(x):
    """name of L when x is &L with L a local variable, else None."""
    x = strip(x)
    if isinstance(x, dict) and x.get('k') == 'addr':
        v = var_of(x['e'])
        if v is not None and v.get('vk') == 'local':
            return v['name']
    return None


def no_state_atoms(atoms):
    """the branch facts say that no loop state exists (state pointer == NULL)"""
    for (op, lc, rc, l, r) in atoms:
        v = var_of(l)
        if op == '==' and rc == '0' and v is not None and v.get('record') == STATE and v.get('ptr'):
            return True
    return False


# --------------------------------------------------------------------------
# role-based anchors
# --------------------------------------------------------------------------

def origin_fn(prog, g, e):
    """the function in whose body the event was written"""
    q = e.get('fn')
    if q and q in prog.funcs:
        return prog.funcs[q]
    return getattr(g, 'inlined_from', None) or g


def callee_of(prog, g, e):
    if 'callee' not in e:
        return None
    o = origin_fn(prog, g, e)
    u = prog.unit_of(o)
    return prog.resolve(u, e['callee']) if u else prog.funcs.get(e['callee'])


def _reads(e, key, skip=('load',)):
    if e['ev'] in skip:
        return False
    for k_ in ('rhs', 'args', 'fnexpr', 'value', 'init'):
        if k_ in e:
            for x in walk(e[k_]):
                if x.get('k') == 'member' and (x.get('record'), x['field']) == key:
                    return True
    return False


def handler_users(prog):
    """functions that take the value of a task's handler field (to call it, cache it or pass it on)"""
    return roles.functions_with(prog, lambda e: _reads(e, HANDLER))


def propagate_addresses(g):
    """Reads of a pointer local whose only definition is `p = &L` (L a local; p never address-taken) are replaced by &L,
    so that `batch = &tasks; ... iv_list_empty(batch)` reads like `iv_list_empty(&tasks)`.  (core.copy_propagate leaves
    address values alone.)  Works in place on an inlined copy."""
    defs, bad = {}, set()
    for e in g.events():
        for x in walk(e):
            if x.get('k') == 'addr':
                v = var_of(x['e'])
                if v is not None:
                    bad.add(('&', v['name']))
        if e['ev'] == 'store':
            v = local_name(e['lhs'])
            if v is not None:
                L = addr_of_local(e.get('rhs')) if e.get('op') == '=' else None
                if L is None or defs.setdefault(v, (L, e))[0] != L:
                    bad.add(v)
    amap = {v: d[1]['rhs'] for v, d in defs.items() if v not in bad and ('&', v) not in bad and v not in {p['name'] for p in g.params}}
    if not amap:
        return 0
    n = [0]

    def rw(x):
        def r(nd):
            if nd.get('k') == 'load' and isinstance(nd.get('e'), dict) and nd['e'].get('k') == 'var' and nd['e']['name'] in amap:
                n[0] += 1
                out = dict(strip(amap[nd['e']['name']]))
                out['_was'] = nd['e']['name']
                return out
            return None
        return simplify(subst(x, r))
    for blk in g.blocks.values():
        for e in blk.events:
            for key in ('rhs', 'args', 'fnexpr', 'value', 'e'):
                if key in e and not (e['ev'] == 'load' and key == 'e' and local_name(e['e']) in amap):
                    e[key] = rw(e[key])
            if e['ev'] == 'store' and local_name(e['lhs']) is None:
                e['lhs'] = rw(e['lhs'])
        if blk.term and blk.term.get('cond') is not None:
            blk.term = dict(blk.term, cond=rw(blk.term['cond']))
    return n[0]


def _lh_field(m):
    """'next'/'prev' when m is an access to that field of a list head"""
    m = strip(m)
    if isinstance(m, dict) and m.get('k') == 'member' and m.get('record') == 'iv_list_head' and m['field'] in ('next', 'prev'):
        return m['field']
    return None


def _lh_of(m):
    """address expression of the list head whose field the member access m denotes"""
    m = strip(m)
    return strip(m['base']) if m.get('arrow') else {'k': 'addr', 'e': m['base']}


def _match_list_group(stores):
    """Open-coded list primitives (the bodies of iv_list_del / iv_list_add / iv_list_add_tail written out):
    returns (callee, [args]) when the given stores are exactly such a body, else None."""
    def parts(e):
        lhs, rhs = strip(e['lhs']), strip(e.get('rhs'))
        f = _lh_field(lhs)
        own = _lh_of(lhs)                                   # the head whose field is written
        via = None                                          # written through own = X->prev / X->next: (X, field)
        if lhs.get('arrow') and _lh_field(lhs['base']):
            via = (_lh_of(lhs['base']), _lh_field(lhs['base']))
        rf = (_lh_of(rhs), _lh_field(rhs)) if _lh_field(rhs) else None    # value read from a field of a head
        return f, own, via, rhs, rf
    P = [parts(e) for e in stores]
    if len(P) == 2:
        for a, b in ((P[0], P[1]), (P[1], P[0])):
            # N->prev->next = N->next ; N->next->prev = N->prev
            if a[0] == 'next' and a[2] and a[2][1] == 'prev' and a[4] and a[4][1] == 'next' and canon(a[2][0]) == canon(a[4][0]) \
                    and b[0] == 'prev' and b[2] and b[2][1] == 'next' and b[4] and b[4][1] == 'prev' and canon(b[2][0]) == canon(b[4][0]) \
                    and canon(a[2][0]) == canon(b[2][0]):
                return 'iv_list_del', [a[2][0]]
        return None
    if len(P) != 4:
        return None
    import itertools
    for a, b, c, d in itertools.permutations(P):
        # add_tail: N->next = H ; N->prev = H->prev ; H->prev->next = N ; H->prev = N
        if a[0] == 'next' and not a[2] and b[0] == 'prev' and not b[2] and canon(a[1]) == canon(b[1]):
            N, H = a[1], a[3]
            if b[4] and b[4][1] == 'prev' and canon(b[4][0]) == canon(H) \
                    and c[0] == 'next' and c[2] and c[2][1] == 'prev' and canon(c[2][0]) == canon(H) and canon(c[3]) == canon(N) \
                    and d[0] == 'prev' and not d[2] and canon(d[1]) == canon(H) and canon(d[3]) == canon(N):
                return 'iv_list_add_tail', [N, H]
        # add: N->next = H->next ; N->prev = H ; H->next->prev = N ; H->next = N
        if a[0] == 'prev' and not a[2] and b[0] == 'next' and not b[2] and canon(a[1]) == canon(b[1]):
            N, H = a[1], a[3]
            if b[4] and b[4][1] == 'next' and canon(b[4][0]) == canon(H) \
                    and c[0] == 'prev' and c[2] and c[2][1] == 'next' and canon(c[2][0]) == canon(H) and canon(c[3]) == canon(N) \
                    and d[0] == 'next' and not d[2] and canon(d[1]) == canon(H) and canon(d[3]) == canon(N):
                return 'iv_list_add', [N, H]
    return None


def normalise_lists(g):
    """Replace written-out bodies of iv_list_del / iv_list_add / iv_list_add_tail (stores to list head fields that are
    adjacent in one block, only reads in between) by one synthetic call event, as core does for INIT_IV_LIST_HEAD."""
    n = 0
    for blk in g.blocks.values():
        evs = blk.events
        out, i = [], 0
        while i < len(evs):
            e = evs[i]
            done = False
            if e['ev'] == 'store' and e.get('op') == '=' and _lh_field(e['lhs']):
                idx, j = [], i
                while j < len(evs) and len(idx) < 4:
                    x = evs[j]
                    if x['ev'] == 'store' and x.get('op') == '=' and _lh_field(x['lhs']):
                        idx.append(j)
                    elif x['ev'] != 'load':
                        break
                    j += 1
                for k in (4, 2):
                    if len(idx) >= k:
                        m = _match_list_group([evs[q] for q in idx[:k]])
                        if m:
                            last = idx[k - 1]
                            out += [evs[q] for q in range(i, last + 1) if q not in idx[:k]]
                            call = {'ev': 'call', 'callee': m[0], 'args': m[1], 'loc': e['loc'], 'used': False, 'synthetic': True}
                            for key in ('fn', 'chain'):
                                if key in e:
                                    call[key] = e[key]
                            out.append(call)
                            i = last + 1
                            n += 1
                            done = True
                            break
            if not done:
                out.append(e)
                i += 1
        blk.events = out
    if n:
        for b in g.blocks.values():
            for i, e in enumerate(b.events):
                e['_b'], e['_i'] = b.id, i
    return n


def inline_root(prog, f, **kw):
    """the root with its helpers inlined, plus the local normalisations (addresses cached in pointer locals,
    written-out list primitives)"""
    g = Inliner(prog, **kw).inline(f)
    propagate_addresses(g)
    normalise_lists(g)
    return g


def inlined(prog, f):
    """Inliner(prog).inline(f), cached on the program object itself (roles.inlined keys its cache on id(prog), which
    is reused once a program was garbage-collected: a long-lived process then gets the graph of another tree)."""
    cache = prog.__dict__.setdefault('_h06_inl', {})
    if f.q not in cache:
        cache[f.q] = inline_root(prog, f)
    return cache[f.q]


def minimal_roots(prog, owners):
    """roots (exported functions, installed handlers) from which one of `owners` is reachable by direct
    calls without passing through another root: the smallest complete calling contexts of a site."""
    rts = {r.q for r in roles.roots(prog)}
    seen, res, work = set(), {}, list(owners)
    while work:
        x = work.pop()
        if x.q in seen:
            continue
        seen.add(x.q)
        if x.q in rts:
            res[x.q] = x
            continue
        for (c, e) in prog.callers_of(x.name):
            u = prog.unit_of(c)
            t = prog.resolve(u, e['callee']) if u else None
            if t is not None and t.q != x.q:
                continue
            work.append(c)
    return [res[q] for q in sorted(res)]


def closure_q(prog, owners):
    out = set()
    for o in owners:
        for c in roles.callers_closure(prog, o):
            out.add(c.q)
    return out


def may_touch_tasks(prog):
    """qualified names of the functions from which user code (a callback) or an operation on the task lists
    is reachable through direct calls and poll-method slots: calling one of them may change which tasks are pending."""
    cached = getattr(prog, '_h06_touch', None)
    if cached is not None:
        return cached
    evs = {}
    mod = set()
    for f in prog.all_funcs():
        calls = [e for e in f.events() if e['ev'] == 'call']
        evs[f.q] = calls
        for e in calls:
            if 'fnexpr' in e:
                k = callback_kind(e)
                if k and k[0] != 'method':
                    mod.add(f.q)
            elif e.get('callee') in LIST_PRIMS and any(m in (PENDING, CURRENT, LINK) for m in members(e.get('args', []))):
                mod.add(f.q)
    changed = True
    while changed:
        changed = False
        for f in prog.all_funcs():
            if f.q in mod:
                continue
            for e in evs[f.q]:
                if 'callee' in e:
                    t = callee_of(prog, f, e)
                    hit = t is not None and t.q in mod
                else:
                    slot = method_slot(e)
                    hit = slot is not None and any(t.q in mod for t in prog.slot_targets(slot))
                if hit:
                    mod.add(f.q)
                    changed = True
                    break
    prog._h06_touch = mod
    return mod


# --------------------------------------------------------------------------
# TaskFlow: object tokens, round counter equalities
# --------------------------------------------------------------------------

class TaskFlow:
    """Forward must-analysis (join = intersection) over one (inlined) function.  Facts:
         ('env', v, T)     pointer local v denotes the object defined at token T
         ('alias', T, n)   T was defined as the container of the list node whose value is spelled n
         ('unl', T)        the link node of T was removed from its list since T was defined
         ('gone', n)       the list node local n points to was removed from its list (n not reassigned since)
         ('stamp', T)      T's round stamp was stored the current round number since T was defined
         ('H', v, T)       local v holds the handler pointer read from T
         ('E', v)          local v equals the round counter;  ('En', v): ... unless no loop state exists
         ('nostate', p)    the path took the edge on which the loop-state pointer p is NULL
         ('P1', v)         local v equals the round counter plus one
         ('adv',)          the round counter was advanced by one since entry
         ('counted',)      the object counter was decremented since entry / the previous task handler call
    """

    def __init__(self, prog, g):
        self.prog, self.g = prog, g
        self.params = {p['name'] for p in g.params}
        self.redefined = {local_name(e['lhs']) for e in g.events() if e['ev'] == 'store' and local_name(e['lhs'])}
        _, self.at = forward(g, frozenset(), self.transfer, self.join, edge=self.edge)

    @staticmethod
    def join(a, b):
        j = a & b
        if a != b:
            # 'equals the counter' implies 'equals the counter unless there is no loop state'
            ea = {x[1] for x in a if x[0] in ('E', 'En')}
            eb = {x[1] for x in b if x[0] in ('E', 'En')}
            # ... and holds vacuously for every local on a path on which no loop state exists
            na, nb = TaskFlow.no_state(a), TaskFlow.no_state(b)
            cand = (ea | (eb if na else set())) & (eb | (ea if nb else set()))
            j = j | frozenset(('En', v) for v in cand if ('E', v) not in j)
        return j

    def edge(self, blk, si, S):
        for (op, lc, rc, l, r) in _cond_atoms(blk, si):
            v = var_of(l)
            if op == '==' and rc == '0' and v is not None and v.get('record') == STATE and v.get('ptr'):
                S = S | {('nostate', v['name'])}
        return S

    @staticmethod
    def no_state(S):
        return any(x[0] == 'nostate' for x in S)

    # -- values ------------------------------------------------------------
    def val(self, x, S):
        """'C' equals the round counter, 'Cn' equals it whenever a loop state exists, 'P1' counter + 1, else None"""
        x = strip(x)
        if not isinstance(x, dict):
            return None
        k = x.get('k')
        if k == 'var':
            n = x['name']
            if ('E', n) in S:
                return 'C'
            if ('En', n) in S:
                return 'Cn'
            if ('P1', n) in S:
                return 'P1'
            return None
        if k == 'member' and last_member(x) == COUNTER:
            return 'C'
        if k == 'incdec' and x.get('op') == '++' and x.get('prefix') and last_member(x['e']) == COUNTER:
            return 'C'          # the increment itself is a separate, earlier store event
        if k == 'bin' and x.get('op') == '+':
            for a, b in ((x['l'], x['r']), (x['r'], x['l'])):
                if is_int(b, 1) and self.val(a, S) == 'C':
                    return 'P1'
            return None
        if k == 'cond':
            res = []
            for pol, arm in ((True, x['a']), (False, x['b'])):
                if no_state_atoms(norm_cond(x['c'], pol)):
                    continue
                res.append(self.val(arm, S))
            if len(res) == 2 and all(r == 'C' for r in res):
                return 'C'
            if all(r in ('C', 'Cn') for r in res):
                return 'Cn'
        return None

    def token_of(self, name, S):
        for x in S:
            if x[0] == 'env' and x[1] == name:
                return x[2]
        if name is not None and name in self.params and name not in self.redefined:
            return ('p', name)          # a parameter of the root that is never assigned: the caller's object
        return None

    def handler_token(self, e, S):
        """token of the task whose handler an indirect call invokes, 'unknown' when it is a task handler of an
        object the analysis lost track of, None when the call is not a task handler call"""
        if e['ev'] != 'call' or 'fnexpr' not in e:
            return None
        fe = fn_target(e['fnexpr'])
        if last_member(fe) == HANDLER:
            r = object_root(fe)
            return self.token_of(r, S) or 'unknown'
        n = local_name(fe)
        if n is not None:
            for x in S:
                if x[0] == 'H' and x[1] == n:
                    return x[2]
            if n in self.handler_locals():
                return 'unknown'
        return None

    def handler_locals(self):
        if not hasattr(self, '_hl'):
            self._hl = set()
            for e in self.g.events():
                if e['ev'] == 'store' and e.get('op') == '=' and 'rhs' in e and last_member(e['rhs']) == HANDLER:
                    n = local_name(e['lhs'])
                    if n:
                        self._hl.add(n)
        return self._hl

    # -- transfer ----------------------------------------------------------
    @staticmethod
    def _kill_var(S, v):
        return frozenset(x for x in S if not ((x[0] in ('env', 'E', 'En', 'P1', 'H', 'nostate', 'gone') and x[1] == v) or (x[0] == 'alias' and x[2] == v)))

    @staticmethod
    def _kill_tok(S, t):
        return frozenset(x for x in S if not ((x[0] in ('env', 'H') and x[2] == t) or (x[0] in ('unl', 'stamp', 'alias') and x[1] == t)))

    @staticmethod
    def _kill_paths(S):
        return frozenset(x for x in S if not (x[0] == 'alias' and not _SIMPLE.match(x[2])))

    def transfer(self, e, S):
        ev = e['ev']
        if ev == 'decl':
            return self._kill_var(S, e['name'])
        if ev == 'store':
            v = local_name(e['lhs'])
            if v is not None:
                return self._def_local(e, v, S)
            return self._store_mem(e, S)
        if ev == 'call':
            return self._call(e, S)
        return S

    def _def_local(self, e, v, S):
        rhs = e.get('rhs') if e.get('op') == '=' else None
        r = strip(rhs) if rhs is not None else None
        add = set()
        if isinstance(r, dict):
            w = local_name(r)
            if w is not None and w != v:
                for x in S:
                    if x[0] in ('env', 'H') and x[1] == w:
                        add.add((x[0], v, x[2]))
                    elif x[0] in ('E', 'En', 'P1') and x[1] == w:
                        add.add((x[0], v))
            else:
                val = self.val(rhs, S)
                if val == 'C':
                    add.add(('E', v))
                elif val == 'Cn':
                    add.add(('En', v))
                elif val == 'P1':
                    add.add(('P1', v))
                if last_member(r) == HANDLER:
                    t = self.token_of(object_root(r), S)
                    if t is not None:
                        add.add(('H', v, t))
                if addr_of_member(r) == LINK:
                    t = self.token_of(object_root(r['e']), S)
                    if t is not None:
                        add.add(('alias', t, v))     # v holds the address of T's list node
        if self.no_state(S) and not any(x[0] in ('E', 'En') for x in add):
            add.add(('En', v))          # vacuously so on a path on which no loop state exists
        S = self._kill_var(S, v)
        if not any(x[0] == 'env' for x in add):
            # any definition other than a pointer copy makes v denote a new object
            T = ('t', e['_b'], e['_i'])
            S = self._kill_tok(S, T)
            add.add(('env', v, T))
            if isinstance(r, dict) and r.get('k') == 'container_of' and (r.get('record'), r.get('member')) == LINK:
                for n in names_of(r['e']) | {canon(r['e'])}:
                    if n != v:
                        add.add(('alias', T, n))
                        if ('gone', n) in S:
                            add.add(('unl', T))      # the node was already removed through the local that holds it
        return S | frozenset(add)

    def _store_mem(self, e, S):
        lm = last_member(e['lhs'])
        steps = lvalue_steps(e['lhs'])
        op = e.get('op')
        if lm == COUNTER:
            r = e.get('rhs')
            loc_eq = frozenset(x for x in S if x[0] in ('E', 'En', 'P1'))
            if op == '++' or (op == '+=' and is_int(r, 1)):
                return (S - loc_eq) | {('adv',)}
            if op == '=' and r is not None:
                w = local_name(r)
                val = self.val(r, S)
                if val == 'P1':
                    S = (S - loc_eq) | {('adv',)}
                    return S | ({('E', w)} if w else frozenset())
                if val == 'C':
                    return S
                S = (S - loc_eq) - {('adv',)}
                return S | ({('E', w)} if w else frozenset())
            return (S - loc_eq) - {('adv',)}
        if lm == STAMP:
            t = self.token_of(object_root(e['lhs']), S)
            good = op == '=' and (self.val(e.get('rhs'), S) in ('C', 'Cn') or self.no_state(S))
            if t is not None:
                return (S | {('stamp', t)}) if good else (S - {('stamp', t)})
            if not good:
                return frozenset(x for x in S if x[0] != 'stamp')
            return S
        if lm == NUMOBJS:
            if op == '--' or (op == '-=' and is_int(e.get('rhs'), 1)):
                return S | {('counted',)}
            return S
        if any(s_[0] == 'iv_list_head' for s_ in steps) or strip(e['lhs']).get('k') in ('deref', 'index'):
            return self._kill_paths(S)
        return S

    def _call(self, e, S):
        if 'fnexpr' in e:
            if self.handler_token(e, S) is not None:
                S = S - {('counted',)}
            return self._kill_paths(S)
        c = e.get('callee')
        args = e.get('args', [])
        if c in LIST_DEL and args:
            hit = set()
            if addr_of_member(args[0]) == LINK:
                t = self.token_of(object_root(strip(args[0])['e']), S)
                if t is not None:
                    hit.add(t)
            else:
                names = names_of(args[0]) | {canon(args[0])}
                for x in S:
                    if x[0] == 'alias' and x[2] in names:
                        hit.add(x[1])
                # the node a local points to is removed before the task pointer is computed from that local
                S = S | frozenset(('gone', n) for n in names if _SIMPLE.match(n))
            S = self._kill_paths(S)
            return S | frozenset(('unl', t) for t in hit)
        if c in LIST_ADD:
            S = frozenset(x for x in S if x[0] != 'gone')
        if c in LIST_ADD and args and addr_of_member(args[0]) == LINK:
            t = self.token_of(object_root(strip(args[0])['e']), S)
            S = self._kill_paths(S)
            if t is not None:
                return S - {('unl', t)}
            return frozenset(x for x in S if x[0] != 'unl')
        # the address of a local handed to a callee: the local may change
        for a in args:
            n = addr_of_local(a)
            if n is not None and c not in PURE_CALLS:
                S = self._kill_var(S, n)
        if c not in PURE_CALLS:
            S = self._kill_paths(S)
        return S


# --------------------------------------------------------------------------
# disjunctive forward analysis
# --------------------------------------------------------------------------

def disjunctive(g, init, transfer, edge, limit=3000):
    """forward() over sets of states: transfer(e, s) -> state | [states] | None, edge(blk, si, s) -> state | None.
    Returns {(block, index): frozenset(states)}."""
    def tr(e, SS):
        out = set()
        for s in SS:
            r = transfer(e, s)
            if r is None:
                continue
            if isinstance(r, list):
                out.update(r)
            else:
                out.add(r)
        if len(out) > limit:
            raise AnalysisBroken('state explosion in the path-sensitive analysis of %s' % g.name)
        return frozenset(out)

    def ed(blk, si, SS):
        out = set()
        for s in SS:
            r = edge(blk, si, s)
            if r is not None:
                out.add(r)
        return frozenset(out) if out else None

    _, ev_in = forward(g, frozenset([init]), tr, lambda a, b: a | b, edge=ed)
    return ev_in


def _switch_atoms(blk, si):
    """facts on the edge of a switch: `switch (C)` with C a truth value behaves like a branch on C; a switch on a
    plain value yields value == case"""
    c = blk.term.get('cond')
    cases = blk.term.get('cases') or []
    if c is None or si >= len(cases):
        return []
    cv = cases[si]
    x = strip(c)
    truth = isinstance(x, dict) and ((x.get('k') == 'bin' and x.get('op') in ('==', '!=', '<', '>', '<=', '>=', '&&', '||'))
                                     or (x.get('k') == 'un' and x.get('op') == '!'))
    if truth:
        if cv == 'default':
            rest = {0, 1} - {v for v in cases if v != 'default'}
            return norm_cond(c, rest == {1}) if len(rest) == 1 else []
        return norm_cond(c, cv == 1) if cv in (0, 1) else [('const', 'False', '', c, c)]
    if cv != 'default' and isinstance(cv, int):
        return [('==', canon(c), str(cv), c, {'k': 'int', 'v': cv})]
    return []


def _cond_atoms(blk, si):
    if not blk.term or blk.term.get('cls') == 'MethodDispatch':
        return []
    if blk.term.get('cls') == 'SwitchStmt':
        return _switch_atoms(blk, si)
    if len(blk.succ) != 2:
        return []
    c = blk.term.get('cond')
    if c is None:
        return []
    return norm_cond(c, si == 0)


def _env_get(env, v):
    for (n, val) in env:
        if n == v:
            return val
    return None


def _env_set(env, v, val):
    env = frozenset(x for x in env if x[0] != v)
    return env | {(v, val)} if val is not None else env


# --------------------------------------------------------------------------
# link_alts: where does registration link a task, under which tests
# --------------------------------------------------------------------------

def _sem_atoms(atoms, env):
    """branch facts that matter for the choice of the list: ('differs', bool) round stamp vs round counter,
    ('running', bool) a batch is being run"""
    out = []
    for (op, lc, rc, l, r) in atoms:
        if op not in ('==', '!='):
            continue
        if {last_member(l), last_member(r)} == {STAMP, COUNTER}:
            out.append(('differs', op == '!='))
        elif rc == '0' and (last_member(l) == CURRENT or _env_get(env, local_name(l) or '') == 'R'):
            out.append(('running', op == '!='))
    return out


def _target_alts(x, env, atoms):
    """[(abstract list, extra facts)]: 'P' the pending list, 'R' the running batch, '?' anything else"""
    x = strip(x)
    if isinstance(x, dict) and x.get('k') == 'cond':
        out = []
        for pol, arm in ((True, x['a']), (False, x['b'])):
            extra = _sem_atoms(norm_cond(x['c'], pol), env)
            if any((k, not v) in atoms for (k, v) in extra):
                continue
            for (val, more) in _target_alts(arm, env, atoms | frozenset(extra)):
                out.append((val, frozenset(extra) | more))
        return out
    if addr_of_member(x) == PENDING:
        return [('P', frozenset())]
    if last_member(x) == CURRENT:
        return [('R', frozenset())]
    n = local_name(x)
    if n is not None and _env_get(env, n) in ('P', 'R'):
        return [(_env_get(env, n), frozenset())]
    return [('?', frozenset())]


def is_task_link(e):
    return e['ev'] == 'call' and e.get('callee') in LIST_ADD and len(e.get('args', [])) == 2 and addr_of_member(e['args'][0]) == LINK


def link_alts(g):
    """Returns (sites, exits): sites {loc: [(list, facts)]} for every call linking a task into a list (all paths, all
    copies of the site), exits: set of link counts with which the function can return."""
    def transfer(e, s):
        env, atoms, n = s
        ev = e['ev']
        if ev == 'decl':
            return (_env_set(env, e['name'], None), atoms, n)
        if ev == 'store':
            v = local_name(e['lhs'])
            if v is not None:
                if e.get('op') != '=' or 'rhs' not in e:
                    return (_env_set(env, v, None), atoms, n)
                outs = []
                for (val, extra) in _target_alts(e['rhs'], env, atoms):
                    outs.append((_env_set(env, v, val if val != '?' else None), atoms | extra, n))
                return outs
            keys = set(lvalue_steps(e['lhs'])) | {last_member(e['lhs'])}
            if STAMP in keys or COUNTER in keys:
                atoms = frozenset(a for a in atoms if a[0] != 'differs')
            if CURRENT in keys:
                atoms = frozenset(a for a in atoms if a[0] != 'running')
                env = frozenset(x for x in env if x[1] != 'R')
            return (env, atoms, n)
        if ev == 'call':
            if 'fnexpr' in e:
                return (frozenset(x for x in env if x[1] != 'R'), frozenset(), n)
            if is_task_link(e):
                return (env, atoms, min(n + 1, 2))
            for a in e.get('args', []):
                m = addr_of_local(a)
                if m is not None:
                    env = _env_set(env, m, None)
        return (env, atoms, n)

    def edge(blk, si, s):
        env, atoms, n = s
        new = _sem_atoms(_cond_atoms(blk, si), env)
        if any((k, not v) in atoms for (k, v) in new):
            return None
        return (env, atoms | frozenset(new), n)

    at = disjunctive(g, (frozenset(), frozenset(), 0), transfer, edge)
    sites = {}
    for b, blk in g.blocks.items():
        for i, e in enumerate(blk.events):
            if is_task_link(e):
                for (env, atoms, n) in at.get((b, i), ()):
                    for (val, extra) in _target_alts(e['args'][1], env, atoms):
                        sites.setdefault(e['loc'], []).append((val, atoms | extra, e))
    # every returning path of the root ends in its single exit block
    exits = {s_[2] for s_ in at.get((g.exit, 0), ())}
    return sites, exits


# --------------------------------------------------------------------------
# WaitFlow: the main loop between two kernel waits
# --------------------------------------------------------------------------

def _pending_test(atom, env):
    """'E' / 'N' when the atom says that the pending-task list is empty / not empty"""
    (op, lc, rc, l, r) = atom
    c = strip(l)
    if isinstance(c, dict) and c.get('k') == 'call' and c.get('callee') == 'iv_list_empty' and rc == '0' and op in ('==', '!=') and c.get('args'):
        a = c['args'][0]
        if addr_of_member(a) == PENDING or _env_get(env, local_name(a) or '') == 'PEND':
            return 'E' if op == '!=' else 'N'
    return None


def _truth_of_pending(x, env):
    """polarity p such that (x != 0) <=> (tasks are pending) == p, when x is such a truth value"""
    atoms = norm_cond(x, True)
    if len(atoms) == 1:
        t = _pending_test(atoms[0], env)
        if t is not None:
            return t == 'N'
    return None


class WaitFlow:
    """state = (pend, env, zeros, ran)
         pend  '?' unknown, 'E' the pending-task list was found empty, 'N' found non-empty (nothing since can have changed it)
         env   {(local, value)}: ('addr', L) address of local L, 'PEND' address of the pending list, ('c', n) constant,
               ('pb', p) truth value of "tasks are pending" (== p), 'TH' a task handler pointer
         zeros {(L, field)}: field of local timespec L was stored 0 and not written since
         ran   tasks were run since the previous kernel wait (or entry)"""

    def __init__(self, prog, g, is_taskrun, is_wait, touches):
        self.prog, self.g = prog, g
        self.is_taskrun, self.is_wait, self.touches = is_taskrun, is_wait, touches
        # integer constants are tracked only for locals that some branch / conditional expression tests
        self.tested = set()
        for blk in g.blocks.values():
            if blk.term and blk.term.get('cond') is not None:
                self.tested |= {x['name'] for x in walk(blk.term['cond']) if x.get('k') == 'var'}
        for e in g.events():
            for x in walk(e):
                if x.get('k') == 'cond':
                    self.tested |= {y['name'] for y in walk(x['c']) if y.get('k') == 'var'}
        changed = True
        while changed:                       # ... and for the locals copied into them
            changed = False
            for e in g.events():
                if e['ev'] == 'store' and local_name(e['lhs']) in self.tested and local_name(e.get('rhs')) not in (None,) + tuple(self.tested):
                    self.tested.add(local_name(e['rhs']))
                    changed = True
        self.at = disjunctive(g, ('?', frozenset(), frozenset(), False), self.transfer, self.edge)

    def value(self, x, env, pend):
        x = strip(x)
        if not isinstance(x, dict):
            return None
        n = addr_of_local(x)
        if n is not None:
            return ('addr', n)
        if self.zero_object(x):
            return ('zaddr', canon(x))
        if addr_of_member(x) == PENDING:
            return 'PEND'
        if x.get('k') == 'int':
            return ('c', x['v'])
        if x.get('k') == 'null':
            return ('c', 0)
        if last_member(x) == HANDLER:
            return 'TH'
        v = local_name(x)
        if v is not None:
            return _env_get(env, v)
        p = _truth_of_pending(x, env)
        if p is not None:
            if pend in ('E', 'N'):
                return ('c', int((pend == 'N') == p))
            return ('pb', p)
        return None

    def zero_object(self, x):
        """x is &G with G a file-scope / static timespec that is zero-initialised and never written anywhere"""
        x = strip(x)
        if not (isinstance(x, dict) and x.get('k') == 'addr'):
            return False
        v = var_of(x['e'])
        if v is None or v.get('vk') not in ('global', 'staticlocal') or v.get('record') != 'timespec' or v.get('ptr'):
            return False
        if self.prog.global_writers(v['name']):
            return False
        unit = self.prog.unit_of(getattr(self.g, 'inlined_from', None) or self.g)
        gl = self.prog.global_for(unit, v['name'])
        if not isinstance(gl, dict) or gl.get('extern_decl') or 'const' not in gl.get('type', ''):
            return False
        return 'init' not in gl or zero_init(gl['init'])

    def _refine(self, atoms, s):
        pend, env, zeros, ran = s
        for atom in atoms:
            (op, lc, rc, l, r) = atom
            if op == 'const':
                if lc == 'False':
                    return None
                continue
            t = _pending_test(atom, env)
            v = local_name(l)
            if t is None and v is not None and rc.lstrip('-').isdigit():
                val = _env_get(env, v)
                n = int(rc)
                if isinstance(val, tuple) and val[0] == 'c':
                    if not eval('%d %s %d' % (val[1], op, n)):
                        return None
                elif isinstance(val, tuple) and val[0] == 'pb' and n == 0 and op in ('==', '!='):
                    t = 'N' if (op == '!=') == val[1] else 'E'
                    env = _env_set(env, v, ('c', int(op == '!='))) if op == '==' else env
                elif val is None and op == '==' and v in self.tested:
                    env = _env_set(env, v, ('c', n))
            if t is not None:
                if pend in ('E', 'N') and pend != t:
                    return None
                pend = t
        return (pend, env, zeros, ran)

    def edge(self, blk, si, s):
        return self._refine(_cond_atoms(blk, si), s)

    def _assign(self, v, rhs, s):
        """states after `v = rhs` (conditional expressions split the state)"""
        r = strip(rhs)
        if isinstance(r, dict) and r.get('k') == 'cond':
            out = []
            for pol, arm in ((True, r['a']), (False, r['b'])):
                s2 = self._refine(norm_cond(r['c'], pol), s)
                if s2 is not None:
                    out += self._assign(v, arm, s2)
            return out
        pend, env, zeros, ran = s
        val = self.value(rhs, env, pend)
        if isinstance(val, tuple) and val[0] in ('c', 'pb') and v not in self.tested:
            val = None
        return [(pend, _env_set(env, v, val), zeros, ran)]

    def _timespec_field(self, lhs, env):
        """(L, field) when the store goes to a field of the local timespec L (directly or through a pointer known to hold &L)"""
        m = strip(lhs)
        if not (isinstance(m, dict) and m.get('k') == 'member' and m.get('record') == 'timespec'):
            return None
        b = strip(m['base'])
        if m.get('arrow'):
            val = _env_get(env, local_name(b) or '')
            if isinstance(val, tuple) and val[0] == 'addr':
                return (val[1], m['field'])
            return None
        v = var_of(b)
        if v is not None and v.get('vk') == 'local':
            return (v['name'], m['field'])
        return None

    def transfer(self, e, s):
        pend, env, zeros, ran = s
        ev = e['ev']
        if ev == 'decl':
            nm = e['name']
            zeros = frozenset(z for z in zeros if z[0] != nm)
            env = frozenset(x for x in env if x[0] != nm and x[1] != ('addr', nm))
            if e.get('record') == 'timespec' and not e.get('ptr') and 'init' in e and zero_init(e['init']):
                zeros = zeros | {(nm, 'tv_sec'), (nm, 'tv_nsec')}
            return (pend, env, zeros, ran)
        if ev == 'store':
            v = local_name(e['lhs'])
            if v is not None:
                zeros = frozenset(z for z in zeros if z[0] != v)
                if e.get('op') == '=' and 'rhs' in e:
                    lv = var_of(e['lhs'])
                    if lv.get('record') == 'timespec' and not lv.get('ptr') and zero_init(e['rhs']):
                        return (pend, env, zeros | {(v, 'tv_sec'), (v, 'tv_nsec')}, ran)
                    return self._assign(v, e['rhs'], (pend, env, zeros, ran))
                return (pend, _env_set(env, v, None), zeros, ran)
            tf = self._timespec_field(e['lhs'], env)
            if tf is not None:
                if e.get('op') == '=' and is_int(e.get('rhs'), 0):
                    zeros = zeros | {tf}
                else:
                    zeros = zeros - {tf}
            elif (last_member(e['lhs']) or ('', ''))[0] == 'timespec' or strip(e['lhs']).get('k') in ('deref', 'index'):
                zeros = frozenset()          # a store to some timespec through an unknown pointer
            if PENDING in lvalue_steps(e['lhs']):
                pend = '?'
            return (pend, env, zeros, ran)
        if ev == 'call':
            if self.is_taskrun(e) or ('fnexpr' in e and _env_get(env, local_name(e['fnexpr']) or '') == 'TH'):
                ran = True
            if self.is_wait(e):
                ran = False
            if self.touches(e):
                pend = '?'
                env = frozenset(x for x in env if not (isinstance(x[1], tuple) and x[1][0] == 'pb'))
            c = e.get('callee')
            args = e.get('args', [])
            if c == 'memset' and len(args) >= 2 and addr_of_local(args[0]) and is_int(args[1], 0):
                L = addr_of_local(args[0])
                return (pend, env, zeros | {(L, 'tv_sec'), (L, 'tv_nsec')}, ran)
            if c not in PURE_CALLS:
                t = callee_of(self.prog, self.g, e) if c else None
                for i, a in enumerate(args):
                    konst = t is not None and i < len(t.params) and 'const' in t.params[i].get('type', '')
                    n = addr_of_local(a)
                    if n is not None:
                        # &L handed to the callee: L may change (unless the parameter points to const)
                        if not konst:
                            env = _env_set(env, n, None)
                            zeros = frozenset(z for z in zeros if z[0] != n)
                        continue
                    val = _env_get(env, local_name(a) or '')
                    if isinstance(val, tuple) and val[0] == 'addr' and not konst:
                        zeros = frozenset(z for z in zeros if z[0] != val[1])
            return (pend, env, zeros, ran)
        return s


# --------------------------------------------------------------------------
# small must-analyses on an inlined root
# --------------------------------------------------------------------------

def exit_points(g):
    """program points at which the root returns: its own return statements and the fall-through into the exit block"""
    pts = []
    for b, blk in g.blocks.items():
        for i, e in enumerate(blk.events):
            if e['ev'] == 'ret' and not e.get('chain'):
                pts.append((b, i))
    pts.append((g.exit, 0))
    return pts
