"""C03 — descriptor handlers run only for kernel-reported conditions, right cookie."""
from ..core import (AnalysisBroken, canon, strip, norm_cond, forward, root_var, lvalue_steps)
from ..analyses import (path_to, describe, exits_of, callback_kind, list_empty_test)
from .. import generic
from . import h03
from .h03 import BANDS, ORDER, FD


def run(ctx):
    # floors recounted after regrouping: R-C03a = 3 bands x 6 site obligations + 1 liveness obligation per dispatching root (19 on the
    # reference tree); R-C03b = 3 writer roots + 2 value obligations + 2 per poll slot that activates descriptors (13 on the reference tree)
    ctx.rule('R-C03a', 'dispatch agreement: every call through handler_X of a descriptor (any context, helpers inlined) reads the pointer '
                       'at the call, and the branch facts that hold there (none older than the last user callback or write) exclude '
                       'ready_bands & MASK_X == 0 and handler_X == NULL for the same descriptor; it passes that descriptor\'s cookie; '
                       'since the definition of the descriptor variable the descriptor left the batch and only earlier bands were '
                       'dispatched (once per iteration, order err, in, out); after a handler the descriptor is re-validated', floor=16)
    ctx.rule('R-C03b', 'readiness bits are per iteration: only the make-ready operation (found by role: it links list_active) and '
                       'registration (writing 0) write ready_bands; at return of make-ready the bits are exactly the band argument '
                       'and the descriptor was linked once into the caller\'s batch when it was not in one, old bits | band argument '
                       'otherwise; every root that can reach make-ready is a poll slot and calls it only after a kernel wait that '
                       'did not fail', floor=9)
    ctx.rule('R-C03c', 'registration initialises all dispatch state (INIT-COMPLETE for iv_fd_, per poll method): every private field a library '
                       'function may read is written to the descriptor being registered (identified through casts, copies and helper '
                       'parameters) on every path of the registration functions that leaves it registered, or on every path of IV_FD_INIT', floor=16)
    ctx.rule('R-C03d', 'kernel tokens that are not descriptors (kick token, timer token; found as the non-descriptor values stored as epoll user data) are '
                       'compared unequal to the very entry that is then used as a descriptor', floor=3)
    ctx.section(dispatch)
    ctx.section(still_registered)
    ctx.section(ready_bits)
    ctx.section(lambda c: h03.init_complete(c, 'R-C03c'))
    ctx.section(tokens)
    ctx.rule('R-C03e', 'no kernel registration outlives unregister: at every return of iv_fd_unregister, per poll method, the kernel was told after '
                       'the last change of wanted_bands unless a branch established that nothing differs, and the descriptor owns no slot of the '
                       'descriptor array (same demand as C01 R-C01c, decided here for the descriptor kinds only; a stale registration delivers '
                       'events for a reused struct)', floor=2)
    ctx.section(kernel_registration)
    ctx.rule('R-C03f', 'a kernel result is attributed to the descriptor it was reported for: in a poll method that keeps descriptors in array '
                       'slots, the descriptor array and the kernel-facing entry array indexed in parallel describe the same descriptors after '
                       'every interest change (the method\'s own register_fd / notify_fd slot code, helpers inlined, evaluated on a bounded '
                       'model: 3 descriptors, every sequence of 3 changes from the empty state)', floor=2)
    ctx.section(slot_pairing)
    # floor: one obligation per poll slot that makes descriptors ready (4 on the reference tree; 2 as in R-C03b's count)
    ctx.rule('R-C03g', 'recorded readiness belongs to the registration the kernel reported it for: in every root that makes descriptors '
                       'ready (poll slot, helpers inlined), on no path does user code (a call through a handler field of any library object, '
                       'or a call that can reach one) run between the kernel wait of this iteration and a later make-ready operation -- a '
                       'handler may unregister a descriptor and register the same struct again, and what the wait reported for the old '
                       'registration would be recorded for the new one', floor=2)
    ctx.section(batch_fresh)
    # floor: one obligation per poll method (4 on the reference tree; 2 array-slot methods at least, as R-C03e/R-C03f count)
    ctx.rule('R-C03h', 'a failed try-registration leaves no trace in the back end: at every return of iv_fd_register_try (helpers and the '
                       'poll method\'s slots inlined, per poll method) that can deliver a non-zero result, the descriptor owns no slot of the '
                       'descriptor array (array-slot methods: index field as register_fd leaves it) and the library\'s record of what the kernel '
                       'set holds for it is empty (kernel-set methods: registered_bands == 0) -- whatever was entered before the validity '
                       'probe is removed again on failure; a slot that survives dispatches the handlers of an unregistered struct for '
                       'whatever file later gets that descriptor number', floor=2)
    ctx.section(failed_try)


def _by_site(contexts):
    """{(band field, source location): [(root, inlined root, site event)]} over all contexts and all
    copies that flag partitioning / inlining made of one source call"""
    out = {}
    for (root, g, sites) in contexts:
        for cs in sites:
            fld = h03.handler_field(cs) or h03.stale_handler(g, cs)[0]
            out.setdefault((fld, cs.get('loc')), []).append((root, g, cs))
    return out


def _inst(fld, loc, groups):
    """instance key: the band; the enclosing function is added only when one band has several source sites"""
    same = sorted(l for (f, l) in groups if f == fld)
    return fld if len(same) == 1 else '%s#%d' % (fld, same.index(loc) + 1)


def dispatch(ctx):
    """Every call through a band handler of a descriptor, in every smallest root context that
    contains it (helpers inlined), grouped by source location."""
    prog = ctx.prog
    contexts = h03.dispatch_contexts(prog)
    groups = _by_site(contexts)
    missing = [f for f in BANDS if not any(k[0] == f for k in groups)]
    if missing:
        raise AnalysisBroken('no descriptor handler call site for band(s) %s' % ', '.join(sorted(missing)))
    fact_cache, flow_cache, left_cache = {}, {}, {}
    for (fld, loc) in sorted(groups, key=lambda k: (ORDER.index(k[0]), str(k[1]))):
        inst = _inst(fld, loc, groups)
        res = {'band': True, 'set': True, 'cookie': True, 'unlinked': True, 'order': True, 'current': True}
        det = {}
        bad_path = None
        live = [x for x in groups[(fld, loc)] if h03.handler_field(x[2])]
        for (root, g, cs) in groups[(fld, loc)]:
            if not h03.handler_field(cs):
                res['current'] = False
                det.setdefault('current', 'called through %s, loaded from %s->%s before a user callback or a store to that field'
                               % (canon(cs['fnexpr']), h03.stale_handler(g, cs)[1], fld))
                bad_path = bad_path or path_to(g, cs)
                continue
            objx, obj = h03.site_object(cs)
            if id(g) not in fact_cache:
                fact_cache[id(g)] = h03.facts(g)
            A = fact_cache[id(g)](cs)
            # (1) the facts that hold at the call refute every valuation in which the band bit of this
            #     descriptor is clear / its handler pointer is NULL
            for rb in range(16):
                for hset in (0, 1):
                    if (rb & BANDS[fld]) and hset:
                        continue
                    if h03.refuted(A, h03.field_leaf(obj, {'ready_bands': rb, fld: hset})):
                        continue
                    if not (rb & BANDS[fld]):
                        res['band'] = False
                        det.setdefault('band', 'reachable with %s->ready_bands == %d' % (obj, rb))
                        bad_path = bad_path or path_to(g, cs)
                    if not hset:
                        res['set'] = False
                        det.setdefault('set', 'reachable with %s->%s == NULL' % (obj, fld))
            # (2) the argument is the cookie field of the same descriptor
            a0 = strip(cs['args'][0]) if len(cs.get('args', [])) == 1 else None
            if not (isinstance(a0, dict) and a0.get('k') == 'member' and a0.get('record') in h03.FD_RECORDS
                    and a0.get('field') == 'cookie' and canon(a0['base']) == obj):
                res['cookie'] = False
                det.setdefault('cookie', 'argument is %s' % (canon(cs['args'][0]) if cs.get('args') else 'missing'))
            # (3) since the definition of the descriptor variable: it left the batch, and only earlier
            #     bands of it were dispatched (at most once per collected event set, order err, in, out)
            rv = root_var(objx)
            rname = rv['name'] if rv is not None else None
            key = (id(g), obj, rname)
            if key not in flow_cache:
                def tr_called(e, s, obj=obj, rname=rname):
                    if rname is not None and h03.redefines(e, rname):
                        return frozenset()
                    hf = h03.handler_field(e)
                    if hf and h03.site_object(e)[1] == obj:
                        return s | {hf}
                    sh = h03.stale_handler(g, e) if e['ev'] == 'call' and 'fnexpr' in e else None
                    if sh and sh[1] == obj:
                        return s | {sh[0]}
                    return s
                _, called = forward(g, frozenset(), tr_called, lambda a, b: a | b)
                flow_cache[key] = called
            called = flow_cache[key]
            if id(g) not in left_cache:
                left_cache[id(g)] = h03.left_batch(g)
            left = left_cache[id(g)].get((cs['_b'], cs['_i']), ())
            node = h03.owner_node(objx)      # the descriptor is never held in a variable: owner of the node a pop helper returned
            if node is not None:
                gone = ('@node:' + node) in left
            else:
                gone = rname is not None and obj == rname and rname in left
            if not gone:
                res['unlinked'] = False
                bad_path = bad_path or path_to(g, cs)
            before = set(called.get((cs['_b'], cs['_i']), ()))
            if not before <= set(ORDER[:ORDER.index(fld)]):
                res['order'] = False
                det.setdefault('order', 'already dispatched for this descriptor on some path: %s' % sorted(before))
        root, g, cs = (live or groups[(fld, loc)])[0]
        ctx.ob('R-C03a', 'dispatch:%s:current-pointer' % inst, res['current'], loc=loc,
               detail=det.get('current') or 'the call reads the handler field at the call (or a copy nothing could have invalidated)',
               path=None if res['current'] else bad_path, fn=root.q)
        if not live:
            continue
        obj = h03.site_object(cs)[1]
        ctx.ob('R-C03a', 'dispatch:%s:band-reported' % inst, res['band'], loc=loc,
               detail=det.get('band') or 'every path to the call took, after the last write/callback, a branch that implies '
                                         '(%s->ready_bands & %d) != 0' % (obj, BANDS[fld]),
               path=None if res['band'] else bad_path, fn=root.q)
        ctx.ob('R-C03a', 'dispatch:%s:handler-set' % inst, res['set'], loc=loc,
               detail=det.get('set') or 'every path to the call took, after the last write/callback, a branch that implies '
                                        '%s->%s != NULL (same object, same band)' % (obj, fld), fn=root.q)
        ctx.ob('R-C03a', 'dispatch:%s:cookie' % inst, res['cookie'], loc=loc,
               detail=det.get('cookie') or 'argument is the cookie field of %s' % obj, fn=root.q)
        ctx.ob('R-C03a', 'dispatch:%s:left-batch-first' % inst, res['unlinked'], loc=loc,
               detail='between the definition of %s and its handler call the descriptor is unlinked from the active batch '
                      '(one dispatch per collected event set)' % obj, path=None if res['unlinked'] else bad_path, fn=root.q)
        ctx.ob('R-C03a', 'dispatch:%s:once-in-order' % inst, res['order'], loc=loc,
               detail=det.get('order') or 'since the definition of %s only earlier bands (%s) were dispatched for it: at most once per '
                                          'iteration, order error, input, output' % (obj, ', '.join(ORDER[:ORDER.index(fld)]) or 'none'),
               fn=root.q)


def still_registered(ctx):
    """A handler may unregister its own descriptor: every later band of the same
    iteration re-tests the liveness marker (shares the stale-pointer analysis of C01)."""
    prog = ctx.prog
    n = 0
    for (root, g, sites) in h03.dispatch_contexts(prog):
        # the descriptor variables the sites dispatch through (by use: not by name, and not by the type annotation either -- the
        # descriptor may be the untyped return temporary of a pop helper handed straight to the per-descriptor helper)
        via = {rv['name'] for rv in (root_var(h03.site_object(cs)[0]) for cs in sites if h03.handler_field(cs)) if rv is not None}
        reps, objvars, markers = h03.stale_after_callback(g, lambda e: (callback_kind(e) or ('', ''))[0] == 'callback' and callback_kind(e)[1],
                                                          also=via)
        fdvars = sorted(v for v in via if v in objvars)
        for k, v in enumerate(fdvars):
            n += 1
            bad = [(e, acc) for (e, vv, acc, cb) in reps if vv == v]
            e0 = bad[0][0] if bad else None
            ctx.ob('R-C03a', 'dispatch:%s:descriptor-registered-at-each-band%s' % (root.name, '' if len(fdvars) == 1 else '#%d' % (k + 1)),
                   not bad, loc=e0['loc'] if e0 else root.loc,
                   detail=('after an earlier band\'s handler the descriptor is used without re-testing its liveness marker: %s'
                           % ', '.join(sorted({a for _, a in bad}))) if bad else
                          'each later band of the same iteration is behind a test of the liveness marker (%s)' % sorted(markers),
                   path=path_to(g, e0) if e0 else None, fn=root.q)
    if not n:
        raise AnalysisBroken('dispatcher: descriptor variable not found')


# abstract value of OBJ->ready_bands (and of integer locals): (keeps the old bits, band parameters or-ed in, constant bits)
UNKNOWN = 'unknown'


def _vor(a, b):
    if a == UNKNOWN or b == UNKNOWN:
        return UNKNOWN
    return (a[0] or b[0], a[1] | b[1], a[2] | b[2])


def ready_bits(ctx):
    prog = ctx.prog
    rts = h03.root_map(prog)
    linkers = h03.functions_with(prog, h03.is_link, {(FD, 'list_active')})
    if not linkers:
        raise AnalysisBroken('no function links a descriptor into an active batch')
    # the make-ready operations: smallest root contexts that put a descriptor into a batch
    mk = {}
    for o in linkers:
        mk.update(h03.nearest_roots(prog, o, rts))
    if not mk:
        raise AnalysisBroken('batch linking code is not reachable from any entry point')
    # ---- who writes the readiness bits ------------------------------------------------------
    wroots = {}
    for f in h03.functions_with(prog, lambda e: h03.writes_field(e, FD, 'ready_bands'), {(FD, 'ready_bands')}):
        wroots.update(h03.nearest_roots(prog, f, rts))
    for q in sorted(wroots):
        r = wroots[q]
        if q in mk:
            ctx.ob('R-C03b', 'ready_bands:writer:%s' % r.name, True, loc=r.loc,
                   detail='make-ready operation (links into a batch); its effect on the bits is the value obligation', fn=q)
            continue
        g = h03.inlined(prog, r)
        stores = [e for e in g.events() if h03.writes_field(e, FD, 'ready_bands')]
        registers = any(h03.writes_field(e, FD, 'registered') and e.get('op') == '=' and 'rhs' in e and h03.const_value(e['rhs']) not in (None, 0)
                        for e in g.events())
        zero = all(e.get('op') == '=' and 'rhs' in e and h03.const_value(e['rhs']) == 0 for e in stores)
        # (a store on an arm that constant folding removed for this entry point leaves no store here: nothing is written)
        e0 = ([e for e in stores if not (e.get('op') == '=' and 'rhs' in e and h03.const_value(e['rhs']) == 0)] or stores or [{'loc': r.loc}])[0]
        ctx.ob('R-C03b', 'ready_bands:writer:%s' % r.name, registers and zero, loc=e0['loc'],
               detail='besides the make-ready operation only registration (an entry point that sets registered) writes ready_bands, '
                      'and it writes 0: %s' % (', '.join(sorted({describe(e) for e in stores})) or 'no store reachable from this entry point'), fn=q)
    # ---- effect of a make-ready operation on the bits, as a function of old value and arguments ----
    for q in sorted(mk):
        _make_ready_value(ctx, prog, mk[q])
    # ---- who may make a descriptor ready: only poll slots, only after the kernel wait ----------
    slots = {f.q for f in prog.slot_targets('poll')}
    if not slots:
        raise AnalysisBroken('no poll slot found in the method tables')
    mkq = set(mk)
    croots = {}
    for q in sorted(mk):
        for (c, e) in prog.callers_of(mk[q].name):
            u = prog.unit_of(c)
            t = prog.resolve(u, e['callee']) if u else None
            if t is not None and t.q != q:
                continue
            croots.update(h03.nearest_roots(prog, c, rts))
    if not croots:
        raise AnalysisBroken('the make-ready operation is never called')
    for cq in sorted(croots):
        r = croots[cq]
        g = h03.inline(prog, r, stop=lambda t: t.q in mkq) if cq not in mkq else r
        calls = [e for e in g.events() if e['ev'] == 'call' and 'callee' in e and any(mk[q].name == e['callee'] for q in mk)]
        ctx.ob('R-C03b', 'make_ready:caller:%s:is-poll-slot' % r.name, cq in slots, loc=r.loc,
               detail='descriptors are made ready only by code entered through the poll slot of a method table', fn=cq)
        proven = h03.wait_succeeded(g)
        bad = [e for e in calls if not proven.get((e['_b'], e['_i']), (None, False))[1]]
        ctx.ob('R-C03b', 'make_ready:caller:%s:after-kernel-wait' % r.name, bool(calls) and not bad, loc=(bad or calls or [{'loc': r.loc}])[0]['loc'],
               detail='every path to a make-ready call passes the kernel wait of this iteration (%s) and then a branch that excludes '
                      'its failure (a failed wait leaves the previous iteration\'s results in the event array)' % '/'.join(h03.WAITS),
               path=path_to(g, bad[0]) if bad else None, fn=cq)


def _make_ready_value(ctx, prog, root):
    f = h03.inlined(prog, root)
    fdp = [p['name'] for p in root.params if p.get('record') in h03.FD_RECORDS and p.get('ptr')]
    batchp = {p['name'] for p in root.params if p.get('record') == 'iv_list_head' and p.get('ptr')}
    bandp = {p['name'] for p in root.params if not p.get('ptr') and 'record' not in p}
    if len(fdp) != 1:
        raise AnalysisBroken('%s: make-ready operation without a single descriptor parameter' % root.name)
    obj = fdp[0]
    stores = [e for e in f.events() if h03.writes_field(e, FD, 'ready_bands')]
    links = [e for e in f.events() if h03.is_link(e)]
    if not stores:
        raise AnalysisBroken('%s: store to ready_bands not found' % root.name)

    store_ids = {id(e) for e in stores}

    def is_bits(x):
        x = strip(x)
        return isinstance(x, dict) and x.get('k') == 'member' and (x.get('record'), x.get('field')) == (FD, 'ready_bands') \
            and canon(x['base']) == obj

    def val(x, cur, loc):
        x = strip(x)
        if not isinstance(x, dict):
            return UNKNOWN
        k = x.get('k')
        if h03.const_value(x) is not None:
            return (False, frozenset(), h03.const_value(x))
        if is_bits(x):
            return cur
        if k == 'var':
            if x.get('vk') == 'param' and x['name'] in bandp:
                return (False, frozenset({x['name']}), 0)
            v = dict(loc).get(x['name'], UNKNOWN)
            return UNKNOWN if v[0] == 'batch-test' else v
        if k == 'bin' and x['op'] == '|':
            return _vor(val(x['l'], cur, loc), val(x['r'], cur, loc))
        return UNKNOWN

    def batch_test(at):
        """'empty'/'nonempty' when the atom tests whether OBJ is in a batch"""
        t = list_empty_test(at, member_key=(FD, 'list_active'))
        return t if t and h03.list_member_arg(strip(at[3]))[1] == obj else None

    def membership(atoms, S):
        """restrict the states to those compatible with what the branch says about OBJ being in a batch
        (tested directly, or through a local that holds the result of such a test)"""
        out = set()
        for st in S:
            for at in atoms:
                t = batch_test(at)
                if t and st[2]:
                    # tested after this operation linked the descriptor: it is in a batch now, whatever it was at entry
                    if t == 'empty':
                        st = None
                        break
                    continue
                v = strip(at[3])
                if t is None and at[2] == '0' and at[0] in ('!=', '==') and isinstance(v, dict) and v.get('k') == 'var':
                    m = dict(st[3]).get(v['name'])
                    if isinstance(m, tuple) and m[0] == 'batch-test':
                        t = m[1] if at[0] == '!=' else {'empty': 'nonempty', 'nonempty': 'empty'}[m[1]]
                if t:
                    want = 'out' if t == 'empty' else 'in'
                    st = ((want,) + st[1:]) if st[0] in ('?', want) else None
                    if st is None:
                        break
            if st is not None:
                out.add(st)
        return frozenset(out)

    def assign(e, st):
        """states after a store of e['rhs'] (a top-level conditional expression splits the state)"""
        rhs = strip(e.get('rhs')) if 'rhs' in e else None
        alts = [(st, rhs)]
        if isinstance(rhs, dict) and rhs.get('k') == 'cond':
            alts = []
            for pol, br in ((True, rhs['a']), (False, rhs['b'])):
                for s2 in membership(norm_cond(rhs['c'], pol), frozenset({st})):
                    alts.append((s2, br))
        return alts

    def tr(e, S):
        out = set()
        for st in S:
            (mem, cur, linked, loc) = st
            if e['ev'] == 'store' and id(e) in store_ids:
                if not is_bits(e['lhs']):
                    out.add((mem, UNKNOWN, linked, loc))
                    continue
                for (s2, rhs) in assign(e, st):
                    (mem2, cur2, linked2, loc2) = s2
                    if e['op'] == '=':
                        nv = val(rhs, cur2, loc2)
                    elif e['op'] == '|=':
                        nv = _vor(cur2, val(rhs, cur2, loc2))
                    elif e['op'] == '&=' and h03.const_value(rhs) == 0:
                        nv = (False, frozenset(), 0)
                    else:
                        nv = UNKNOWN
                    out.add((mem2, nv, linked2, loc2))
                continue
            if e['ev'] == 'store':
                l = strip(e['lhs'])
                if isinstance(l, dict) and l.get('k') == 'var' and l.get('vk') == 'local' and 'rhs' in e:
                    for (s2, rhs) in assign(e, st):
                        (mem2, cur2, linked2, loc2) = s2
                        d = dict(loc2)
                        bt = [t for t in (batch_test(at) for at in norm_cond(rhs, True)) if t] if isinstance(rhs, dict) else []
                        if e['op'] == '=' and len(bt) == 1 and len(norm_cond(rhs, True)) == 1 and linked2 == 0:
                            nv = ('batch-test', bt[0])
                        elif e['op'] == '=':
                            nv = val(rhs, cur2, loc2)
                        elif e['op'] == '|=':
                            nv = _vor(d.get(l['name'], UNKNOWN), val(rhs, cur2, loc2))
                        else:
                            nv = UNKNOWN
                        d.pop(l['name'], None)
                        if nv != UNKNOWN:
                            d[l['name']] = nv
                        out.add((mem2, cur2, linked2, frozenset(d.items())))
                    continue
            elif e['ev'] == 'decl':
                d = dict(loc)
                if d.pop(e.get('name'), None) is not None:
                    loc = frozenset(d.items())
            elif h03.is_link(e):
                linked = (linked + 1) if h03.list_member_arg(e)[1] == obj else 99
            elif h03.is_unlink(e):
                linked = 99
            out.add((mem, cur, linked, loc))
        return frozenset(out)

    def edge(blk, si, S):
        if blk.term and blk.term.get('cond') is not None and len(blk.succ) == 2 \
                and blk.term.get('cls') not in ('SwitchStmt', 'MethodDispatch'):
            S = membership(norm_cond(blk.term['cond'], si == 0), S)
        return S if S else None

    init = frozenset({('?', (True, frozenset(), 0), 0, frozenset())})
    _, ev_in = forward(f, init, tr, lambda a, b: a | b, edge=edge)
    finals = set()
    for (pb, pi, _) in exits_of(f):
        finals |= {x[:3] for x in ev_in.get((pb, pi), ())}
    finals |= {x[:3] for x in ev_in.get((f.exit, 0), ())}

    def good(x):
        (mem, v, linked) = x
        if v == UNKNOWN or len(v[1]) != 1 or v[2] != 0:
            return False
        return (mem == 'out' and not v[0] and linked == 1) or (mem == 'in' and v[0] and linked == 0)
    okfresh = bool(finals) and all(good(x) for x in finals) and len({tuple(sorted(x[1][1])) for x in finals if x[1] != UNKNOWN}) == 1

    def show(x):
        (mem, v, linked) = x
        vs = v if v == UNKNOWN else ' | '.join((['old bits'] if v[0] else []) + sorted(v[1]) + ([str(v[2])] if v[2] or not (v[0] or v[1]) else []))
        return '%s batch at entry -> ready_bands = %s, linked %s time(s)' % ({'in': 'in a', 'out': 'not in a', '?': 'untested whether in a'}[mem], vs,
                                                                             linked if linked < 99 else 'wrongly/several')
    ctx.ob('R-C03b', 'make_ready:%s:fresh-bits-when-not-in-batch' % root.name, okfresh, loc=stores[0]['loc'],
           detail='abstract effect at return: %s; required: not in a batch -> exactly the band argument, linked once; already in a batch -> '
                  'old bits | band argument, not linked again' % '; '.join(sorted(show(x) for x in finals)), fn=root.q)
    into = []
    for e in links:
        a = strip(e['args'][1]) if len(e.get('args', [])) > 1 else None
        into.append(isinstance(a, dict) and a.get('k') == 'var' and a.get('vk') == 'param' and a['name'] in batchp)
    ctx.ob('R-C03b', 'make_ready:%s:links-into-callers-batch' % root.name, bool(links) and all(into), loc=root.loc,
           detail='linked into the batch list the caller supplied (%s)' % ', '.join(sorted(batchp)), fn=root.q)


def tokens(ctx):
    prog = ctx.prog
    # non-descriptor tokens stored as kernel user data (epoll_event.data.ptr), and by which function
    toks = {t: fns for t, fns in h03.stored_tokens(prog).items() if t != ('fd',)}
    if len(toks) < 2:
        raise AnalysisBroken('kernel tokens stored into epoll_event.data.ptr: %s' % sorted(map(h03.token_name, toks)))
    mpriv = generic._method_private(prog)
    rts = h03.root_map(prog)
    mk = {}
    for o in h03.functions_with(prog, h03.is_link, {(FD, 'list_active')}):
        mk.update(h03.nearest_roots(prog, o, rts))
    mknames = {r.name for r in mk.values()}
    mkq = set(mk)
    for t, slots in sorted(prog.method_tables().items()):
        if not slots.get('event_rx_on'):
            continue
        f = prog.resolve(*slots['poll'])
        # which tokens can this method's kernel set contain
        mine = set()
        for tok, fns in toks.items():
            for fn in fns:
                if fn.q not in mpriv or t in mpriv[fn.q]:
                    mine.add(tok)
        # the poll slot with its helpers inlined; the make-ready operation stays a call
        g = h03.inline(prog, f, method_table=t, expand_methods=True, stop=lambda x: x.q in mkq)
        at = h03.facts(g)
        calls = [e for e in g.events() if e['ev'] == 'call' and e.get('callee') in mknames]
        if not calls:
            raise AnalysisBroken('%s: activation code not found' % f.name)
        for tok in sorted(mine):
            ok = True
            bad = None
            for e in calls:
                # the kernel entries the descriptor argument was loaded from, each with the point at which it was loaded:
                # the comparison with the token must hold *there* (the entry may be stepped past afterwards: `ev++`)
                srcs = _descriptor_sources(g, e)
                good = bool(srcs)
                for (entry, at_ev) in srcs:
                    differs = set()      # canon of the kernel entries known to differ from the token at the load
                    for (op, l, r) in at(at_ev):
                        if op != '!=':
                            continue
                        for (x, y) in ((l, r), (r, l)):
                            if h03.kernel_entry_ptr(x) and h03.abstract_token(y) == tok:
                                differs.add(canon(x))
                    if entry not in differs:
                        good = False
                if not good:
                    ok = False
                    bad = bad or e
            ctx.ob('R-C03d', '%s:token %s' % (t.replace('iv_fd_poll_method_', ''), h03.token_name(tok)), ok, loc=(bad or {'loc': f.loc})['loc'],
                   detail='every kernel entry used as a descriptor was compared unequal to %s (same entry, still valid at the use)' % h03.token_name(tok),
                   path=path_to(g, bad) if bad else None, fn=f.q)


def _descriptor_sources(g, call):
    """[(canon of the kernel-entry expression, event at which the descriptor value was loaded from it)] for the descriptor
    argument of a make-ready call: the call itself when copy propagation put the access path into the argument (the entry
    is read there), else every definition of the argument variable (its right-hand side must be a kernel entry: the value
    the variable carries to the call was read at the definition, whatever happens to the cursor/index afterwards).
    Empty when some definition is not a load from a kernel entry."""
    out = []
    for a in call.get('args', []):
        x = strip(a)
        if h03.kernel_entry_ptr(x):
            out.append((canon(x), call))
        elif isinstance(x, dict) and x.get('k') == 'var' and x.get('record') in h03.FD_RECORDS and x.get('ptr'):
            defs = [e for e in g.events() if e['ev'] == 'store' and h03.redefines(e, x['name'])]
            if not defs:
                return []
            for d in defs:
                if d.get('op') != '=' or 'rhs' not in d or not h03.kernel_entry_ptr(d['rhs']):
                    return []
                out.append((canon(d['rhs']), d))
    return out


UNREGISTER = 'iv_fd_unregister'       # exported API


def kernel_registration(ctx):
    """R-C03e for the descriptor kinds only, decided here (the C01 rule R-C01c demands the same of every object kind; a
    holder of another kind that vanished or changed cannot break these obligations).  Holders are found by type:
    a descriptor pointer stored as kernel user data; a descriptor pointer stored into an array element."""
    prog = ctx.prog
    un = prog.fn(UNREGISTER)
    n = 0
    # ---- the kernel's interest set carries the pointer (epoll family) --------------------------------------
    for t in h03.kernel_tables(prog):
        g = h03.inline(prog, un, method_table=t, expand_methods=True, prune=True)
        objs = h03.object_vars(g, un)
        if not objs:
            raise AnalysisBroken('%s: no descriptor parameter' % un.name)
        sts = h03.kernel_synced(g, objs, h03.unknown_code(prog))
        has_slot = bool(prog.method_tables()[t].get('unregister_fd'))
        ok = bool(sts) and all(told for (told, _) in sts)
        n += 1
        ctx.ob('R-C03e', 'holder:kernel iv_fd_.epoll_event.data.ptr [%s]' % t.replace('iv_fd_poll_method_', ''), ok, loc=un.loc,
               detail='at every return of %s, after the last change of wanted_bands, the kernel was told (%s) or a branch established '
                      'registered_bands == wanted_bands (nothing to tell); exit states (told, queued for a deferred update): %s%s'
                      % (un.name, '/'.join(h03.KERNEL_UPDATES), sorted(sts), '' if has_slot else '; the method has no unregister_fd slot'),
               fn=un.q)
    # ---- an array slot holds the pointer (poll family) -------------------------------------------------------
    for t in sorted(prog.method_tables()):
        fns = h03.table_functions(prog, t)
        stores, idxkeys = [], set()
        for slot, f in fns.items():
            gs = h03.inlined(prog, f)
            st = h03.slot_stores(gs)
            if st:
                stores += st
                idxkeys |= h03.slot_index_fields(gs, st)
        if not stores:
            continue
        if not idxkeys:
            raise AnalysisBroken('%s: index field of the descriptor array slot not found' % t)
        # the value the index field has while the descriptor owns no slot: what registration leaves there
        free = set()
        for slot in ('register_fd',):
            if slot in fns:
                for e in h03.inlined(prog, fns[slot]).events():
                    if e['ev'] == 'store' and e.get('op') == '=' and 'rhs' in e and any(k in idxkeys for k in lvalue_steps(e['lhs'])):
                        free.add(h03.const_value(e['rhs']))
        if len(free) != 1 or None in free:
            raise AnalysisBroken('%s: value of the slot index of a descriptor without a slot not found (register_fd stores %s)' % (t, sorted(map(str, free))))
        free = free.pop()
        g = h03.inline(prog, un, method_table=t, expand_methods=True, prune=True)
        objs = h03.object_vars(g, un)
        if not objs:
            raise AnalysisBroken('%s: no descriptor parameter' % un.name)
        ev_in = h03.index_is(g, objs, idxkeys, free)
        ok = all(ev_in.get(p, True) for p in h03.exit_points(g))
        n += 1
        ctx.ob('R-C03e', 'holder:slot iv_fd_.poll.fds[] [%s]' % t.replace('iv_fd_poll_method_', ''), ok, loc=un.loc,
               detail='at every return of %s the descriptor owns no slot of the descriptor array (%s == %d stored or implied by a branch; '
                      '%d is what registration leaves there)' % (un.name, '/'.join(sorted(k[1] for k in idxkeys)), free, free), fn=un.q)
    if n < 2:
        raise AnalysisBroken('no place outside the library\'s lists keeps a descriptor pointer (kernel user data, array slot): discovery failed')


def slot_pairing(ctx):
    """R-C03f: the poll slot takes descriptor k from the descriptor array and its readiness from element k of the kernel-facing
    array; what keeps the two in step is the notify_fd slot (slot assignment, swap-with-last removal).  Decided by running that
    code on a small concrete model (h03.slot_pairing), not by looking at the statements."""
    prog = ctx.prog
    n = 0
    for t in sorted(prog.method_tables()):
        fns = h03.table_functions(prog, t)
        if not any(h03.slot_stores(h03.inlined(prog, f)) for f in fns.values()):
            continue
        bad = h03.slot_pairing(prog, t)
        f = fns.get('notify_fd') or sorted(fns.values(), key=lambda x: x.q)[0]
        n += 1
        ctx.ob('R-C03f', 'slots-parallel [%s]' % t.replace('iv_fd_poll_method_', ''), not bad, loc=f.loc,
               detail=('after %s: %s' % bad[0]) if bad else
                      'after every sequence of interest changes on the model each descriptor that wants events owns one slot, the descriptor '
                      'array holds it there and the kernel-facing array carries its file descriptor there; the others own none', fn=f.q)
    if not n:
        raise AnalysisBroken('no poll method keeps descriptors in array slots: discovery failed')


def _activating_roots(prog):
    """(make-ready operations {q: Func}, {q: Func} of the roots that make descriptors ready: the nearest roots of the callers of a
    make-ready operation, and a make-ready operation that is itself a poll slot (activation written out in the slot))"""
    rts = h03.root_map(prog)
    mk = {}
    for o in h03.functions_with(prog, h03.is_link, {(FD, 'list_active')}):
        mk.update(h03.nearest_roots(prog, o, rts))
    if not mk:
        raise AnalysisBroken('no function links a descriptor into an active batch')
    slots = {f.q for f in prog.slot_targets('poll')}
    roots = {q: mk[q] for q in mk if q in slots}
    for q in sorted(mk):
        for (c, e) in prog.callers_of(mk[q].name):
            u = prog.unit_of(c)
            t = prog.resolve(u, e['callee']) if u else None
            if t is not None and t.q != q:
                continue
            roots.update(h03.nearest_roots(prog, c, rts))
    return mk, roots


def batch_fresh(ctx):
    """R-C03g: what a make-ready operation records is what the preceding kernel wait reported for the registration that
    existed then.  User code may change registrations (unregister + register of the same struct, struct reuse), so none may run
    between the wait and the last make-ready operation that consumes its results.  May-analysis 'user code has run since the
    last kernel wait' on the inlined root; judged at every make-ready call and at every link into a batch."""
    prog = ctx.prog
    mk, roots = _activating_roots(prog)
    mkq = set(mk)
    mknames = {r.name for r in mk.values()}
    if not roots:
        raise AnalysisBroken('the make-ready operation is never called')
    nuser = 0
    for cq in sorted(roots):
        r = roots[cq]
        g = h03.inline(prog, r, stop=lambda t, cq=cq: t.q in mkq and t.q != cq)
        uses = [e for e in g.events() if (e['ev'] == 'call' and e.get('callee') in mknames) or h03.is_link(e)]
        waits = [e for e in g.events() if e['ev'] == 'call' and e.get('callee') in h03.WAITS]
        if not uses:
            raise AnalysisBroken('%s: make-ready operation not found in the inlined root' % r.name)
        since = h03.user_code_since_wait(prog, g)
        nuser += len({e.get('loc') for e in g.events() if h03.user_code_event(prog, e)})
        bad = [(e, since.get((e['_b'], e['_i']))) for e in uses if since.get((e['_b'], e['_i']))]
        ctx.ob('R-C03g', 'make_ready:caller:%s:no-user-code-since-wait' % r.name, bool(waits) and not bad,
               loc=(bad[0][0] if bad else uses[0])['loc'],
               detail=('a descriptor is made ready after user code may have run since the kernel wait: %s' % bad[0][1]) if bad else
                      ('no kernel wait (%s) in this root' % '/'.join(h03.WAITS)) if not waits else
                      '%d make-ready operation(s); on no path did user code run between the kernel wait and one of them'
                      % len({e.get('loc') for e in uses}),
               path=path_to(g, bad[0][0]) if bad else None, fn=cq)


TRY_REGISTER = 'iv_fd_register_try'       # exported API


def _slot_methods(prog):
    """{table: (index field keys, value of the index field of a descriptor without a slot)} of the poll methods that keep
    descriptors in array slots (found as in R-C03e: by the type of the stored value; the free value is what register_fd stores)"""
    out = {}
    for t in sorted(prog.method_tables()):
        fns = h03.table_functions(prog, t)
        stores, idxkeys = [], set()
        for slot, f in fns.items():
            gs = h03.inlined(prog, f)
            st = h03.slot_stores(gs)
            if st:
                stores += st
                idxkeys |= h03.slot_index_fields(gs, st)
        if not stores:
            continue
        if not idxkeys:
            raise AnalysisBroken('%s: index field of the descriptor array slot not found' % t)
        free = set()
        if 'register_fd' in fns:
            for e in h03.inlined(prog, fns['register_fd']).events():
                if e['ev'] == 'store' and e.get('op') == '=' and 'rhs' in e and any(k in idxkeys for k in lvalue_steps(e['lhs'])):
                    free.add(h03.const_value(e['rhs']))
        if len(free) != 1 or None in free:
            raise AnalysisBroken('%s: value of the slot index of a descriptor without a slot not found (register_fd stores %s)' % (t, sorted(map(str, free))))
        out[t] = (idxkeys, free.pop())
    return out


def failed_try(ctx):
    """R-C03h: per poll method, the try-registration entry point with the method's slots inlined; the states that reach a
    return are (returned value is zero / non-zero / unknown, the back end holds nothing of the descriptor).  Every state that
    can deliver a non-zero result must be clean."""
    prog = ctx.prog
    f = prog.fn(TRY_REGISTER)
    slotm = _slot_methods(prog)
    kern = set(h03.kernel_tables(prog))
    unknown = h03.unknown_code(prog)
    n = 0
    for t in sorted(prog.method_tables()):
        if t in slotm:
            keys, clean = slotm[t]
            what = 'owns no slot of the descriptor array (%s == %d, what register_fd leaves there)' % ('/'.join(sorted(k[1] for k in keys)), clean)
            inst = 'failed-try:slot iv_fd_.poll.fds[] [%s]' % t.replace('iv_fd_poll_method_', '')
        elif t in kern:
            keys, clean = {(FD, 'registered_bands')}, 0
            what = 'has nothing in the kernel set according to the library\'s own record (registered_bands == 0)'
            inst = 'failed-try:kernel iv_fd_.epoll_event.data.ptr [%s]' % t.replace('iv_fd_poll_method_', '')
        else:
            continue
        g = h03.inline(prog, f, method_table=t, expand_methods=True, prune=True)
        objs = h03.object_vars(g, f)
        if not objs:
            raise AnalysisBroken('%s: no descriptor parameter' % f.name)
        res = h03.failure_traces(g, objs, keys, clean, unknown)
        if not res:
            raise AnalysisBroken('%s [%s]: no return reached' % (f.name, t))
        fails = [(e, v, cl) for (e, v, cl) in res if v != 'Z']
        bad = [(e, v, cl) for (e, v, cl) in fails if not cl]
        n += 1
        e0 = bad[0][0] if bad else None
        ctx.ob('R-C03h', inst, bool(fails) and not bad, loc=e0['loc'] if e0 else f.loc,
               detail=('a return that can deliver a failure (%s) is reachable while the descriptor still holds what was entered for it: '
                       'required is that it %s' % (describe(e0), what)) if bad else
                      ('no return of %s can deliver a non-zero result: the failure of the validity probe is not reported' % f.name) if not fails else
                      'at each of the %d return state(s) with a non-zero result the descriptor %s' % (len(fails), what),
               path=path_to(g, e0) if e0 else None, fn=f.q)
    if n < 2:
        raise AnalysisBroken('try-registration: no poll method with a descriptor array or a kernel set found')
