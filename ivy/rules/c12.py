"""C12 — iv_work: items run once in a worker, complete once in the owner.

Schedule-level completeness is not decided; claimed are the structural clauses.

Nothing here names a static function, a private struct, a private member or a file-scope variable of iv_work.c.  The
anchors are the installed headers (iv_work_item.work/.completion/.list, iv_work_pool.priv/.max_threads) and library API
of other modules (iv_thread_create, iv_event_post, iv_task_register, the lock functions, the iv_list primitives).
  * Code is found by role: worker = the root (installed handler / exported function) that reaches an indirect call through
    iv_work_item.work and touches a pool record; owner = the root that reaches a call through iv_work_item.completion and
    touches a pool record; local = the root that reaches those calls without a pool (NULL pool); submit = the exported
    functions from which the link of the caller's item into the pool queue is reachable; start = the roots from which
    iv_thread_create is reachable and that touch a pool record.
  * Data is found by role (h12.schema): the pool record is what iv_work_pool.priv points to; its lock, queues, sequence
    numbers, thread counter (counting up to the maximum or down from it), events, and the thread record's link, kick event
    and kicked mark are identified by what the code does with them, and named by their member chain inside the object.
Every root is analysed with the internal helpers of the iv_work code inlined -- also through function-pointer parameters
and constant dispatch tables -- and normalised (h12.context_of: out-parameters, context structs, cached addresses / values,
ternaries, constant branches, emptiness snapshots and result flags are eliminated, open-coded list primitives and
container_of recognised); obligations about a source construct are evaluated in every context and grouped by source
location.  The obligations themselves are formulated over paths (h12.worlds: may-analysis over small abstract worlds,
with NULL-ness of locals) and over the definition-based typestate of an item (h12.Items), never over loop or branch shape.
"""
from ..core import AnalysisBroken, canon, strip, last_member, must_pass, names_of, walk, forward
from ..analyses import is_call, path_to, loops, innermost_loop, locksets, held, lock_effect
from ..roles import by_loc
from . import h12 as h

POOL = 'work_pool_priv.lock'          # (kept for importers; the rules use the inferred h.schema(prog).lock)
ITEM_LINK = h.ITEM_LINK               # iv_work_item.list: installed header


# -- kept for c13 (imports lm_arg, per_iter_must, POOL) ------------------------------------------------------------

def lm_arg(e, i):
    a = strip(e['args'][i]) if len(e.get('args', [])) > i else None
    if isinstance(a, dict) and a.get('k') == 'addr':
        return last_member(a['e'])
    return None


def per_iter_must(f, site, pred, kill=None):
    lps = loops(f)
    h_ = innermost_loop(f, site['_b'], lps)
    def tr(e, s):
        if kill and kill(e):
            return False
        return True if pred(e) else s
    def edge(blk, si, s):
        return False if (h_ is not None and blk.succ[si] == h_) else s
    _, ev_in = forward(f, False, tr, lambda a, b: a and b, edge=edge)
    return bool(ev_in.get((site['_b'], site['_i'])))


# -- site predicates (over the inferred roles, h12.Schema) ----------------------------------------------------------

work_site = h.work_site
completion_site = h.completion_site


class Preds:
    """event predicates of one program: every private record / field is the one h12.schema() inferred by role"""

    def __init__(self, prog):
        self.S = S = h.schema(prog)
        self.prog = prog
        self.up = S.direction == 'up'

    def need(self, *roles):
        missing = [r for r in roles if getattr(self.S, r) is None]
        if missing:
            raise AnalysisBroken('role inference: not found: %s' % ', '.join(missing))

    def pool_add(self, e):
        return is_call(e, h.ADD) and h.arg_chain(e, 0) == ITEM_LINK and h.arg_chain(e, 1) == self.S.work_items and self.S.work_items is not None

    def local_add(self, e):
        return is_call(e, h.ADD) and h.arg_chain(e, 0) == ITEM_LINK and h.arg_chain(e, 1) == self.S.localq and self.S.localq is not None

    def done_add(self, e):
        return is_call(e, h.ADD) and h.arg_chain(e, 1) == self.S.work_done and self.S.work_done is not None

    def pool_lock_op(self, e, which=None):
        for (op, lid) in lock_effect(e):
            if lid == self.S.lock and (which is None or op == which):
                return True
        return False

    def post_of(self, e, key):
        return key is not None and is_call(e, 'iv_event_post') and h.arg_chain(e, 0) == key

    def kick_post(self, e):
        return self.post_of(e, self.S.kick)

    def ev_post(self, e):
        return self.post_of(e, self.S.ev)

    def kicked_mark(self, e):
        return h.mark_effect(e, self.S.kicked) == 'set'

    def create(self, e):
        return e['ev'] == 'call' and is_call(e, 'iv_thread_create')

    def start_or_request(self, e):
        return self.create(e) or self.post_of(e, self.S.needed)

    def task_reg(self, e):
        return self.S.task is not None and is_call(e, 'iv_task_register') and h.arg_chain(e, 0) == self.S.task

    # -- the thread counter, in either direction -----------------------------------------------------------------------
    def counted(self, e):
        """+1: the event counts one more thread, -1: takes one back (x++ / x-- of an up-counter, x-- / x++ of a counter of free slots)"""
        sg = h.step_of(e, self.S.counter)
        if sg is None:
            return None
        return sg if self.up else -sg

    def room(self, at):
        """'room' / 'full' when the atom decides whether one more thread may be started: started < max (strictly; up-counter) or
        free > 0 (counter of free slots; `free != 0` only for an unsigned counter)"""
        if self.up:
            c = h.compare_keys(at, self.S.counter, self.S.maxkeys)
            if c == '<':
                return 'room'
            return 'full' if c in ('>=', '>', '==') else None
        c = h.compare_zero(at, self.S.counter)
        if c == '>' or (c == '!=' and h.is_unsigned(at[3])):
            return 'room'
        return 'full' if c in ('==', '<=', '<') else None

    def bound_written(self, e):
        """a store that changes what a test of the thread count has established (counter set otherwise than by a step; the maximum)"""
        return e['ev'] == 'store' and (h.writes_key(e, self.S.counter) or any(h.writes_key(e, m) for m in self.S.maxkeys))


def pos(e):
    return (e['_b'], e['_i'])


def _cap(n):
    return max(-2, min(2, n))


def origin(e, root):
    q = e.get('fn') or root.q
    return q.split(':')[-1]


def pool_contexts(prog, pred, pool=True):
    S = h.schema(prog)
    return [c for c in h.contexts(prog, pred) if h.touches(c[1], S.priv) == pool]


def run(ctx):
    ctx.rule('R-C12a', 'LOCK-FREE-CALLBACK: work functions and completions are entered with no lock held (in every calling context)', floor=4)
    ctx.rule('R-C12b', 'queue and sequence numbers move together under the pool lock; an item is queued as done only after its '
                       'work function returned; a completion runs only after the item left the owner\'s batch', floor=10)
    ctx.rule('R-C12c', 'KICK-ON-EMPTY for the done queue: emptiness known at the add within the same lock region, empty => post of the pool event', floor=2)
    ctx.rule('R-C12d', 'submit always wakes an idle worker (marking it kicked), or starts / requests a thread when below the maximum; '
                       'a worker that leaves with work still queued re-posts its own kick', floor=9)
    ctx.rule('R-C12e', 'NULL pool: work then completion of the same item, in that order, after the unlink; the local task is '
                       'registered on the empty -> non-empty transition of the local queue', floor=4)
    ctx.rule('R-C12f', 'thread bound: a worker thread is started only under the pool lock on the edge started_threads < max_threads, '
                       'and is counted before the lock is dropped', floor=6)
    ctx.rule('R-C12g', 'COMPLETE-BEFORE-TEARDOWN: a published pool is released (pool record freed, completion event unregistered, pool lock '
                       'destroyed) only when its done queue is known empty: found empty under the pool lock in the last pool-lock region, '
                       'nothing queued and no user callback since (every item whose work function ran gets its completion)', floor=3)
    ctx.rule('R-C12h', 'NULL pool, nested submissions: the decision of submit that the drain task is not registered agrees with the handler of '
                       'that task whenever user code can run: if submit takes it from the emptiness of the local queue, then at every callback '
                       'of the handler and at its return `local queue empty <=> task not registered` holds (the handler, entered with the task '
                       'unregistered, has emptied the queue before its first callback and takes nothing off it afterwards); a decision '
                       'taken from the registration state of the task itself needs no such agreement', floor=3)
    ctx.rule('R-C12i', 'WRAP-SAFE SEQUENCE NUMBERS: the submission counters are free-running and wrap; every test that compares two of their '
                       'values (the counters, snapshots of them, differences kept in locals; found by role) decides by their sequence order: '
                       'evaluated with C integer arithmetic over boundary vectors around 2^(w-1) and 2^w its truth is invariant under a common '
                       'shift of the counter values across the wrap and is that of the difference of the full counter width w (an equality, '
                       'or an ordering of the signed w-bit difference) -- all submitted items complete for submission programs of any length', floor=1)
    ctx.section(thread_bound)
    ctx.section(callbacks)
    ctx.section(queues)
    ctx.section(done_kick)
    ctx.section(submit)
    ctx.section(leftover)
    ctx.section(local)
    ctx.section(local_agreement)
    ctx.section(teardown)
    ctx.section(wrap_safe)


# ------------------------------------------------------------------------------------------------------------------
# R-C12f
# ------------------------------------------------------------------------------------------------------------------

def _create_failed(at, resvars):
    """the atom says the iv_thread_create call failed (result < 0 / != 0 / == -1)"""
    (op, lc, rc, l, r) = at
    if op == 'const':
        return False
    isres = any(x.get('k') == 'call' and x.get('callee') == 'iv_thread_create' for x in walk(l)) or bool(names_of(l) & resvars)
    if not isres:
        return False
    return (op in ('<', '!=') and rc == '0') or (op == '==' and rc.startswith('-')) or (op == '<=' and rc.startswith('-'))


def thread_bound(ctx):
    prog = ctx.prog
    P = Preds(prog)
    P.need('lock')
    cs = pool_contexts(prog, P.create)
    if len(cs) < 2:
        raise AnalysisBroken('thread start contexts: %d found (roots that reach iv_thread_create and touch a pool), >= 2 confirmed' % len(cs))
    what = 'started < maximum' if P.up else 'free thread slots > 0'
    for root, g, sites in cs:
        ls = locksets(g)
        # world (below, creates, counted): `below` = an edge that proves room for one more thread was taken in the current
        # pool-lock region; creates / threads counted since that edge.  The room found by one test is good for one thread,
        # counted before or after it is created.
        def step(e, w):
            below, nc, ni = w
            if P.pool_lock_op(e):
                return [(False, 0, 0)]
            if P.create(e):
                return [(below, min(nc + 1, 2), ni)]
            c = P.counted(e)
            if c == 1:
                return [(below, nc, min(ni + 1, 2))]
            if c == -1 and ni > 0:
                return [(below, nc, ni - 1)]
            if P.bound_written(e):
                return [(False, nc, ni)]
            return [w]
        def edge(blk, si, w):
            for at in h.atoms_on(blk, si):
                r = P.room(at)
                if r == 'room':
                    w = (True, 0, 0)
                elif r == 'full':
                    if w == (True, 0, 0):
                        return None           # the same region has just established the opposite, nothing changed since
                    w = (False, w[1], w[2])
            return w
        W = h.worlds(g, (False, 0, 0), step, edge)
        for loc, evs in sorted(by_loc(sites).items()):
            below = all(all(w[0] and w[1] == 0 and w[2] <= 1 for w in W.get(pos(e), ())) for e in evs)
            locked = all(P.S.lock in held(ls.get(pos(e))) for e in evs)
            ctx.ob('R-C12f', '%s:start-below-maximum' % root.name, below and locked and P.S.counter is not None, loc=loc,
                   detail='iv_thread_create is reached only over an edge `%s` taken in the current pool-lock '
                          'region, and that test admits one thread (count and test cannot be separated)%s%s'
                          % (what, '' if below else '; NOT below the maximum on every path', '' if locked else '; pool lock NOT held'),
                   path=None if below else path_to(g, evs[0]), fn=root.q)
        # the started thread is counted before the region ends: world (creates not known to have failed, net count)
        resvars = {canon(e['lhs']) for e in g.events() if e['ev'] == 'store' and 'rhs' in e and h.varname(e['lhs'])
                   and any(x.get('k') == 'call' and x.get('callee') == 'iv_thread_create' for x in walk(e['rhs']))}
        def step2(e, w):
            c, n = w
            if P.pool_lock_op(e):
                return [(0, 0)]
            if P.create(e):
                return [(_cap(c + 1), n)]
            k = P.counted(e)
            if k:
                return [(c, _cap(n + k))]
            return [w]
        def edge2(blk, si, w):
            if w[0] > 0 and any(_create_failed(at, resvars) for at in h.atoms_on(blk, si)):
                return (w[0] - 1, w[1])
            return w
        W2 = h.worlds(g, (0, 0), step2, edge2)
        bad = [e for e in g.events() if P.pool_lock_op(e, 'unlock') and any(c != n for (c, n) in W2.get(pos(e), ()))]
        ctx.ob('R-C12f', '%s:started-thread-is-counted' % root.name, not bad and P.S.counter is not None, loc=sites[0]['loc'],
               detail='whenever the pool lock is released, the thread counter has been stepped once per successful iv_thread_create of the '
                      'region (an uncounted thread lets the next submitter exceed max_threads)', fn=root.q)


# ------------------------------------------------------------------------------------------------------------------
# R-C12a
# ------------------------------------------------------------------------------------------------------------------

def callbacks(ctx):
    """Per calling context (root with helpers inlined) and kind of callback: no lock is held at any of the call sites
    of that kind.  The four contexts that must exist are named by role, not by how many source lines hold a call:
    work / completion, each with and without a pool (two loops merged into one helper still give four contexts)."""
    prog = ctx.prog
    S = h.schema(prog)
    seen = set()
    for kind, pred in (('work', work_site), ('completion', completion_site)):
        for root, g, ss in h.contexts(prog, pred):
            ls = locksets(g)
            seen.add((kind, h.touches(g, S.priv)))
            for loc, css in sorted(by_loc(ss).items()):
                bad = sorted({l for cs in css for l in held(ls.get(pos(cs)))})
                ctx.ob('R-C12a', '%s:%s' % (root.name, kind), not bad, loc=loc,
                       detail='locks held at the call of the %s function (written in %s) in the calling context %s: %s'
                              % (kind, ', '.join(sorted({origin(cs, root) for cs in css})), root.name, bad or 'none'),
                       path=path_to(g, css[0]) if bad else None, fn=root.q)
    missing = [(k, p) for k in ('work', 'completion') for p in (True, False) if (k, p) not in seen]
    if missing:
        raise AnalysisBroken('work/completion call contexts not found: %s'
                             % ', '.join('%s %s a pool' % (k, 'with' if p else 'without') for k, p in missing))


# ------------------------------------------------------------------------------------------------------------------
# R-C12b
# ------------------------------------------------------------------------------------------------------------------

def queues(ctx):
    prog = ctx.prog
    P = Preds(prog)
    S = P.S
    P.need('lock', 'work_items')
    # ---- submit: every path queues the item exactly once; counter and link move together -------------------
    subs = [c for c in h.contexts(prog, P.pool_add) if not c[0].static]
    if not subs:
        raise AnalysisBroken('submit: no exported function reaches the link into the queue of a pool')
    for root, g, adds in subs:
        ls = locksets(g)
        def step(e, w):
            if h.step_of(e, S.seq_tail) == 1:
                return [(_cap(w[0] + 1), w[1], w[2])]
            if P.pool_add(e):
                return [(w[0], _cap(w[1] + 1), w[2])]
            if P.local_add(e):
                return [(w[0], w[1], _cap(w[2] + 1))]
            return [w]
        W = h.worlds(g, (0, 0, 0), step)
        ex = h.at_exit(g, W)
        ok = bool(ex) and all(w in ((1, 1, 0), (0, 0, 1)) for w in ex)
        ctx.ob('R-C12b', '%s:queues-exactly-once' % root.name, ok, loc=root.loc,
               detail='every return has linked the item exactly once: into the pool queue together with one step of the tail sequence number, '
                      'or into the local queue; (tail steps, pool links, local links) at exit: %s' % sorted(ex), fn=root.q)
        incs = [e for e in g.events() if h.step_of(e, S.seq_tail) == 1]
        other = [e for e in g.events() if h.writes_key(e, S.seq_tail) and h.step_of(e, S.seq_tail) != 1]
        locked = all(S.lock in held(ls.get(pos(e))) for e in incs + adds)
        apart = [e for e in g.events() if P.pool_lock_op(e, 'unlock') and any(w[0] != w[1] for w in W.get(pos(e), ()))]
        ctx.ob('R-C12b', '%s:seq_tail-with-link' % root.name, bool(incs) and locked and not apart and not other, loc=(incs or adds)[0]['loc'],
               detail='the step of the tail sequence number and the link into the pool queue happen under the pool lock, and whenever the lock '
                      'is released the number of steps equals the number of links', fn=root.q)
    # ---- worker -------------------------------------------------------------------------------------------------
    wk = pool_contexts(prog, work_site)
    if not wk:
        raise AnalysisBroken('worker: no root calls a work function and touches a pool')
    for root, g, sites in wk:
        ls = locksets(g)
        it = h.Items(g, lock=S.lock)
        for loc, css in sorted(by_loc(sites).items()):
            objs = [o for cs in css for o in it.callee_objects(cs)]
            oku = bool(objs) and all(o is not None and o[1] == 'unlinked' and o[3] for o in objs)
            ctx.ob('R-C12b', 'worker:unlinked-before-work', oku, loc=loc,
                   detail='between the definition of the item and the call of its work function the item was unlinked, under the pool '
                          'lock, exactly once (typestate of the item at the call: %s)' % sorted({o[1] if o else 'unknown item' for o in objs}),
                   path=None if oku else path_to(g, css[0]), fn=root.q)
            okh = bool(objs) and all(o is not None and o[2] == ('head', S.work_items) for o in objs)
            ctx.ob('R-C12b', 'worker:takes-queue-head', okh, loc=loc,
                   detail='the item run is the first element of the pool queue (FIFO); taken from: %s' % sorted({str(o[2]) if o else '?' for o in objs}),
                   fn=root.q)
        # the head sequence number moves with the unlink: balanced whenever the lock is released
        incs = [e for e in g.events() if h.step_of(e, S.seq_head) == 1]
        other = [e for e in g.events() if h.writes_key(e, S.seq_head) and h.step_of(e, S.seq_head) != 1]
        takes = set()
        for e in g.events():
            if is_call(e, h.DEL) and e.get('args'):
                srcs = [o[2] if o is not None else h._src_of(e['args'][0]) for o in it.arg_objects(e)]
                if any(src is not None and src[1] == S.work_items for src in srcs):
                    takes.add(id(e))
        def step(e, d):
            if h.step_of(e, S.seq_head) == 1:
                return [_cap(d + 1)]
            if id(e) in takes:
                return [_cap(d - 1)]
            return [d]
        W = h.worlds(g, 0, step)
        apart = [e for e in g.events() if P.pool_lock_op(e, 'unlock') and any(d != 0 for d in W.get(pos(e), ()))]
        exbad = any(d != 0 for d in h.at_exit(g, W))
        locked = all(S.lock in held(ls.get(pos(e))) for e in incs) and all(S.lock in held(ls.get(pos(e))) for e in g.events() if id(e) in takes)
        ok = bool(incs) and bool(takes) and locked and not apart and not exbad and not other
        ctx.ob('R-C12b', 'worker:seq_head-with-unlink', ok, loc=(apart[0]['loc'] if apart else sites[0]['loc']),
               detail='the step of the head sequence number and the unlink of a queued item happen under the pool lock, and whenever the lock '
                      'is released (before the work function) the number of steps equals the number of items taken', fn=root.q)
        done = [e for e in g.events() if P.done_add(e)]
        if not done:
            raise AnalysisBroken('worker: add to the done queue not found')
        for loc, ds in sorted(by_loc(done).items()):
            objs = [o for d in ds for o in it.arg_objects(d)]
            ok = bool(objs) and all(o is not None and o[1] == 'worked' for o in objs) and all(S.lock in held(ls.get(pos(d))) for d in ds)
            ctx.ob('R-C12b', 'worker:done-after-work', ok, loc=loc,
                   detail='the item is queued as done, under the lock, only after its own work function returned '
                          '(typestate of the item at the add: %s)' % sorted({o[1] if o else 'unknown item' for o in objs}), fn=root.q)
    # ---- owner ------------------------------------------------------------------------------------------------------
    ow = pool_contexts(prog, completion_site)
    if not ow:
        raise AnalysisBroken('owner: no root calls a completion and touches a pool')
    for root, g, sites in ow:
        ls = locksets(g)
        it = h.Items(g)
        for loc, css in sorted(by_loc(sites).items()):
            objs = [o for cs in css for o in it.callee_objects(cs)]
            ok = bool(objs) and all(o is not None and o[1] == 'unlinked' for o in objs)
            ctx.ob('R-C12b', 'owner:completion-after-unlink', ok, loc=loc,
                   detail='the item leaves the owner\'s batch before its completion runs, once (it may be resubmitted or freed there); '
                          'typestate at the call: %s' % sorted({o[1] if o else 'unknown item' for o in objs}), fn=root.q)
        steal = [e for e in g.events() if is_call(e, h.DETACH) and h.arg_chain(e, 0) == S.work_done and S.work_done is not None]
        ok = bool(steal) and all(S.lock in held(ls.get(pos(e))) for e in steal)
        for e in steal:
            if e['callee'] != '__iv_list_steal_elements':
                # splice variants link into the target: it must be an initialised list head
                tgt = canon(e['args'][1])
                mp = must_pass(g, lambda x, tgt=tgt: is_call(x, 'INIT_IV_LIST_HEAD') and canon(x['args'][0]) == tgt)
                ok = ok and bool(mp.get(pos(e)))
        ctx.ob('R-C12b', 'owner:steal-under-lock', ok, loc=steal[0]['loc'] if steal else root.loc,
               detail='the done queue is detached (all elements moved to an initialised private head, queue left empty) under the pool lock', fn=root.q)


# ------------------------------------------------------------------------------------------------------------------
# KICK-ON-EMPTY (R-C12c, and the local task of R-C12e)
# ------------------------------------------------------------------------------------------------------------------

def kick_on_empty(g, qkey, is_add, is_kick, lock, known=None):
    """World (K, owed, kicked): K what is known about the emptiness of the queue now ('?', 'E', 'N'); owed: an element was
    added while the queue was known empty and the consumer was not kicked since; kicked: the consumer was kicked in this
    region.  Knowledge is dropped when the region ends (lock released / re-taken, a user callback) and when the queue may
    have been changed.  `known(atom)` -> 'empty' / 'nonempty' / None: a direct test of the state the emptiness stands for (is the
    consumer already scheduled) is the same knowledge.  Returns (untested adds, kicks made while the queue was neither known empty nor an element had just been
    added to the empty queue, events at which a kick is owed)."""
    def boundary(e):
        if lock is not None:
            return any(lid == lock for (op, lid) in lock_effect(e))
        return e['ev'] == 'call' and 'fnexpr' in e
    def step(e, w):
        K, owed, kicked = w
        if boundary(e):
            return [('?', False, False)]
        if is_kick(e):
            return [(K, False, True)]
        if is_add(e):
            return [('N', owed or (K == 'E' and not kicked), kicked)]
        if e['ev'] == 'call' and e.get('callee') in h.LIST_PRIMS:
            keys = [h.arg_chain(e, i) for i in range(len(e.get('args', [])))]
            if qkey in keys or (e['callee'] in h.DEL and keys[:1] in ([ITEM_LINK], [None])):
                return [('?', owed, kicked)]
        return [w]
    def edge(blk, si, w):
        K, owed, kicked = w
        for at in h.atoms_on(blk, si):
            t = h.empty_test(at, qkey)
            if t is not None:
                k2 = 'E' if t == 'empty' else 'N'
                if K != '?' and K != k2:
                    return None
                K = k2
            elif known is not None and known(at) is not None:
                K = 'E' if known(at) == 'empty' else 'N'
        return (K, owed, kicked)
    W = h.worlds(g, ('?', False, False), step, edge)
    untested, offedge, owing = [], [], []
    for e in g.events():
        S = W.get(pos(e), ())
        if is_add(e) and any(w[0] == '?' and not w[2] for w in S):
            untested.append(e)
        if is_kick(e) and any(w[0] != 'E' and not w[1] for w in S):
            offedge.append(e)
        if boundary(e) and any(w[1] for w in S):
            owing.append(e)
    if any(w[1] for w in h.at_exit(g, W)):
        owing.append(None)
    return untested, offedge, owing


def done_kick(ctx):
    prog = ctx.prog
    P = Preds(prog)
    P.need('lock', 'work_done', 'ev')
    wk = pool_contexts(prog, P.done_add)
    if not wk:
        raise AnalysisBroken('done queue: no root links items into the done queue of a pool')
    for root, g, adds in wk:
        untested, _, owing = kick_on_empty(g, P.S.work_done, P.done_add, P.ev_post, P.S.lock)
        ctx.ob('R-C12c', '%s:test-then-add-one-region' % root.name, not untested, loc=(untested or adds)[0]['loc'],
               detail='at the add to the done queue its emptiness is known from a test made in the same pool-lock region with the queue '
                      'untouched since (or the owner is posted unconditionally)', fn=root.q)
        ctx.ob('R-C12c', '%s:empty-implies-post' % root.name, not owing, loc=adds[0]['loc'],
               detail='when the done queue was empty at the add, the event of the owner is posted before the pool lock is released', fn=root.q)


# ------------------------------------------------------------------------------------------------------------------
# R-C12d
# ------------------------------------------------------------------------------------------------------------------

BITS = ('queued', 'ne', 'em', 'be', 'nb', 'mark', 'post', 'start', 'oom')
ZERO = (False,) * len(BITS)


def _set(w, name, v=True):
    i = BITS.index(name)
    return w[:i] + (v,) + w[i + 1:]


def _bit(w, name):
    return w[BITS.index(name)]


def submit(ctx):
    prog = ctx.prog
    P = Preds(prog)
    S = P.S
    P.need('lock', 'work_items', 'idle', 'kick', 'kicked', 'thr_link')
    subs = [c for c in h.contexts(prog, P.pool_add) if not c[0].static]
    if not subs:
        raise AnalysisBroken('submit: no exported function reaches the link into the queue of a pool')
    under = {}
    for root, g, adds in subs:
        ls = locksets(g)
        alloc = {canon(e['lhs']) for e in g.events() if e['ev'] == 'store' and 'rhs' in e and h.varname(e['lhs'])
                 and any(x.get('k') == 'call' and x.get('callee') in ('malloc', 'calloc') for x in walk(e['rhs']))}
        def step(e, w):
            if P.pool_lock_op(e):
                return [ZERO]
            if P.pool_add(e):
                return [_set(w, 'queued')]
            if P.kicked_mark(e):
                return [_set(w, 'mark')]
            if P.kick_post(e):
                return [_set(w, 'post')]
            if P.start_or_request(e):
                return [_set(w, 'start')]
            return [w]
        def edge(blk, si, w):
            for at in h.atoms_on(blk, si):
                t = h.empty_test(at, S.idle)
                if t is not None:
                    a, b = ('em', 'ne') if t == 'empty' else ('ne', 'em')
                    if _bit(w, b):
                        return None
                    w = _set(w, a)
                    continue
                c = P.room(at)
                if c is not None:
                    a, b = ('be', 'nb') if c == 'room' else ('nb', 'be')
                    if _bit(w, b):
                        return None
                    w = _set(w, a)
                    continue
                (op, lc, rc, l, r) = at
                if op == '==' and rc == '0' and (names_of(l) & alloc):
                    w = _set(w, 'oom')
            return w
        W = h.worlds(g, ZERO, step, edge)
        ends = [e for e in g.events() if P.pool_lock_op(e, 'unlock')]
        final = set()
        for e in ends:
            final |= {w for w in W.get(pos(e), ()) if _bit(w, 'queued') and not _bit(w, 'oom')}
        if not final:
            raise AnalysisBroken('%s: the pool-lock region that queues the item is never closed' % root.name)
        # the thread that is marked and the thread that is kicked are one element taken from the idle list
        thr = h.Items(g, rec=S.thr_link[-1][0], link=S.thr_link[-1][1])
        marks = [e for e in g.events() if P.kicked_mark(e)]
        posts = [e for e in g.events() if P.kick_post(e)]
        mo = [o for e in marks for o in thr.var_objects(e, h.base_var(e['lhs']))]
        po = [o for e in posts for o in thr.var_objects(e, h.arg_base(e, 0))]
        idle_elem = all(o is not None and o[2] is not None and o[2][1] == S.idle for o in mo + po)
        same = all(any(m is not None and p is not None and m[0] & p[0] for m in mo) for p in po)
        kicked = all((_bit(w, 'mark') and _bit(w, 'post')) for w in final if _bit(w, 'ne'))
        ctx.ob('R-C12d', '%s:idle-worker-kicked' % root.name, kicked and idle_elem and same and any(_bit(w, 'ne') for w in final), loc=root.loc,
               detail='idle list non-empty: an element of the idle list is marked kicked and the kick event of that same worker is posted '
                      'before the pool lock is released, on every path%s%s' % ('' if idle_elem else '; the worker is NOT taken from the idle list',
                                                                               '' if same else '; mark and post concern different workers'), fn=root.q)
        started = all(_bit(w, 'start') for w in final if _bit(w, 'em') and _bit(w, 'be'))
        ctx.ob('R-C12d', '%s:no-idle-below-max-starts-or-requests' % root.name, started and any(_bit(w, 'em') and _bit(w, 'be') for w in final), loc=root.loc,
               detail='no idle worker and the thread count below the maximum: a thread is started (owner) or requested (event of the owner) '
                      'before the pool lock is released', fn=root.q)
        decided = all(_bit(w, 'ne') or (_bit(w, 'em') and (_bit(w, 'be') or _bit(w, 'nb'))) for w in final)
        ctx.ob('R-C12d', '%s:decides-in-queueing-region' % root.name, decided, loc=adds[0]['loc'],
               detail='in the pool-lock region that queues the item, every path tests the idle list and, when it is empty, the thread count '
                      '(a worker cannot go idle or time out between the queueing and the decision)', fn=root.q)
        for e in marks + posts:
            k = ('post' if P.kick_post(e) else 'mark', e['loc'])
            under[k] = under.get(k, True) and S.lock in held(ls.get(pos(e)))
    for (what, loc), ok in sorted(under.items()):
        ctx.ob('R-C12d', 'submit:kick-under-lock:%s' % what, ok, loc=loc,
               detail='inside the pool-lock region that queued the item (a worker cannot go idle-timeout in between)')


def leftover(ctx):
    """A worker returns to its event loop only when no work is queued (head == tail sequence number established in its last
    pool-lock region, counters untouched since) or after posting its own kick."""
    prog = ctx.prog
    P = Preds(prog)
    S = P.S
    P.need('lock', 'kick', 'work_items')
    wk = pool_contexts(prog, work_site)
    if not wk:
        raise AnalysisBroken('worker: no root calls a work function and touches a pool')
    for root, g, sites in wk:
        # the worker's own record: locals that are copies of the handler's cookie parameter
        own = {p['name'] for p in root.params[:1]}
        grown = True
        while grown:
            grown = False
            for e in g.events():
                if e['ev'] == 'store' and e.get('op') == '=' and 'rhs' in e and h.varname(e['lhs']) and h.varname(e['rhs']) in own \
                        and h.varname(e['lhs']) not in own:
                    own.add(h.varname(e['lhs']))
                    grown = True
        def own_kick(e):
            return P.kick_post(e) and h.arg_base(e, 0) in own
        def step(e, w):
            posted, equal = w
            if own_kick(e):
                return [(True, equal)]
            if P.pool_lock_op(e, 'lock') or h.writes_key(e, S.seq_head) or h.writes_key(e, S.seq_tail) or P.pool_add(e):
                return [(posted, False)]
            return [w]
        def edge(blk, si, w):
            posted, equal = w
            for at in h.atoms_on(blk, si):
                rel = h.seq_order(at, S.seq_head, S.seq_tail)
                if rel is None:
                    # the queue itself found empty is the same witness (head == tail iff the queue is empty)
                    t = h.empty_test(at, S.work_items)
                    rel = {'empty': 'eq', 'nonempty': 'ne', None: None}[t]
                if rel == 'eq':
                    equal = True
                elif rel == 'ne':
                    if equal:
                        return None
                    equal = False
            return (posted, equal)
        W = h.worlds(g, (False, False), step, edge)
        ex = h.at_exit(g, W)
        ok = bool(ex) and all(p or q for (p, q) in ex)
        ctx.ob('R-C12d', 'worker:leftover-work-reposts-kick', ok, loc=sites[0]['loc'],
               detail='every return of the worker either established head == tail sequence number (or the queue empty) in its last pool-lock '
                      'region or posted the worker\'s own kick so that it is called again (no idle thread / no new thread case)', fn=root.q)


# ------------------------------------------------------------------------------------------------------------------
# R-C12e
# ------------------------------------------------------------------------------------------------------------------

def local(ctx):
    prog = ctx.prog
    P = Preds(prog)
    lc = pool_contexts(prog, work_site, pool=False)
    if not lc:
        raise AnalysisBroken('local handler: no root calls a work function without touching a pool')
    for root, g, ws in lc:
        it = h.Items(g)
        cs = [e for e in g.events() if completion_site(e)]
        if not cs:
            raise AnalysisBroken('local handler %s: completion call not found' % root.name)
        for loc, es in sorted(by_loc(ws).items()):
            objs = [o for e in es for o in it.callee_objects(e)]
            ok = bool(objs) and all(o is not None and o[1] == 'unlinked' for o in objs)
            ctx.ob('R-C12e', 'local:unlinked-first', ok, loc=loc,
                   detail='the item is unlinked, once, between its definition and the call of its work function (typestate: %s)'
                          % sorted({o[1] if o else 'unknown item' for o in objs}), fn=root.q)
        for loc, es in sorted(by_loc(cs).items()):
            objs = [o for e in es for o in it.callee_objects(e)]
            ok = bool(objs) and all(o is not None and o[1] == 'worked' for o in objs)
            ctx.ob('R-C12e', 'local:work-then-completion', ok, loc=loc,
                   detail='the completion is called on an item whose own work function has returned, once (typestate: %s)'
                          % sorted({o[1] if o else 'unknown item' for o in objs}), fn=root.q)
    P.need('localq', 'task')
    subs = [c for c in h.contexts(prog, P.local_add) if not c[0].static]
    if not subs:
        raise AnalysisBroken('local submit: no exported function reaches the link into the queue of the NULL pool')
    for root, g, adds in subs:
        if not any(P.task_reg(e) for e in g.events()):
            raise AnalysisBroken('local submit %s: registration of the local task not found' % root.name)
        # `the task is not registered` is what the emptiness of the local queue stands for (R-C12h): a test of it is the same knowledge
        def direct(at):
            return {'registered': 'nonempty', 'unregistered': 'empty'}.get(h.registered_test(at, P.S.task))
        untested, offedge, owing = kick_on_empty(g, P.S.localq, P.local_add, P.task_reg, None, known=direct)
        ctx.ob('R-C12e', '%s:task-on-empty-to-nonempty' % root.name, not untested and not offedge and not owing, loc=adds[0]['loc'],
               detail='the local task is registered exactly when the local queue is known empty (or the task itself known unregistered) at the add%s%s%s'
                      % ('; emptiness NOT known at the add' if untested else '', '; registered off the empty edge' if offedge else '',
                         '; empty queue but task NOT registered' if owing else ''), fn=root.q)


# ------------------------------------------------------------------------------------------------------------------
# R-C12h
# ------------------------------------------------------------------------------------------------------------------

def submit_decides_by_task_state(prog, P):
    """True when, in every exported root that links an item into the local queue, every registration of the local task is
    reached only over an edge that found the task itself unregistered (iv_task_registered(&task) == 0, task untouched and no
    user callback since)."""
    S = P.S
    subs = [c for c in h.contexts(prog, P.local_add) if not c[0].static]
    if not subs:
        raise AnalysisBroken('local submit: no exported function reaches the link into the queue of the NULL pool')
    for root, g, adds in subs:
        regs = [e for e in g.events() if P.task_reg(e)]
        if not regs:
            raise AnalysisBroken('local submit %s: registration of the local task not found' % root.name)
        def step(e, w):
            if P.task_reg(e):
                return ['R']
            if e['ev'] == 'call' and ('fnexpr' in e or (is_call(e, 'iv_task_unregister') and h.arg_chain(e, 0) == S.task)):
                return ['?']
            return [w]
        def edge(blk, si, w):
            for at in h.atoms_on(blk, si):
                t = h.registered_test(at, S.task)
                if t is not None:
                    k = 'R' if t == 'registered' else 'U'
                    if w != '?' and w != k:
                        return None
                    w = k
            return w
        W = h.worlds(g, '?', step, edge)
        if any(w != 'U' for e in regs for w in W.get(pos(e), ())):
            return False
    return True


AGREE = {'U?': 'task unregistered, local queue not known empty', 'UN': 'task unregistered, local queue non-empty',
         'UE': 'task unregistered, local queue empty', 'I': 'invariant holds', 'X': 'invariant broken'}


def local_agreement(ctx):
    """submit registers the drain task when it finds the local queue empty: that is right only while
    `queue empty <=> task not registered` (I) holds wherever user code -- which may submit -- runs.  The handler of the task is
    entered with the task unregistered (the loop takes a task off its list before calling it) and the queue in any state, so I
    is broken on entry; the handler has to establish it before its first callback and must not break it afterwards.
    World of the handler root: U? / UN / UE = task still unregistered and the local queue unknown / non-empty / empty; I = a
    callback ran while I held (nested submissions keep I, which side holds is unknown); X = broken.
      * U* -> UE: all elements of the local queue detached (steal / splice_init), or an edge that found it empty;
      * UE, I at a callback -> I; any other state at a callback or at the return is the violation;
      * in I: anything the handler itself takes off or puts on the local queue, or a registration of the task, breaks it
        (the queue may hold nested submissions whose registration is pending: emptied again, the next nested submission
        registers the registered task; refilled, the task may be registered twice); an edge that finds the queue empty gives UE;
      * UN and a registration of the task (a handler that re-schedules itself for the rest) -> I."""
    prog = ctx.prog
    P = Preds(prog)
    S = P.S
    P.need('localq', 'task')
    by_state = submit_decides_by_task_state(prog, P)
    def user_cb(e):
        return work_site(e) or completion_site(e)
    lc = pool_contexts(prog, user_cb, pool=False)
    if not lc:
        raise AnalysisBroken('local handler: no root runs work functions / completions without touching a pool')
    for root, g, sites in lc:
        it = h.Items(g)
        def queue_op(e):
            """None, 'detach' (local queue emptied), 'take' (an element unlinked that may be on the local queue), 'touch' (anything else)"""
            if e['ev'] != 'call' or e.get('callee') not in h.LIST_PRIMS:
                return None
            keys = [h.arg_chain(e, i) for i in range(len(e.get('args', [])))]
            if S.localq in keys:
                return 'detach' if (e['callee'] in h.DETACH and keys[0] == S.localq) else 'touch'
            if e['callee'] in h.DEL and e.get('args'):
                srcs = [o[2] if o is not None else h._src_of(e['args'][0]) for o in it.arg_objects(e)]
                if not srcs or any(src is None or src[1] == S.localq for src in srcs):
                    return 'take'
            return None
        def step(e, w):
            if w == 'X':
                return [w]
            if e['ev'] == 'call' and 'fnexpr' in e:
                return ['I' if w in ('UE', 'I') else 'X']
            if P.task_reg(e):
                return ['I' if w == 'UN' else 'X']
            q = queue_op(e)
            if q is None:
                return [w]
            if w == 'I':
                return ['X']
            if q == 'detach':
                return ['UE']
            if q == 'take':
                return ['UE' if w == 'UE' else 'U?']
            return ['U?']
        def edge(blk, si, w):
            for at in h.atoms_on(blk, si):
                t = h.empty_test(at, S.localq)
                if t == 'empty':
                    if w == 'UN':
                        return None
                    if w in ('U?', 'I'):
                        w = 'UE'
                elif t == 'nonempty':
                    if w == 'UE':
                        return None
                    if w == 'U?':
                        w = 'UN'
            return w
        W = h.worlds(g, 'U?', step, edge)
        how = ('submit decides from the registration state of the task itself: no agreement needed' if by_state else
               'submit decides from the emptiness of the local queue')
        for kind, pred in (('work', work_site), ('completion', completion_site)):
            es = [e for e in sites if pred(e)]
            if not es:
                raise AnalysisBroken('local handler %s: %s call not found' % (root.name, kind))
            st = sorted({w for e in es for w in W.get(pos(e), ())})
            bad = [e for e in es if any(w not in ('UE', 'I') for w in W.get(pos(e), ()))]
            ctx.ob('R-C12h', 'local:%s:queue-agrees-with-task-at-%s' % (root.name, kind), by_state or not bad, loc=(bad or es)[0]['loc'],
                   detail='%s; at the call of the %s function (it may submit to the NULL pool) `local queue empty <=> task not registered` '
                          'holds: the handler emptied the local queue before its first callback and took nothing off it since; states: %s'
                          % (how, kind, ', '.join('%s (%s)' % (x, AGREE[x]) for x in st) or 'unreachable'),
                   path=path_to(g, bad[0]) if (bad and not by_state) else None, fn=root.q)
        ex = sorted(h.at_exit(g, W))
        okx = bool(ex) and all(w in ('UE', 'I') for w in ex)
        ctx.ob('R-C12h', 'local:%s:queue-agrees-with-task-at-return' % root.name, by_state or okx, loc=root.loc,
               detail='%s; when the handler returns `local queue empty <=> task not registered` holds (the next submission decides on it); '
                      'states: %s' % (how, ', '.join('%s (%s)' % (x, AGREE[x]) for x in ex) or 'no return'), fn=root.q)


# ------------------------------------------------------------------------------------------------------------------
# R-C12g
# ------------------------------------------------------------------------------------------------------------------

TEARDOWN = {'freed': 'the pool record is freed', 'event': 'the event that delivers the completions is unregistered',
            'lock': 'the pool lock is destroyed'}


def done_queue_knowledge(g, P):
    """World (held, K): K is what the path knows about the done queue of the pool: 'E' found empty (a truth test of its
    emptiness, or all its elements detached) while the pool lock was held, '?' nothing, 'N' non-empty.  The knowledge outlives
    the release of the lock that ends the region in which it was obtained (that is the region the decision belongs to), and
    is dropped when the pool lock is taken again (a new region: the queue was open to the workers in between and the old
    answer does not belong to the new region), when a user callback runs (it may submit work, which ends up on the done queue)
    and when the queue is changed.  A test made without the lock proves nothing."""
    S = P.S
    def step(e, w):
        hd, K = w
        if P.pool_lock_op(e, 'lock'):
            return [(True, '?')]
        if P.pool_lock_op(e, 'unlock'):
            return [(False, K)]
        if e['ev'] == 'call' and 'fnexpr' in e:
            return [(hd, '?')]
        if P.done_add(e):
            return [(hd, 'N')]
        if e['ev'] == 'call' and e.get('callee') in h.LIST_PRIMS:
            keys = [h.arg_chain(e, i) for i in range(len(e.get('args', [])))]
            if S.work_done in keys:
                if e['callee'] in h.DETACH and keys[0] == S.work_done and hd:
                    return [(hd, 'E')]
                return [(hd, '?')]
        return [w]
    def edge(blk, si, w):
        hd, K = w
        if not hd:
            return w
        for at in h.atoms_on(blk, si):
            t = h.empty_test(at, S.work_done)
            if t is not None:
                k2 = 'E' if t == 'empty' else 'N'
                if K != '?' and K != k2:
                    return None
                K = k2
        return (hd, K)
    return h.worlds(g, (False, '?'), step, edge)


def teardown(ctx):
    """Every item whose work function ran gets its completion: the completions are delivered from the done queue by the
    handler of the pool event, so a pool that can hold such items (a published one: not an object allocated in the same
    context) may be released only when its done queue is known empty."""
    prog = ctx.prog
    P = Preds(prog)
    S = P.S
    P.need('lock', 'work_done', 'ev', 'priv')
    cs = []
    for root in h.module_roots(prog):
        g = h.context_of(prog, root)
        also = h.pool_pointers(g, S)
        fresh = h.fresh_objects(g)
        sites = [e for e in g.events() if h.teardown_kind(e, S, also) is not None and h.teardown_object(e) not in fresh]
        if sites:
            cs.append((root, g, sites, also))
    if not cs:
        raise AnalysisBroken('pool teardown: no root releases a published pool (free of the pool record, unregistration of the event '
                             'that delivers completions, destruction of the pool lock)')
    for root, g, sites, also in cs:
        W = done_queue_knowledge(g, P)
        for kind in sorted({h.teardown_kind(e, S, also) for e in sites}):
            es = [e for e in sites if h.teardown_kind(e, S, also) == kind]
            bad = [e for e in es if any(w[1] != 'E' for w in W.get(pos(e), ()))]
            know = sorted({w[1] for e in es for w in W.get(pos(e), ())})
            what = ', '.join(sorted({'%s(%s) at %s' % (e['callee'], canon(e['args'][0]), e['loc'].split('/')[-1]) for e in (bad or es)}))
            ctx.ob('R-C12g', '%s:done-queue-empty-at-teardown:%s' % (root.name, kind), not bad, loc=(bad or es)[0]['loc'],
                   detail='%s [%s] only when the done queue was found empty under the pool lock in the last pool-lock region, with nothing '
                          'queued and no user callback since: an item still on it has run its work function and would never get its '
                          'completion; knowledge about the done queue at the call (E empty, N non-empty, ? none): %s%s'
                          % (TEARDOWN[kind], what, know, '' if not bad else '; NOT known empty on every path'),
                   path=path_to(g, bad[0]) if bad else None, fn=root.q)


# ------------------------------------------------------------------------------------------------------------------
# R-C12i
# ------------------------------------------------------------------------------------------------------------------

def wrap_safe(ctx):
    """The sequence numbers are free-running counters of a fixed width: a pool that lives long enough wraps them, with head
    still below the wrap and tail already past it.  `All submitted items complete ... for all submission programs` needs every
    decision taken from two counter values (is there work for me up to my snapshot, is work left over) to be the same decision
    before, across and after the wrap.  Sites, by role: in every root of the iv_work code (helpers inlined, normalised) every
    branch condition and every relational expression that reads at least two counter values -- the members that play head / tail
    (h12.schema), locals that are copies of them, locals computed from them.  Each is *evaluated* (h12.wrap_safe) rather than
    matched: any spelling whose value depends only on the w-bit modular difference passes."""
    prog = ctx.prog
    P = Preds(prog)
    S = P.S
    P.need('seq_head', 'seq_tail')
    keys = (S.seq_head, S.seq_tail)
    workers = {c[0].q for c in pool_contexts(prog, work_site)}
    if not workers:
        raise AnalysisBroken('worker: no root calls a work function and touches a pool')
    for root in h.module_roots(prog):
        g = h.context_of(prog, root)
        sv = h.SeqValues(g, keys)
        width = h.counter_width(g, keys)
        res = {}
        for loc, x in h.seq_compare_sites(g, sv):
            try:
                v = h.wrap_safe(x, sv, width) if width else None
            except h.CUndecided as u:
                raise AnalysisBroken('%s: comparison of sequence numbers at %s cannot be evaluated: %s (%s)' % (root.name, loc, canon(x), u))
            if v is not None:
                res.setdefault(loc, []).append((x, v))
        if root.q in workers and not res:
            raise AnalysisBroken('worker %s: no test that compares the sequence numbers found (how far does it drain?)' % root.name)
        for loc, vs in sorted(res.items()):
            bad = [(x, v) for (x, v) in vs if not v[0]]
            x, v = (bad or vs)[0]
            ctx.ob('R-C12i', '%s:sequence-numbers-compared-wrap-safely' % root.name, not bad, loc=loc,
                   detail='`%s` (casts not shown), counters %d bits wide: %s' % (canon(x), width, v[1]), fn=root.q)
