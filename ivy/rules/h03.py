"""Helpers of C03: role-based anchors, branch facts with their expressions, a small
three-valued evaluator that decides what a set of branch facts implies about one
memory location, and the token abstraction of kernel entries.

Nothing here looks at a static function name, a local variable name or the text of
an expression: objects are identified by (record, field) steps and by the value the
base expression denotes (canon of the base, killed by `holding` when it is redefined).
"""
from ..core import (AnalysisBroken, Inliner, canon, strip, last_member, norm_cond, walk, lvalue_steps)
from ..analyses import holding, is_call
from .. import roles

FD = 'iv_fd_'
FD_RECORDS = ('iv_fd_', 'iv_fd')
# band encoding of the private header (MASKIN/MASKOUT/MASKERR): the specification of which
# readiness bit belongs to which handler; the same table is in c02 (R-C02d ties it to the kernel bits)
BANDS = {'handler_in': 1, 'handler_out': 2, 'handler_err': 4}
ORDER = ('handler_err', 'handler_in', 'handler_out')
WAITS = ('epoll_wait', 'epoll_pwait2', 'poll', 'ppoll')     # kernel API, not library names


# ---------------------------------------------------------------------------------------
# sites and contexts
# ---------------------------------------------------------------------------------------

def handler_field(e):
    """band handler field an indirect call goes through (after inlining and copy propagation the
    function expression is the access path even when the pointer was cached or passed to a helper)."""
    if e['ev'] != 'call' or 'fnexpr' not in e:
        return None
    lm = last_member(e['fnexpr'])
    if lm and lm[0] in FD_RECORDS and lm[1] in BANDS:
        return lm[1]
    return None


def stale_handler(g, e):
    """(band field, object canon) when the call goes through a variable that was loaded from a band
    handler field and is not a valid copy of it any more at the call (copy propagation would have put the
    field access there): a user callback or a store to the field lies in between."""
    if e['ev'] != 'call' or 'fnexpr' not in e:
        return None
    v = strip(e['fnexpr'])
    if not (isinstance(v, dict) and v.get('k') == 'var' and v.get('vk') in ('local', 'param')):
        return None
    for d in g.events():
        if d['ev'] == 'store' and 'rhs' in d and redefines(d, v['name']):
            m = strip(d['rhs'])
            lm = last_member(m)
            if lm and lm[0] in FD_RECORDS and lm[1] in BANDS:
                return (lm[1], canon(m['base']))
    return None


def site_object(cs):
    """(base expression, canon of it) of the descriptor whose handler the site calls"""
    m = strip(cs['fnexpr'])
    return m['base'], canon(m['base'])


def _mentions_handler(f):
    for b in f.blocks.values():
        for x in walk(b.events):
            if x.get('k') == 'member' and x.get('record') in FD_RECORDS and x.get('field') in BANDS:
                return True
        if b.term and b.term.get('cond') is not None:
            for x in walk(b.term['cond']):
                if x.get('k') == 'member' and x.get('record') in FD_RECORDS and x.get('field') in BANDS:
                    return True
    return False


def root_map(prog):
    """roles.roots plus the functions defined in headers (static inline operations shared by several
    units are operations in their own right, e.g. a make-ready moved to the private header)"""
    from ..core import PRIMITIVES
    out = {r.q: r for r in roles.roots(prog)}
    for f in prog.all_funcs():
        if f.blocks and not f.file.endswith('.c') and f.name not in PRIMITIVES:
            out.setdefault(f.q, f)
    return out


def nearest_roots(prog, f, rts=None):
    """{q: Func}: the first functions with external linkage / taken address met when walking up the
    direct callers of f (f itself when it is one).  The inlined nearest root is the smallest
    context in which every path through f is complete; what a must-analysis proves there holds
    in every wider context."""
    rts = root_map(prog) if rts is None else rts
    out, seen, work = {}, set(), [f]
    while work:
        x = work.pop()
        if x.q in seen:
            continue
        seen.add(x.q)
        if x.q in rts:
            out[x.q] = x
            continue
        for (c, e) in prog.callers_of(x.name):
            u = prog.unit_of(c)
            t = prog.resolve(u, e['callee']) if u else None
            if t is not None and t.q != x.q:
                continue
            work.append(c)
    return out


def inline(prog, f, **kw):
    """Inliner(prog, **kw).inline(f) with one more normalisation: a callee parameter that received a
    non-substitutable argument (`h@3 = fd->handler_err` for `run_band(fd, MASKERR, fd->handler_err)`) is a
    local of the inlined function, so copy propagation may replace its reads by the argument while that is
    still valid.  (core.copy_propagate only rewrites variables of kind 'local'; the inliner keeps kind
    'param' on renamed parameters.)  Likewise the reads of a helper's return temporary (`fd = $ret2` after
    `$ret2 = ev->data.ptr`) are wrapped in `load` nodes so that the value the helper returned is propagated."""
    from ..core import copy_propagate, subst
    g = Inliner(prog, **kw).inline(f)
    own = {p['name'] for p in f.params}
    n = 0
    for blk in g.blocks.values():
        for x in walk(blk.events):
            if x.get('k') == 'var' and x.get('vk') == 'param' and x['name'] not in own and '@' in x['name']:
                x['vk'] = 'local'
                n += 1
        if blk.term and blk.term.get('cond') is not None:
            for x in walk(blk.term['cond']):
                if x.get('k') == 'var' and x.get('vk') == 'param' and x['name'] not in own and '@' in x['name']:
                    x['vk'] = 'local'
                    n += 1
    # reads of return temporaries are bare variable nodes; copy propagation replaces `load` nodes only
    def wrap(nd):
        if nd.get('k') == 'load' and isinstance(nd.get('e'), dict) and nd['e'].get('k') == 'var':
            return dict(nd)
        if nd.get('k') == 'var' and nd['name'].startswith('$ret'):
            cnt[0] += 1
            return {'k': 'load', 'e': dict(nd)}
        return None
    cnt = [0]
    for blk in g.blocks.values():
        for e in blk.events:
            for key in ('rhs', 'args', 'fnexpr', 'value', 'init'):
                if key in e:
                    e[key] = subst(e[key], wrap)
        if blk.term and blk.term.get('cond') is not None:
            blk.term = dict(blk.term, cond=subst(blk.term['cond'], wrap))
    if n or cnt[0]:
        try:
            copy_propagate(g)
        except AnalysisBroken:
            pass
    return g


def inlined(prog, f):
    """inline(prog, f), cached on the program object (roles.inlined keys its cache by id(prog), which is
    reused when several programs are loaded in one process)"""
    cache = prog.__dict__.setdefault('_h03_inlined', {})
    if f.q not in cache:
        cache[f.q] = inline(prog, f)
    return cache[f.q]


def dispatch_contexts(prog):
    """[(root, inlined root, [handler call sites])]: every smallest root context that contains
    a call through a band handler of a descriptor.  Candidates are all functions that mention
    a handler field (the pointer may reach the call through a local or a helper parameter)."""
    rts = root_map(prog)
    need = {}
    for f in sorted(prog.all_funcs(), key=lambda f: f.q):
        if f.blocks and _mentions_handler(f):
            need.update(nearest_roots(prog, f, rts))
    out = []
    for q in sorted(need):
        g = inlined(prog, need[q])
        sites = [e for e in g.events() if handler_field(e) or stale_handler(g, e)]
        if sites:
            out.append((need[q], g, sites))
    return out


def list_member_arg(e, i=0):
    """(record, field), canon of the owning object for an argument of the form &OBJ->field"""
    a = strip(e['args'][i]) if len(e.get('args', [])) > i else None
    if isinstance(a, dict) and a.get('k') == 'addr':
        m = strip(a['e'])
        if isinstance(m, dict) and m.get('k') == 'member':
            return (m.get('record'), m['field']), canon(m['base'])
    return None, None


def is_link(e, key=(FD, 'list_active')):
    return is_call(e, ('iv_list_add', 'iv_list_add_tail')) and list_member_arg(e)[0] == key


def is_unlink(e, key=(FD, 'list_active')):
    return is_call(e, ('iv_list_del', 'iv_list_del_init')) and list_member_arg(e)[0] == key


def is_unlink_call(e):
    return is_call(e, ('iv_list_del', 'iv_list_del_init'))


def container_node(e, key):
    """for `V = container_of(N, record, field)` with (record, field) == key: (canon of N, variables N reads)"""
    if e['ev'] != 'store' or e.get('op') != '=' or 'rhs' not in e:
        return None
    r = strip(e['rhs'])
    if isinstance(r, dict) and r.get('k') == 'container_of' and (r.get('record'), r.get('member')) == key:
        return (canon(r['e']), frozenset(x['name'] for x in walk(r['e']) if x.get('k') == 'var'))
    return None


def may_change_lists(e, names=frozenset()):
    """the event may change which node a list-node expression denotes (any list primitive, any store to a
    list pointer or to a plain variable, any call into unknown code)"""
    if e['ev'] == 'store':
        if any(st[0] == 'iv_list_head' for st in lvalue_steps(e['lhs'])):
            return True
        l = strip(e['lhs'])
        if isinstance(l, dict) and l.get('k') == 'var':
            return l['name'] in names
        return isinstance(l, dict) and l.get('k') in ('deref', 'index')
    if e['ev'] == 'decl':
        return e.get('name') in names
    if e['ev'] == 'call':
        return e.get('callee') != 'iv_list_empty'
    return False


def writes_field(e, rec, field):
    return e['ev'] == 'store' and (rec, field) in lvalue_steps(e['lhs'])


def redefines(e, name):
    if e['ev'] == 'decl':
        return e.get('name') == name
    if e['ev'] == 'store':
        l = strip(e['lhs'])
        return isinstance(l, dict) and l.get('k') == 'var' and l['name'] == name
    return False


# ---------------------------------------------------------------------------------------
# branch facts with expressions
# ---------------------------------------------------------------------------------------

def cond_table(g):
    """{(op, lhs canon, rhs canon): (lhs expr, rhs expr)} of every conditional edge of g"""
    tab = {}
    for blk in g.blocks.values():
        if not blk.term or len(blk.succ) != 2 or blk.term.get('cond') is None:
            continue
        if blk.term.get('cls') in ('SwitchStmt', 'MethodDispatch'):
            continue
        for pol in (True, False):
            for (op, lc, rc, l, r) in norm_cond(blk.term['cond'], pol):
                if op != 'const':
                    tab.setdefault((op, lc, rc), (l, r))
    return tab


def facts(g):
    """at(event) -> [(op, lhs expr, rhs expr)]: branch facts that hold on every path to the event
    and that nothing executed since (store to a location they read, user callback) may have
    invalidated (`holding` with callbacks killing everything read through memory)."""
    hd = holding(g, user_call_kills=True)
    tab = cond_table(g)

    def at(e):
        out = []
        for a in hd.get((e['_b'], e['_i']), frozenset()):
            lr = tab.get((a[0], a[1], a[2]))
            if lr is not None:
                out.append((a[0], lr[0], lr[1]))
        return out
    return at


_CMP = {'==': lambda a, b: a == b, '!=': lambda a, b: a != b, '<': lambda a, b: a < b, '>': lambda a, b: a > b,
        '<=': lambda a, b: a <= b, '>=': lambda a, b: a >= b}
_ARITH = {'&': lambda a, b: a & b, '|': lambda a, b: a | b, '^': lambda a, b: a ^ b, '+': lambda a, b: a + b,
          '-': lambda a, b: a - b, '*': lambda a, b: a * b, '<<': lambda a, b: a << b if 0 <= b < 32 else None,
          '>>': lambda a, b: a >> b if 0 <= b < 32 else None}


def ev3(x, leaf):
    """Value of an expression when the locations `leaf` knows have the values it returns;
    None = depends on something else."""
    x = strip(x)
    if not isinstance(x, dict):
        return None
    k = x.get('k')
    if k == 'int':
        return x['v']
    if k == 'null':
        return 0
    if k == 'paren':
        return ev3(x.get('e'), leaf)
    v = leaf(x)
    if v is not None:
        return v
    if k == 'un':
        a = ev3(x['e'], leaf)
        if a is None:
            return None
        return {'!': int(not a), '~': ~a, '-': -a, '+': a}.get(x['op'])
    if k == 'bin':
        op = x['op']
        a, b = ev3(x['l'], leaf), ev3(x['r'], leaf)
        if op == '&&':
            if a == 0 or b == 0:
                return 0
            return None if a is None or b is None else 1
        if op == '||':
            if (a is not None and a != 0) or (b is not None and b != 0):
                return 1
            return None if a is None or b is None else 0
        if op == '&' and (a == 0 or b == 0):
            return 0
        if a is None or b is None:
            return None
        if op in _CMP:
            return int(_CMP[op](a, b))
        if op in _ARITH:
            return _ARITH[op](a, b)
        return None
    if k == 'cond':
        c = ev3(x['c'], leaf)
        if c is None:
            a, b = ev3(x['a'], leaf), ev3(x['b'], leaf)
            return a if a == b else None
        return ev3(x['a'] if c else x['b'], leaf)
    return None


def refuted(atoms, leaf):
    """some fact that holds is false under this valuation (so the valuation is impossible here)"""
    for (op, l, r) in atoms:
        a, b = ev3(l, leaf), ev3(r, leaf)
        if a is None or b is None or op not in _CMP:
            continue
        if not _CMP[op](a, b):
            return True
    return False


def field_leaf(obj, values):
    """leaf valuation: OBJ->field has values[field] for the object denoted by canon `obj`"""
    def leaf(x):
        if x.get('k') == 'member' and x.get('record') in FD_RECORDS and x.get('field') in values \
                and canon(x['base']) == obj:
            return values[x['field']]
        return None
    return leaf


# ---------------------------------------------------------------------------------------
# kernel tokens
# ---------------------------------------------------------------------------------------

def kernel_entry_ptr(x):
    """x is the user-data pointer of a kernel event entry (epoll_event.data.ptr)"""
    m = strip(x)
    return isinstance(m, dict) and m.get('k') == 'member' and (m.get('record'), m.get('field')) == ('epoll_data', 'ptr')


def abstract_token(x):
    """A value stored as kernel user data with the per-thread state pointer abstracted:
    ('state', ()) the state pointer itself, ('state', ((rec, field), ...)) the address of a member
    path inside the state, ('fd',) a descriptor, ('expr', text) anything else."""
    x = strip(x)
    if not isinstance(x, dict):
        return ('expr', str(x))
    if x.get('k') == 'var' and x.get('ptr'):
        if x.get('record') == 'iv_state':
            return ('state', ())
        if x.get('record') in FD_RECORDS:
            return ('fd',)
    if x.get('k') == 'addr':
        steps = []
        m = strip(x['e'])
        while isinstance(m, dict) and m.get('k') == 'member':
            steps.append((m.get('record'), m['field']))
            b = strip(m['base'])
            if m['arrow']:
                if isinstance(b, dict) and b.get('k') == 'var' and b.get('record') == 'iv_state' and b.get('ptr'):
                    return ('state', tuple(reversed(steps)))
                break
            m = b
    return ('expr', canon(x))


def stored_tokens(prog):
    """{abstract token: [functions that decide it]} over every store to the user-data pointer of a kernel
    entry; a value that is an untyped parameter of the storing function is followed to the arguments of its
    callers (a shared `register this token` helper)."""
    def resolve(f, x, depth):
        v = strip(x)
        if isinstance(v, dict) and v.get('k') == 'var' and v.get('vk') == 'param' and abstract_token(v)[0] == 'expr' and depth < 4:
            idx = [i for i, p in enumerate(f.params) if p['name'] == v['name']]
            callers = []
            for (c, e) in prog.callers_of(f.name):
                u = prog.unit_of(c)
                t = prog.resolve(u, e['callee']) if u else None
                if t is None or t.q == f.q:
                    callers.append((c, e))
            if idx and callers:
                for (c, e) in callers:
                    if len(e.get('args', [])) > idx[0]:
                        yield from resolve(c, e['args'][idx[0]], depth + 1)
                return
        yield (abstract_token(x), f)
    toks = {}
    for f in sorted(prog.all_funcs(), key=lambda f: f.q):
        for e in f.events():
            if e['ev'] == 'store' and e.get('op') == '=' and 'rhs' in e and kernel_entry_ptr(e['lhs']):
                for (t, fn) in resolve(f, e['rhs'], 0):
                    toks.setdefault(t, []).append(fn)
    return toks


def token_name(tok):
    if tok[0] == 'state':
        return 'state' if not tok[1] else '&state->' + '.'.join(f for _, f in tok[1])
    return tok[-1]


# ---------------------------------------------------------------------------------------
# success of the kernel wait
# ---------------------------------------------------------------------------------------

def wait_succeeded(g):
    """{(block, index): (variables that hold the result of the last kernel wait, proven)}: proven = since the
    last kernel wait a branch was taken whose condition is false when that wait returned -1.  Formulated on the
    edges passed (not on facts still holding) because an inner declaration may shadow the result variable."""
    def derived(rhs, vars_):
        r = strip(rhs)
        if isinstance(r, dict) and r.get('k') == 'call' and r.get('callee') in WAITS:
            return 'wait'
        if isinstance(r, dict) and r.get('k') == 'var' and r['name'] in vars_:
            return 'copy'
        return None

    def tr(e, S):
        vars_, proven = S
        if e['ev'] == 'call' and e.get('callee') in WAITS:
            return (frozenset(), False)
        if e['ev'] == 'store':
            l = strip(e['lhs'])
            if isinstance(l, dict) and l.get('k') == 'var':
                d = derived(e.get('rhs'), vars_) if e.get('op') == '=' and 'rhs' in e else None
                if d == 'wait':
                    return (frozenset({l['name']}), False)
                if d == 'copy':
                    return (vars_ | {l['name']}, proven)
                return (vars_ - {l['name']}, proven)
        elif e['ev'] == 'decl':
            return (vars_ - {e.get('name')}, proven)
        return S

    # loop counters: locals that only ever receive non-negative constants and increments
    cnt, notcnt = set(), set()
    for e in g.events():
        if e['ev'] == 'store':
            l = strip(e['lhs'])
            if isinstance(l, dict) and l.get('k') == 'var':
                c = const_value(e['rhs']) if 'rhs' in e else None
                if (e.get('op') == '=' and c is not None and c >= 0) or e.get('op') == '++' or (e.get('op') == '+=' and c is not None and c > 0):
                    cnt.add(l['name'])
                else:
                    notcnt.add(l['name'])
        for x in walk(e):
            if x.get('k') == 'addr':
                v = strip(x['e'])
                if isinstance(v, dict) and v.get('k') == 'var':
                    notcnt.add(v['name'])
            if x.get('k') in ('incdec', 'assign'):
                v = strip(x.get('e') or x.get('l'))
                if isinstance(v, dict) and v.get('k') == 'var':
                    notcnt.add(v['name'])
    cnt -= notcnt

    def edge(blk, si, S):
        vars_, proven = S
        if proven or not vars_ or not blk.term or blk.term.get('cond') is None or len(blk.succ) != 2:
            return S
        if blk.term.get('cls') in ('SwitchStmt', 'MethodDispatch'):
            return S
        atoms = [(op, l, r) for (op, lc, rc, l, r) in norm_cond(blk.term['cond'], si == 0) if op != 'const']
        # only conditions about the wait result count; a non-negative counter compared with it is tried with samples
        atoms = [a for a in atoms if any(x.get('k') == 'var' and x['name'] in vars_ for x in walk([a[1], a[2]]))]
        ok = bool(atoms)
        for sample in (0, 1, 2, 2 ** 31 - 1):
            leaf = lambda x, sample=sample: (-1 if x['name'] in vars_ else sample if x['name'] in cnt else None) if x.get('k') == 'var' else None
            if not refuted(atoms, leaf):
                ok = False
        return (vars_, True) if ok else S

    def join(a, b):
        return (a[0] & b[0], a[1] and b[1])
    from ..core import forward
    _, ev_in = forward(g, (frozenset(), False), tr, join, edge=edge)
    return ev_in


# ---------------------------------------------------------------------------------------
# which descriptor variables denote an object that has left the active batch
# ---------------------------------------------------------------------------------------

def _plain_var(x):
    x = strip(x)
    return x['name'] if isinstance(x, dict) and x.get('k') == 'var' else None


def left_batch(g, key=(FD, 'list_active')):
    """{(block, index): frozenset of variable names}: must-analysis of "since its last definition the
    object this pointer variable denotes was unlinked from the batch (and not linked again)".
    The fact follows the value through plain copies (`fd = $ret1`, `cur@2 = fd`: a helper that pops the
    head and returns it, a helper that receives it) and holds vacuously for a NULL pointer; an unlink through
    the list node N counts for V when V == container_of(N, list_active) and no list operation lies in between."""
    def drop_var(S, v):
        return frozenset(it for it in S if not ((it[0] == 'U' and it[1] == v) or (it[0] == 'N' and (it[1] == v or v in it[3]))))

    def tr(e, S):
        if e['ev'] == 'decl':
            return drop_var(S, e.get('name'))
        if e['ev'] == 'store':
            v = _plain_var(e['lhs'])
            if v is not None:
                before = S
                S = drop_var(S, v)
                if e.get('op') == '=' and 'rhs' in e:
                    node = container_node(e, key)
                    w = _plain_var(e['rhs'])
                    if node is not None:
                        S = S | {('N', v, node[0], node[1])}
                    elif is_null_value(e['rhs']):
                        S = S | {('U', v)}
                    elif w is not None and ('U', w) in before and w != v:
                        S = S | {('U', v)}
                return S
            if any(it[0] == 'N' for it in S) and may_change_lists(e):
                return frozenset(it for it in S if it[0] != 'N')
            return S
        if is_unlink_call(e):
            k, o = list_member_arg(e)
            add = set()
            if k == key:
                m = strip(strip(e['args'][0])['e'])
                v = _plain_var(m['base'])
                if v is not None:
                    add.add(('U', v))
            a0 = canon(e['args'][0])
            for it in S:
                if it[0] == 'N' and it[2] == a0:
                    add.add(('U', it[1]))
            return frozenset(it for it in S if it[0] != 'N') | add
        if is_link(e):
            k, o = list_member_arg(e)
            m = strip(strip(e['args'][0])['e'])
            v = _plain_var(m['base'])
            return frozenset(it for it in S if it[0] != 'N' and not (it[0] == 'U' and (v is None or it[1] == v)))
        if e['ev'] == 'call' and any(it[0] == 'N' for it in S) and may_change_lists(e):
            return frozenset(it for it in S if it[0] != 'N')
        return S
    from ..core import forward
    _, ev_in = forward(g, frozenset(), tr, lambda a, b: a & b)
    return {k: frozenset(it[1] for it in S if it[0] == 'U') for k, S in ev_in.items()}


def is_null_value(x):
    x = strip(x)
    return isinstance(x, dict) and (x.get('k') == 'null' or (x.get('k') == 'int' and x['v'] == 0))


def const_value(x):
    """integer a right-hand side certainly evaluates to: a literal, or a chained assignment of one"""
    x = strip(x)
    while isinstance(x, dict) and x.get('k') in ('assign', 'paren'):
        if x.get('k') == 'assign':
            if x.get('op') != '=':
                return None
            x = strip(x['r'])
        else:
            x = strip(x['e'])
    if isinstance(x, dict) and x.get('k') == 'int':
        return x['v']
    if isinstance(x, dict) and x.get('k') == 'null':
        return 0
    return None


# ---------------------------------------------------------------------------------------
# stale-after-callback (local variant of analyses.stale_after_callback: the marker test is recognised
# with either operand order)
# ---------------------------------------------------------------------------------------

def stale_after_callback(fn, is_callback):
    from ..analyses import USER_OBJECT_RECORDS, derefs_by_event
    from ..core import forward
    objvars = {}
    for e in fn.events():
        for x in walk(e):
            if x.get('k') == 'var' and x.get('vk') in ('local', 'param') and x.get('ptr') \
                    and x.get('record') in USER_OBJECT_RECORDS:
                objvars[x['name']] = x['record']
        if e['ev'] == 'decl' and e.get('ptr') and e.get('record') in USER_OBJECT_RECORDS:
            objvars[e['name']] = e['record']
    for p in fn.params:
        if p.get('ptr') and p.get('record') in USER_OBJECT_RECORDS:
            objvars[p['name']] = p['record']
    markers = {}      # canon(M) -> var for every `M = v` the function executes
    for e in fn.events():
        if e['ev'] == 'store' and e.get('op') == '=' and 'rhs' in e:
            r, l = strip(e['rhs']), strip(e['lhs'])
            if isinstance(r, dict) and r.get('k') == 'var' and r['name'] in objvars and l.get('k') == 'member':
                markers[canon(e['lhs'])] = r['name']
            if isinstance(r, dict) and r.get('k') == 'addr':
                v = strip(r['e'])
                if isinstance(v, dict) and v.get('k') == 'var' and v['name'] in objvars:
                    markers[v['name']] = v['name']

    def transfer(e, S):
        if e['ev'] == 'store':
            l = strip(e['lhs'])
            if l.get('k') == 'var' and any(x[0] == l['name'] for x in S):
                S = frozenset(x for x in S if x[0] != l['name'])
        elif e['ev'] == 'decl':
            if any(x[0] == e['name'] for x in S):
                S = frozenset(x for x in S if x[0] != e['name'])
        elif e['ev'] == 'call':
            if is_callback(e):
                S = S | frozenset((v, e.get('loc')) for v in objvars)
        return S

    def edge(blk, si, S):
        if not S or not blk.term or blk.term.get('cond') is None or len(blk.succ) != 2:
            return S
        if blk.term.get('cls') in ('SwitchStmt', 'MethodDispatch'):
            return S
        for (op, lc, rc, l, r) in norm_cond(blk.term['cond'], si == 0):
            v = None
            if op == '!=' and rc == '0' and lc in markers:
                v = markers[lc]
            elif op == '==' and lc in markers and rc == markers[lc]:
                v = markers[lc]
            elif op == '==' and rc in markers and lc == markers[rc]:
                v = markers[rc]
            if v is not None:
                S = frozenset(x for x in S if x[0] != v)
        return S

    _, ev_in = forward(fn, frozenset(), transfer, lambda a, b: a | b, edge=edge)
    reports = []
    for b, blk in fn.blocks.items():
        for i, e in enumerate(blk.events):
            S = ev_in.get((b, i))
            if not S:
                continue
            names = {x[0]: x[1] for x in S}
            for (v, acc) in derefs_by_event(e):
                if v['name'] in names:
                    reports.append((e, v['name'], acc, names[v['name']]))
    return reports, objvars, markers
