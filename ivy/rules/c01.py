"""C01 — no callback and no memory access after an unregister call returns.

Decided statically: the four disciplines that make the guarantee hold in this
code base (stale-after-callback, unlink-before-call for one-shot objects,
unregister reaches every holder, no callback while a kernel batch is live).
Not decided: sufficiency over all histories and kernel behaviours.

Formulation (see REPORT-C01.md): callback sites are judged in the library's
roots (exported functions, installed handlers, method slots) with helpers
inlined, and aggregated per source location; objects, list nodes and arrays are
identified by type ((record, field)) and by the definitions of the locals that
name them, never by the spelling of an expression or the name of a static helper.
"""
from ..core import (lvalue_root, AnalysisBroken, canon, strip, last_member, relpath, norm_cond, walk, forward, lvalue_steps)
from ..analyses import (is_call, path_to, describe, exits_of, callback_kind, stale_after_callback, USER_OBJECT_RECORDS,
                        must_pass_from_block)
from . import h01
from .h01 import norm_rec

ONE_SHOT = {  # callback kind -> (record, link field, extra store required before the call)
    'task': ('iv_task_', 'list', None),
    'timer': ('iv_timer_', 'list_expired', ('iv_timer_', 'index', '-1')),
    'event': ('iv_event', 'list', None),
}

UNREGISTER = {
    'iv_fd_': 'iv_fd_unregister', 'iv_task_': 'iv_task_unregister', 'iv_timer_': 'iv_timer_unregister',
    'iv_event': 'iv_event_unregister', 'iv_event_raw': 'iv_event_raw_unregister', 'iv_signal': 'iv_signal_unregister',
    'iv_wait_interest': 'iv_wait_interest_unregister', 'iv_inotify': 'iv_inotify_unregister',
    'iv_inotify_watch': 'iv_inotify_watch_unregister', 'iv_fd': 'iv_fd_unregister',
}

# holder signature -> how the kind's unregister must undo it (confirmed by reading)
HOLDERS = {
    ('list', 'iv_fd_', 'list_active'): dict(check='unlinked'),
    ('list', 'iv_fd_', 'list_notify'): dict(check='unlinked', methods='deferring'),
    ('list', 'iv_task_', 'list'): dict(check='unlinked'),
    ('list', 'iv_event', 'list'): dict(check='unlinked', lock='iv_state.event_list_mutex'),
    ('list', 'iv_timer_', 'list_expired'): dict(check='unlinked', when=(('iv_timer_', 'index'), '==', 0),
                                                why='a timer is in the expired batch iff index == 0'),
    ('list', 'iv_wait_interest', 'events_pending'): dict(check='unlinked', why='queued status records are purged'),
    ('list', 'iv_work_item', 'list'): dict(check='exempt', why='work items have no unregister call; they stay owned by the '
                                                              'library from submit until their completion is entered (C12)'),
    ('tree', 'iv_inotify_watch', 'an'): dict(check='tree'),
    ('tree', 'iv_signal', 'an'): dict(check='tree'),
    ('tree', 'iv_wait_interest', 'avl_node'): dict(check='tree', unless=('iv_wait_interest', 'flags'),
                                                   why='already removed by the reaper when the dead flag is set (C11)'),
    ('marker', 'iv_fd_', 'iv_state.handled_fd'): dict(check='marker'),
    ('marker', 'iv_wait_interest', 'iv_wait_thr_info.handled_wait_interest'): dict(check='marker'),
    ('slot', 'iv_fd_', 'poll.fds[]'): dict(check='poll-slot', methods='poll', free=-1),
    ('slot', 'iv_timer_', 'heap'): dict(check='heap-slot', index=('iv_timer_', 'index'), free=-1, batch=0),
    ('kernel', 'iv_fd_', 'epoll_event.data.ptr'): dict(check='epoll-sync', methods='deferring'),
    ('pub', 'iv_inotify', 'term'): dict(check='exempt', why='address of the dispatcher\'s local instance pointer; unregister '
                                                           'nulls through it (checked by C20 R-C20c and C18 R-C18f)'),
    ('cookie', 'iv_event_raw', 'event_rfd'): dict(check='sub', sub='iv_fd_unregister'),
    ('cookie', 'iv_inotify', 'fd'): dict(check='sub', sub='iv_fd_unregister'),
    ('cookie', 'iv_signal', 'ev'): dict(check='sub', sub='iv_event_raw_unregister'),
    ('cookie', 'iv_wait_interest', 'ev'): dict(check='sub', sub='iv_event_unregister'),
    ('parent', 'iv_popen_request', 'iv_popen_running_child.parent'): dict(check='exempt', why='popen close detaches the record (C19 R-C19d)'),
}

# what an array/heap slot holding a pointer to an object of that kind is called in HOLDERS
SLOT_NAME = {'iv_fd_': 'poll.fds[]', 'iv_timer_': 'heap'}
FD_SLOT = ('slot', 'iv_fd_', 'poll.fds[]')

N_CALLBACK_FIELDS = 12      # fd in/out/err, task, timer, event, raw event, signal, wait, inotify watch, work, completion

WAIT_PRIMITIVES = {'epoll_wait': 1, 'epoll_pwait2': 1, 'epoll_pwait': 1, 'poll': 0, 'ppoll': 0}   # name -> index of the array argument


def is_cb(e):
    k = callback_kind(e)
    return k[1] if k and k[0] == 'callback' else None


def objrec(x, prog=None, f=None):
    """kind of user object the pointer value x designates: by type (a pointer variable, a pointer-valued member,
    the iv_container_of / iv_list_entry expression that yields the object; public twins normalised), and for an
    untyped pointer (`void *ptr` handed to a helper) by what flows into it (h01.value_records)"""
    if prog is not None and f is not None:
        recs = h01.value_records(prog, f, x, USER_OBJECT_RECORDS)
        return sorted(recs)[0] if recs else None
    x = strip(x)
    if isinstance(x, dict) and x.get('k') == 'var' and x.get('ptr') and x.get('record') in USER_OBJECT_RECORDS:
        return norm_rec(x['record'])
    if isinstance(x, dict) and x.get('k') == 'container_of' and x.get('record') in USER_OBJECT_RECORDS:
        return norm_rec(x['record'])
    return None


LIST_MOVE = ('__iv_list_steal_elements', 'iv_list_splice', 'iv_list_splice_tail', 'iv_list_splice_init', 'iv_list_splice_tail_init')


def discover_holders(prog):
    """Every place where the library keeps a pointer to (or into) a user object beyond the running call:
       list  : a node embedded in the object is linked into a list, or library records are linked onto / moved off a
               list head embedded in the object;
       tree  : a node embedded in the object is inserted into a tree;
       store : the object's address (by type, or by value flow through an untyped helper parameter) is stored into
               memory that is not a local of an active call: a global, a field, an array / heap slot, the kernel's
               epoll_data, a sub-object's cookie, a marker field;
       pub   : the address of a local that holds the object is stored into a field."""
    c = getattr(prog, '_c01_holders', None)
    if c is not None:
        return c
    found = {}
    for f in sorted(prog.all_funcs(), key=lambda f: f.q):
        for e in f.events():
            o = h01.list_op_member(f, e)
            if o is not None and o[0] == 'add' and o[1] and o[1][0] in USER_OBJECT_RECORDS:
                found.setdefault(('list', o[1][0], o[1][1]), []).append((f, e))
            if o is not None and o[0] == 'add' and e['ev'] == 'call' and len(e.get('args', [])) > 1:
                hm = h01.arg_member(f, e, 1)         # the list head lives in the user object
                if hm and hm[0] in USER_OBJECT_RECORDS:
                    found.setdefault(('list', hm[0], hm[1]), []).append((f, e))
            if e['ev'] == 'call' and (e.get('callee') == 'iv_avl_tree_insert' or e.get('callee') in LIST_MOVE):
                ai = 1 if e['callee'] == 'iv_avl_tree_insert' else 0
                lm = h01.arg_member(f, e, ai)
                if lm and lm[0] in USER_OBJECT_RECORDS:
                    kind = 'tree' if e['callee'] == 'iv_avl_tree_insert' else 'list'
                    found.setdefault((kind, lm[0], lm[1]), []).append((f, e))
            if e['ev'] == 'store' and e.get('op') == '=' and 'rhs' in e:
                l = strip(e['lhs'])
                if not isinstance(l, dict):
                    continue
                if l.get('k') == 'deref':
                    # `*p = obj` where p always is the address of one member (`slot = &st->marker`, or the parameter of a
                    # static helper that is handed such an address): a store into that member, not into an array slot
                    t = h01.pointee_lvalue(prog, f, l['e'])
                    if t is not None:
                        e = dict(e, lhs=t)
                        l = t
                if l.get('k') == 'var':
                    if l.get('vk') in ('global', 'staticlocal'):
                        rec = objrec(e['rhs'], prog, f)
                        if rec:
                            found.setdefault(('store', rec, l['name']), []).append((f, e))
                    continue
                rec = objrec(e['rhs'], prog, f)
                if rec:
                    steps = lvalue_steps(e['lhs'])
                    lm = last_member(e['lhs'])
                    if lm and lm[1] == 'cookie':
                        # X->SUB.cookie = X : the embedded sub-object points back at its container
                        b = strip(l['base']) if l.get('k') == 'member' else None
                        sub = None
                        if isinstance(b, dict) and b.get('k') == 'member':
                            sub = b['field']
                        elif isinstance(b, dict) and l.get('arrow'):
                            lm2 = h01.member_of_ptr(f, b)     # sub = &X->SUB; sub->cookie = X
                            if lm2 and norm_rec(lm2[0]) == rec:
                                sub = lm2[1]
                        if sub is not None:
                            found.setdefault(('cookie', rec, sub), []).append((f, e))
                            continue
                    if lm == ('epoll_data', 'ptr') or ('epoll_event', 'data') in steps:
                        found.setdefault(('kernel', rec, 'epoll_event.data.ptr'), []).append((f, e))
                    elif l.get('k') in ('index', 'deref'):
                        # an element of a dynamically allocated array / heap: whatever the spelling (a[i], *(a + i), *p);
                        # not the caller's local written through an out-parameter
                        ptr = l['base'] if l.get('k') == 'index' else l['e']
                        if not h01.points_to_local(prog, f, ptr):
                            found.setdefault(('slot', rec, SLOT_NAME.get(rec, 'array')), []).append((f, e))
                    elif lm and lm[1] == 'parent':
                        found.setdefault(('parent', rec, '%s.%s' % lm), []).append((f, e))
                    elif lm and lm[0] in ('iv_state', 'iv_wait_thr_info'):
                        found.setdefault(('marker', rec, '%s.%s' % lm), []).append((f, e))
                    elif steps and lvalue_root_is_local(e['lhs']):
                        continue
                    else:
                        found.setdefault(('store', rec, canon(e['lhs'])), []).append((f, e))
                rr = strip(e['rhs'])
                if isinstance(rr, dict) and rr.get('k') == 'addr':
                    v = strip(rr['e'])
                    if isinstance(v, dict) and v.get('k') == 'var' and v.get('vk') in ('local', 'param'):
                        # &local published in a field, the local holding the object (typed, or `void *alive = obj`)
                        recs = h01.value_records(prog, f, v, USER_OBJECT_RECORDS) if '*' in str(v.get('type', '*')) else set()
                        if recs:
                            lm = last_member(e['lhs'])
                            found.setdefault(('pub', sorted(recs)[0], lm[1] if lm else canon(e['lhs'])), []).append((f, e))
    # array / heap slots of one object kind are one holder only if they are slots of one array: a second array (or a
    # global reached through a pointer) that keeps such pointers is a holder of its own, which no rule covers
    for sig in [k for k in found if k[0] == 'slot']:
        groups = {}
        for (f, e) in found[sig]:
            l = strip(e['lhs'])
            ident = h01.slot_identity(prog, f, l['base'] if l.get('k') == 'index' else l['e'])
            sites = [(f, e)]
            for k in [k for k in groups if (k & ident) or (not k and not ident)]:
                ident = ident | k
                sites = groups.pop(k) + sites
            groups[ident] = groups.get(ident, []) + sites
        if len(groups) > 1:
            order = sorted(groups, key=lambda k: (-len(groups[k]), sorted(k)))
            found[sig] = groups[order[0]]
            for k in order[1:]:
                name = 'array %s' % ','.join('.'.join(str(x) for x in d[1:]) for d in sorted(k)) if k else 'array (unnamed)'
                found.setdefault(('slot', sig[1], name), []).extend(groups[k])
    prog._c01_holders = found
    return found


def lvalue_root_is_local(lhs):
    r = lvalue_root(lhs)
    return r is not None and r.get('vk') in ('local', 'param')


def _list_arg_member(e, i=0):
    a = strip(e['args'][i]) if len(e.get('args', [])) > i else None
    if isinstance(a, dict) and a.get('k') == 'addr':
        return last_member(a['e'])
    return None


def _empty_edge(g, blk, si, key):
    """'empty' / 'nonempty' when the edge decides iv_list_empty() of the list node `key`, else None"""
    if blk.term and blk.term.get('cond') is not None and len(blk.succ) == 2:
        for (op, lc, rc, l, r) in norm_cond(blk.term['cond'], si == 0):
            c = strip(l)
            if isinstance(c, dict) and c.get('k') == 'call' and c.get('callee') == 'iv_list_empty' and rc == '0' and op in ('==', '!=') \
                    and c.get('args') and h01.member_of_ptr(g, c['args'][0]) == key:
                return 'empty' if op == '!=' else 'nonempty'
    return None


def _is_next_of(g, x, key):
    """x reads H.next / H->next where H is the list node `key` (typed)"""
    m = strip(x)
    if isinstance(m, dict) and m.get('k') == 'member' and m.get('record') == 'iv_list_head' and m['field'] == 'next':
        return h01.member_of_ptr(g, h01._node_ptr(m)) == key
    return False


def link_states(g, rec, field, cut=frozenset()):
    """May-set of link states {'U','L','N'} of rec.field before every event (L linked / list not empty, N not linked /
    list empty, U unknown).  (Re)initialising a node does not take it off a list: only iv_list_del* does.

    A list head H embedded in the object is also known to be empty when a *cursor* says so.  Must-facts about locals:
         ('first', v)      v == H.next
         ('succ', n, v)    n == v->next, read while v was linked
         ('ne', v)         v != &H (v is an element, not the head)
         ('cont', w, v, k) w == iv_container_of(v, k): &w->k is the node v
       iv_list_del*(v) with first(v), ne(v), succ(n, v) makes n the first element; the edge v == &H with first(v) means
       H.next == &H: the list is empty.  This is the invariant of the draining loops
       `for (v = H.next, n = v->next; v != &H; v = n, n = v->next) { del(v) }` and `while ((v = H.next) != &H) del(v)`
       whatever their form (iv_list_for_each_safe, hand-written, element or node pointer as cursor).
       Any other write to a list (unrecognised store to next/prev, another list primitive) or a call that may run
       library or user code forgets the cursor facts."""
    key = (rec, field)
    NOFACTS = frozenset()
    parts = h01.open_coded_parts(g)

    def head_ptr(x):
        return isinstance(x, dict) and h01.member_of_ptr(g, x) == key

    def firsts(x, C):
        """locals / the expression: is the value x known to be H.next"""
        if _is_next_of(g, x, key):
            return True
        return any(('first', n) in C for n in h01.var_names(x))

    def kill_var(C, x):
        return frozenset(f for f in C if x not in f[1:3])

    def tr(e, S):
        L, C = S
        o = h01.list_op(g, e)
        if o is not None:
            om = (o[0], h01.member_of_ptr(g, o[1]))
            if om == ('add', key):
                return (frozenset('L'), NOFACTS)
            if om == ('del', key):
                return (frozenset('N'), NOFACTS)
            if o[0] == 'del':
                # which local is the node taken off
                vs = set(h01.var_names(o[1]))
                a = strip(o[1])
                if isinstance(a, dict) and a.get('k') == 'addr' and last_member(a['e']):
                    for w in h01.base_var_names(a['e']):
                        vs |= {f[2] for f in C if f[0] == 'cont' and f[1] == w and f[3] == last_member(a['e'])}
                keep = frozenset(f for f in C if f[0] == 'cont')
                for v in vs:
                    if ('first', v) in C and ('ne', v) in C:
                        nxt = {f[1] for f in C if f[0] == 'succ' and f[2] == v}
                        return (L, keep | frozenset(('first', n) for n in nxt))
                return (L, keep)
            return (L, frozenset(f for f in C if f[0] == 'cont'))
        if e['ev'] == 'decl':
            return (L, kill_var(C, e['name']))
        if e['ev'] == 'store':
            l = strip(e['lhs'])
            if isinstance(l, dict) and l.get('k') == 'var':
                x = l['name']
                C2 = kill_var(C, x)
                if e.get('op') != '=' or 'rhs' not in e or l.get('vk') not in ('local', 'param'):
                    return (L, C2)
                r = strip(e['rhs'])
                add = set()
                if h01.is_localvar(r) and r['name'] != x:
                    y = r['name']
                    for f in C:
                        if f[0] in ('first', 'ne') and f[1] == y:
                            add.add((f[0], x))
                        elif f[0] == 'succ' and f[1] == y and f[2] != x:
                            add.add(('succ', x, f[2]))
                elif _is_next_of(g, e['rhs'], key):
                    add.add(('first', x))
                elif isinstance(r, dict) and r.get('k') == 'member' and r.get('record') == 'iv_list_head' and r['field'] == 'next':
                    base = h01._node_ptr(r)
                    vs = set(h01.var_names(base))
                    if _is_next_of(g, base, key):
                        vs |= {f[1] for f in C if f[0] == 'first'}
                    for v in vs:
                        if v != x and h01.is_local_name(g, v):
                            add.add(('succ', x, v))
                elif isinstance(r, dict) and r.get('k') == 'container_of':
                    k2 = (r.get('record'), r.get('member'))
                    vs = set(h01.var_names(r['e']))
                    if _is_next_of(g, r['e'], key):
                        vs |= {f[1] for f in C if f[0] == 'first'}
                    for v in vs:
                        if v != x:
                            add.add(('cont', x, v, k2))
                return (L, C2 | frozenset(add))
            if id(e) in parts:
                return S
            lm = last_member(e['lhs'])
            if lm and lm[0] == 'iv_list_head':
                return (L, frozenset(f for f in C if f[0] == 'cont'))
            return S
        if e['ev'] == 'call':
            if 'fnexpr' in e or not h01.harmless_call(g, e):
                return (L, NOFACTS)
            for a in e.get('args', []):
                a = strip(a)
                if isinstance(a, dict) and a.get('k') == 'addr':
                    v = strip(a['e'])
                    if isinstance(v, dict) and v.get('k') == 'var':
                        C = kill_var(C, v['name'])
            return (L, C)
        return S

    def edge(blk, si, S):
        if (blk.id, si) in cut:
            return None
        L, C = S
        t = _empty_edge(g, blk, si, key)
        if t is not None:
            return (frozenset('N') if t == 'empty' else frozenset('L'), C)
        for (op, lc, rc, l, r) in h01.edge_atoms(blk, si):
            if op not in ('==', '!='):
                continue
            for (a, b) in ((l, r), (r, l)):
                if not (isinstance(a, dict) and head_ptr(b)):
                    continue
                if op == '==' and firsts(a, C):
                    L = frozenset('N')
                elif op == '!=':
                    if firsts(a, C):
                        L = frozenset('L')
                    C = C | frozenset(('ne', n) for n in h01.var_names(a) if h01.is_local_name(g, n))
        return (L, C)

    def join(a, b):
        return (a[0] | b[0], a[1] & b[1])
    _, ev_in = forward(g, (frozenset('U'), NOFACTS), tr, join, edge=edge)
    return {p: S[0] for p, S in ev_in.items()}


def exit_points(g):
    pts = [(pb, pi) for (pb, pi, _) in exits_of(g)]
    pts.append((g.exit, 0))
    return pts


def deferring_tables(prog):
    """poll methods whose notify_fd slot queues the descriptor (with helpers inlined) instead of telling the kernel at once"""
    out = []
    for t, slots in sorted(prog.method_tables().items()):
        v = slots.get('notify_fd')
        f = prog.resolve(*v) if v else None
        if f is None:
            continue
        g = h01.inlined(prog, f)
        if any(h01.list_op_member(g, e) == ('add', ('iv_fd_', 'list_notify')) for e in g.events()):
            out.append(t)
    return out


def slot_array_tables(prog, found):
    """poll methods whose notify_fd slot stores the descriptor into an array slot"""
    locs = {e['loc'] for (_, e) in found.get(FD_SLOT, [])}
    out = []
    for t, slots in sorted(prog.method_tables().items()):
        v = slots.get('notify_fd')
        f = prog.resolve(*v) if v else None
        if f is not None and any(e['ev'] == 'store' and e['loc'] in locs for e in h01.inlined(prog, f).events()):
            out.append(t)
    return out


def _excludes(op, rc, val):
    """the atom (x op rc) cannot hold when x == val"""
    try:
        n = int(rc)
    except (TypeError, ValueError):
        return False
    tbl = {'==': val == n, '!=': val != n, '<': val < n, '>': val > n, '<=': val <= n, '>=': val >= n}
    return op in tbl and not tbl[op]


def edges_excluding(g, field, val, objs):
    """conditional edges on which record.field of the object held in one of the locals `objs` cannot be `val`"""
    out = set()
    for b, blk in g.blocks.items():
        for si in range(len(blk.succ)):
            for (op, lc, rc_, l, r) in h01.edge_atoms(blk, si):
                key, bases = h01.field_of(g, blk, l)         # the field read in the test, or a local that caches it
                if key == field and (bases & objs) and _excludes(op, rc_, val):
                    out.add((b, si))
    return out


def run(ctx):
    ctx.rule('R-C01a', 'stale-after-callback: after a user callback no pointer to a user-owned object is dereferenced '
                       'until it is reassigned or its liveness marker was re-tested (every root of the library, helpers inlined)', floor=20)
    ctx.rule('R-C01b', 'one-shot objects (task, timer, event) are unlinked from the batch (timers: index = -1) between the definition '
                       'of the object pointer and the call of their handler, in every calling context', floor=3)
    ctx.rule('R-C01c', 'every place the library keeps a pointer to a user object (lists, trees, markers, poll array, heap '
                       'slot, kernel registration, sub-object cookies) is discovered and undone by that kind\'s unregister on every path', floor=18)
    ctx.rule('R-C01d', 'no user callback runs between the kernel wait and the last read of the event array it filled', floor=4)
    ctx.rule('R-C01e', 'the array slot that holds a descriptor is released by unregister: on every path of the kind\'s unregister '
                       '(poll-array methods, helpers inlined) the slot addressed by the index the descriptor had on entry is overwritten '
                       'with something that is not the descriptor, or that index is found equal to a value derived from the live count '
                       'of the array (the slot is dropped from the live range), or the descriptor had no slot / keeps its index', floor=1)
    ctx.rule('R-C01f', 'holder agreement: the holder the kind\'s unregister removes the object from is the holder its register put it '
                       'into, as a function of the object\'s state: for every path to the tree insert of the object\'s node (every root '
                       'context, helpers inlined) and every path of unregister to the tree delete whose tests on the object\'s fields '
                       'do not contradict each other, the tree designators are the same', floor=3)
    ctx.section(stale)
    ctx.section(one_shot)
    ctx.section(holders)
    ctx.section(batch_live)
    ctx.section(slot_released)
    ctx.section(holder_agreement)


def stale(ctx):
    """Judged in every root of the library with its helpers inlined (a helper on its own lacks the marker
    store or re-test that lives in its caller); a function that no root reaches is judged by itself."""
    prog = ctx.prog
    fields = set()
    for (f, g) in h01.callback_contexts(prog):
        for e in g.events():
            if h01.cb_kind(g, e):
                for m in h01.call_targets(g, e):
                    fields.add((m.get('record'), m['field']))
        reps, objvars, markers = h01.stale_after_callback(g, lambda e, g=g: h01.cb_kind(g, e))
        byvar = {}
        for (e, v, acc, cb) in reps:
            byvar.setdefault(v, []).append((e, acc, cb))
        for v in sorted(objvars):
            bad = byvar.get(v, [])
            e0 = bad[0][0] if bad else None
            base = v.split('@')[0]
            ctx.ob('R-C01a', '%s:%s' % (f.name, v), not bad, loc=e0['loc'] if e0 else f.loc,
                   detail=('`%s` (%s) is used after the callback at %s without reassignment or marker test: %s'
                           % (base, objvars[v], relpath(bad[0][2]), ', '.join(sorted({a for _, a, _ in bad})))) if bad else
                          '%s *%s: never used after a callback site without reassignment / marker test' % (objvars[v], base),
                   path=path_to(g, e0) if e0 else None, fn=f.q)
    # what must not vanish is the set of handler fields user code is entered through, not the number of call
    # statements (a trampoline merges sites, an unrolled loop multiplies them)
    # A handler field that vanished concerns that object kind only: its instance fails, the others stand (C11
    # borrows the instances of the child-wait functions).
    from ..analyses import CALLBACK_FIELDS
    missing = sorted(set(CALLBACK_FIELDS) - fields)
    for (rec, fld) in missing:
        ctx.ob('R-C01a', 'entered-through:%s.%s' % (rec, fld), False,
               detail='no call through the handler field %s.%s is found any more: where user code of this kind is entered, and '
                      'what is touched after it, cannot be shown' % (rec, fld))
    if len(CALLBACK_FIELDS) != N_CALLBACK_FIELDS:
        raise AnalysisBroken('%d handler fields tabled, %d confirmed by reading' % (len(CALLBACK_FIELDS), N_CALLBACK_FIELDS))


def one_shot(ctx):
    """At the call of a one-shot object's handler the object has been unlinked (and stamped) since the
    (last) definition of the pointer the handler is called through.  Evaluated by a forward must-analysis
    of facts about locals (h01.oneshot_facts) in every root context that reaches the call, so that it is
    independent of the loop form, of helpers that dequeue / run one object, of pointer copies and of how
    the list node is spelled (&t->list, or the node pointer t was computed from)."""
    prog = ctx.prog
    stamps = {(x[0], x[1]): int(x[2]) for (_, _, x) in ONE_SHOT.values() if x}
    res = {}
    for (f, g) in h01.callback_contexts(prog):
        sites = [e for e in g.events() if h01.cb_kind(g, e) in ONE_SHOT]
        if not sites:
            continue
        facts = h01.oneshot_facts(g, stamps)
        for cs in sites:
            S = facts.get((cs['_b'], cs['_i']))
            if S is None:
                continue        # not reachable in this context
            kind = h01.cb_kind(g, cs)
            rec, link, extra = ONE_SHOT[kind]
            fe = h01.call_targets(g, cs)[0]
            objs = h01.var_names(fe['base'])
            # (an object that is not held in a local cannot be shown unlinked: the site fails, the others are still judged)
            ok = any(('unl', o, (rec, link)) in S for o in objs)
            if not ok and not h01.field_exists(prog, rec, link):
                # the batch node of the kind was renamed: it is the node through which the object was found
                ok = any(f[0] == 'via' and f[1] in objs and norm_rec(f[2][0]) == rec and ('unl', f[1], f[2]) in S for f in S)
            ok2 = (not extra) or any(('st', o, (extra[0], extra[1])) in S for o in objs)
            r = res.setdefault((kind, cs['loc']), dict(ok=True, ok2=True, cs=cs, g=g, f=f, bad=None, bad2=None, obj=canon(fe['base']).split('@')[0]))
            if not ok and r['ok']:
                r.update(ok=False, bad=(g, cs, f))
            if not ok2 and r['ok2']:
                r.update(ok2=False, bad2=(g, cs, f))
    for (kind, loc), r in sorted(res.items()):
        rec, link, extra = ONE_SHOT[kind]
        cs = r['cs']
        owner = h01.owner_name(cs, r['f'].q)
        obj = r['obj']
        bg, bcs, bf = r['bad'] or (r['g'], cs, r['f'])
        ctx.ob('R-C01b', '%s:%s-unlinked-before-handler' % (owner, kind), r['ok'], loc=loc,
               detail='iv_list_del*() of the %s.%s node of %s lies between the definition of %s and %s on every path%s'
                      % (rec, link, obj, obj, describe(cs), '' if r['ok'] else ' [fails in the context of %s]' % bf.name),
               path=None if r['ok'] else path_to(bg, bcs), fn=bf.q)
        if extra:
            bg, bcs, bf = r['bad2'] or (r['g'], cs, r['f'])
            ctx.ob('R-C01b', '%s:%s-%s-stamped-before-handler' % (owner, kind, extra[1]), r['ok2'], loc=loc,
                   detail='%s->%s = %s precedes the handler call on every path from the definition of %s (the object reads as unregistered inside its handler)%s'
                          % (obj, extra[1], extra[2], obj, '' if r['ok2'] else ' [fails in the context of %s]' % bf.name),
                   path=None if r['ok2'] else path_to(bg, bcs), fn=bf.q)


# --------------------------------------------------------------------------
# R-C01c
# --------------------------------------------------------------------------

def _check_unlinked(g, un, rec, fld, spec, prog=None, sites=None):
    pts = exit_points(g)
    key = (rec, fld)
    if spec.get('when'):
        wf, wop, wv = spec['when']
        cut = edges_excluding(g, wf, wv, h01.object_vars(g, un, rec))
        if not cut:
            raise AnalysisBroken('%s: discriminating test of %s.%s not found' % (un.name, wf[0], wf[1]))
        ls = link_states(g, rec, fld, cut=cut)
        sts = set()
        for p in pts:
            sts |= set(ls.get(p, ()))
        ok = sts <= {'N'} and bool(sts)
        det = 'on the %s.%s == %s arm the object is unlinked at return (states %s): %s' % (wf[0], wf[1], wv, sorted(sts), spec.get('why', ''))
    else:
        ls = link_states(g, rec, fld)
        sts = set()
        for p in pts:
            sts |= set(ls.get(p, ()))
        ok = sts <= {'N'} and bool(sts)
        det = 'link state of %s.%s at every return of %s: %s (N = not linked)' % (rec, fld, un.name, sorted(sts))
    if ok and spec.get('lock'):
        # the lock that protects the list is the one held wherever the library links a node of this kind into it
        # (whatever it is called and wherever it lives); the unlink must be made under it
        need = link_locks(prog, sites) if sites else frozenset()
        if not need:
            raise AnalysisBroken('the nodes are not linked in under one common lock (expected: %s)' % spec['lock'])
        lk = h01.locks_held(g)
        for e in g.events():
            if h01.list_op_member(g, e) == ('del', key):
                if not (need <= set(lk.get((e['_b'], e['_i'])) or ())):
                    ok = False
                    det += '; unlinked without %s' % ', '.join(sorted(need))
    return ok, det


def link_locks(prog, sites):
    """locks held at every place (in every root context, lock wrappers inlined) where a node is linked in: sites = [(f, e)]"""
    locs = {e['loc'] for (_, e) in sites}
    need = None
    from .. import roles
    for r in roles.roots(prog):
        g = h01.inlined(prog, r)
        hits = [e for e in g.events() if e.get('loc') in locs and h01.list_op(g, e) is not None]
        if not hits:
            continue
        lk = h01.locks_held(g)
        for e in hits:
            S = lk.get((e['_b'], e['_i']))
            if S is None:
                continue        # unreachable copy
            need = set(S) if need is None else (need & set(S))
    return frozenset(need or ())


def _check_tree(g, un, rec, fld, spec):
    pts = exit_points(g)
    def tr(e, s):
        return True if (is_call(e, 'iv_avl_tree_delete') and h01.arg_member(g, e, 1) == (rec, fld)) else s
    def edge(blk, si, s):
        if spec.get('unless'):
            # an edge on which the flag field cannot be 0: `flags & BIT` true, `flags != 0`, `flags == BIT`, `flags > 0`
            for (op, lc, rc_, l, r) in h01.edge_atoms(blk, si):
                if op == '!=' and rc_ == '0' and spec['unless'] in {(x.get('record'), x.get('field')) for x in walk(l) if x.get('k') == 'member'}:
                    return True
                if h01.field_of(g, blk, l)[0] == spec['unless'] and _excludes(op, rc_, 0):
                    return True
        return s
    _, ev_in = forward(g, False, tr, lambda a, b: a and b, edge=edge)
    ok = all(ev_in.get(p, True) for p in pts)
    return ok, 'iv_avl_tree_delete(&obj->%s) on every path%s' % (fld, (' except where ' + spec['why']) if spec.get('why') else '')


def _loc_key(lv):
    lm = last_member(lv)
    if lm:
        return lm
    v = strip(lv)
    if isinstance(v, dict) and v.get('k') == 'var' and v.get('vk') in ('global', 'staticlocal'):
        return ('var', v['name'])
    return None


def _check_marker(g, un, rec, marker, spec, sites=None):
    """Postcondition: at every return the marker does not designate the object being unregistered.
    M = may designate it, N = does not (NULL stored, or tested different / NULL).
    The marker is the location(s) the library stores the object pointer into at the discovered sites (a field of the
    thread state, wherever it lives; a file-scope variable)."""
    keys = {_loc_key(e['lhs']) for (_, e) in (sites or [])} - {None}
    if not keys:
        mrec, mfld = marker.split('.')
        keys = {(mrec, mfld)}
    def is_marker(x):
        return _loc_key(x) in keys
    objs = h01.object_vars(g, un, rec)
    if not objs:
        raise AnalysisBroken('%s: no parameter of kind %s' % (un.name, rec))
    def is_obj(x):
        return isinstance(x, dict) and bool(h01.var_names(x) & objs)
    def refine(atoms, S):
        """marker state under branch atoms: tested NULL or tested different from the object -> N"""
        for (op, lc, rc_, l, r) in atoms:
            if op not in ('==', '!='):
                continue
            for (a, b) in ((l, r), (r, l)):
                if not isinstance(a, dict) or not is_marker(a):
                    continue
                if isinstance(b, dict) and h01.const_of(b) == 0:
                    if op == '==':
                        S = frozenset('N')
                elif is_obj(b):
                    if op == '!=':
                        S = frozenset('N')
        return S
    def value(x, S):
        """marker state after storing x into it"""
        x = strip(x)
        if h01.const_of(x) == 0:
            return frozenset('N')
        if isinstance(x, dict) and x.get('k') == 'cond':     # marker = (marker == obj) ? NULL : marker
            return value(x['a'], refine(norm_cond(x['c'], True), S)) | value(x['b'], refine(norm_cond(x['c'], False), S))
        if isinstance(x, dict) and is_marker(x):
            return S                                          # the marker's own value
        return frozenset('M')
    def tr(e, S):
        if e['ev'] == 'store' and is_marker(e['lhs']):
            return value(e['rhs'], S) if e.get('op') == '=' and 'rhs' in e else frozenset('M')
        return S
    def edge(blk, si, S):
        return refine(h01.edge_atoms(blk, si), S)
    _, ev_in = forward(g, frozenset('M'), tr, lambda a, b: a | b, edge=edge)
    sts = set()
    for p in exit_points(g):
        sts |= set(ev_in.get(p, ()))
    ok = bool(sts) and sts <= {'N'}
    return ok, ('at every return of %s the marker %s cannot designate the object being unregistered (reset to NULL where it '
                'does): states %s (N = does not)' % (un.name, marker, sorted(sts)))


def _check_marker_own(g, un, rec, keys):
    """The dual of _check_marker: the unregistration of one object overwrites the marker only while the marker
    designates that object.  E = marker known to equal the object (tested on this path), U = not known.
    Returns [(store event, ok)] for every store into the marker in the (inlined) unregister graph; a store of the
    marker's own value is not an overwrite."""
    def is_marker(x):
        return _loc_key(x) in keys
    objs = h01.object_vars(g, un, rec)
    if not objs:
        raise AnalysisBroken('%s: no parameter of kind %s' % (un.name, rec))
    def is_obj(x):
        return isinstance(x, dict) and bool(h01.var_names(x) & objs)
    def refine(atoms, S):
        for (op, lc, rc_, l, r) in atoms:
            if op != '==':
                continue
            for (a, b) in ((l, r), (r, l)):
                if isinstance(a, dict) and is_marker(a) and is_obj(b):
                    S = frozenset('E')
        return S
    def allowed(x, S):
        x = strip(x)
        if isinstance(x, dict) and x.get('k') == 'cond':
            return (allowed(x['a'], refine(norm_cond(x['c'], True), S)) and
                    allowed(x['b'], refine(norm_cond(x['c'], False), S)))
        if isinstance(x, dict) and is_marker(x):
            return True
        return S == frozenset('E')
    def tr(e, S):
        if e['ev'] == 'store' and is_marker(e['lhs']):
            return frozenset('U')
        return S
    def edge(blk, si, S):
        return refine(h01.edge_atoms(blk, si), S)
    _, ev_in = forward(g, frozenset('U'), tr, lambda a, b: a | b, edge=edge)
    out = []
    for b, blk in g.blocks.items():
        for i, e in enumerate(blk.events):
            if e['ev'] == 'store' and is_marker(e['lhs']):
                S = ev_in.get((b, i))
                if S is None:
                    continue                                  # unreachable after pruning
                out.append((e, bool(e.get('op') == '=' and 'rhs' in e and allowed(e['rhs'], S))))
    return out


def marker_own(ctx, rid, recs):
    """For every tabled marker holder of the kinds `recs`: in the unregister call of the kind (helpers inlined) every
    store into the marker happens only where the marker was tested equal to the object being unregistered -- the
    unregistration of another object of the kind leaves the marker (and so the deliveries still due to the object
    being handled) alone.  Borrowed by C11 (R-C11i)."""
    prog = ctx.prog
    found = dict(discover_holders(prog))
    n = 0
    for sig, spec in sorted(HOLDERS.items()):
        if sig[0] != 'marker' or sig[1] not in recs or spec.get('check') != 'marker':
            continue
        cands = [k for k in found if k[0] == 'marker' and k[1] == sig[1]]
        k = sig if sig in found else (cands[0] if len(cands) == 1 else None)
        if k is None:
            raise AnalysisBroken('marker holder of %s not found' % sig[1])
        rec = sig[1]
        if not (rec in UNREGISTER and prog.has_fn(UNREGISTER[rec])):
            raise AnalysisBroken('unregister call of kind %s not found' % rec)
        un = prog.fn(UNREGISTER[rec])
        keys = {_loc_key(e['lhs']) for (_, e) in found[k]} - {None}
        if not keys:
            keys = {tuple(k[2].split('.'))}
        g = h01.inlined(prog, un, expand_methods=True, prune=True)
        res = _check_marker_own(g, un, rec, keys)
        if not res:
            raise AnalysisBroken('%s never writes the marker %s' % (un.name, k[2]))
        byloc = {}
        for e, ok in res:
            byloc.setdefault(e['loc'], []).append((e, ok))
        for loc in sorted(byloc):
            ok = all(o for _, o in byloc[loc])
            e0 = byloc[loc][0][0]
            n += 1
            ctx.ob(rid, '%s:marker-cleared-only-for-own-object %s' % (un.name, k[2]), ok, loc=loc,
                   detail=('%s overwrites the handled-object marker %s only on paths where it was tested equal to the %s '
                           'being unregistered' % (un.name, k[2], rec)) if ok else
                          ('%s overwrites the marker %s (%s) on a path where it was not tested equal to the %s being '
                           'unregistered: unregistering another object from a handler makes the delivery loop believe '
                           'the object it is handling is gone' % (un.name, k[2], describe(e0), rec)),
                   path=None if ok else path_to(g, e0), fn=un.q)
    return n


def _index_fixed(g, objs, idxkeys, free, with_edges):
    """at a point: the index field of the object holds `free` (stored, or tested equal) and nothing that may
    alias the object stored another value since"""
    def tr(e, s):
        if e['ev'] == 'store' and last_member(e['lhs']) in idxkeys:
            v = h01.const_of(e.get('rhs')) if e.get('op') == '=' else None
            if h01.base_var_names(e['lhs']) & objs:
                return v == free
            return s if v == free else False
        return s
    def edge(blk, si, s):
        if with_edges:
            for (op, lc, rc_, l, r) in h01.edge_atoms(blk, si):
                key, bases = h01.field_of(g, blk, l)
                if op == '==' and rc_ == str(free) and key in idxkeys and (bases & objs):
                    return True
        return s
    _, ev_in = forward(g, False, tr, lambda a, b: a and b, edge=edge)
    return ev_in


def slot_index_keys(prog, found, sig, rec):
    """(record, field) of the scalar field(s) of the object from which the address of its array slot is computed
    (`arr[obj->idx] = obj`), whatever locals cache the index or the slot address"""
    keys = set()
    def fld_of_obj(y):
        """scalar field reached from a pointer variable of the object kind: (record, field)"""
        if y.get('k') == 'member' and not y.get('trecord'):
            x = y
            while isinstance(x, dict) and x.get('k') == 'member' and not x['arrow']:
                x = strip(x['base'])
            if isinstance(x, dict) and x.get('k') == 'member':
                b = strip(x['base'])
                if isinstance(b, dict) and b.get('k') == 'var' and norm_rec(b.get('record')) == rec:
                    return (y.get('record'), y['field'])
        return None
    for (f, e) in found.get(sig, []):
        l = strip(e['lhs'])
        addr = [l['base'], l['idx']] if l.get('k') == 'index' else [l['e']]
        seen = set()
        def pred(y):
            k = fld_of_obj(y)
            if k:
                keys.add(k)
            return False
        h01.depends_on(f, addr, pred, seen)
        seen |= {y['name'] for y in walk(addr) if h01.is_localvar(y)}
        # idx = n++; obj->index = idx; arr[idx] = obj : the local the slot is addressed by is what the object remembers
        for e2 in f.events():
            if e2['ev'] == 'store' and e2.get('op') == '=' and 'rhs' in e2 and (h01.var_names(e2['rhs']) & seen):
                k = fld_of_obj(strip(e2['lhs'])) if isinstance(strip(e2['lhs']), dict) else None
                if k:
                    keys.add(k)
    return keys


def _check_poll_slot(g, un, rec, spec, idxkeys):
    objs = h01.object_vars(g, un, rec)
    if not objs:
        raise AnalysisBroken('%s: no parameter of kind %s' % (un.name, rec))
    ev_in = _index_fixed(g, objs, idxkeys, spec['free'], True)
    ok = all(ev_in.get(p, True) for p in exit_points(g))
    return ok, 'at every return the descriptor has no slot in the poll arrays (%s == %d stored or tested)' % (
        '/'.join(sorted(k[1] for k in idxkeys)), spec['free'])


def _check_heap_slot(g, un, rec, spec):
    objs = h01.object_vars(g, un, rec)
    if not objs:
        raise AnalysisBroken('%s: no parameter of kind %s' % (un.name, rec))
    idx = spec['index']
    pts = exit_points(g)
    ev_in = _index_fixed(g, objs, {idx}, spec['free'], False)
    ok1 = all(ev_in.get(p, True) for p in pts)
    # on the arm where the timer is on the heap: every path overwrites a heap slot with something that is not the
    # timer, and the slot addressed through the timer's own index is among the slots overwritten
    def own_index(y):
        return y.get('k') == 'member' and (y.get('record'), y['field']) == idx and bool(h01.base_var_names(y) & objs)
    def slot_store(e):
        if e['ev'] != 'store' or e.get('op') != '=':
            return None
        l = strip(e['lhs'])
        if not isinstance(l, dict) or l.get('k') not in ('deref', 'index') or lvalue_steps(e['lhs']):
            return None
        if h01.var_names(e.get('rhs')) & objs:
            return None
        return [l['base'], l['idx']] if l['k'] == 'index' else [l['e']]
    own = {id(e) for e in g.events() if slot_store(e) is not None and h01.depends_on(g, slot_store(e), own_index)}
    arms = edges_excluding(g, idx, spec['batch'], objs)
    ok2, ok3, narm = True, True, 0
    for (b, si) in sorted(arms):
        mp = must_pass_from_block(g, g.blocks[b].succ[si], lambda e: slot_store(e) is not None)
        reach = [p for p in pts if p in mp]
        if reach:
            narm += 1
            if not all(mp[p] for p in reach):
                ok2 = False
            seen = g.reachable_blocks(g.blocks[b].succ[si])
            if not any(id(e) in own for bb in seen for e in g.blocks[bb].events):
                ok3 = False
    if not narm:
        raise AnalysisBroken('%s: arm for a timer that is on the heap (%s.%s != %d) not found' % (un.name, idx[0], idx[1], spec['batch']))
    return ok1 and ok2 and ok3, ('heap arm: a heap slot is overwritten on every path (%s), the slot addressed by the timer\'s own index is '
                                 'among them (%s); %s = %d at every return (%s)'
                                 % ('yes' if ok2 else 'NO', 'yes' if ok3 else 'NO', idx[1], spec['free'], 'yes' if ok1 else 'NO'))


def _check_epoll_sync(g, un, prog, t):
    key = ('iv_fd_', 'list_notify')
    pts = exit_points(g)
    def tr(e, S):
        if is_call(e, 'epoll_ctl'):
            return frozenset((True, l_) for (_, l_) in S)
        o = h01.list_op_member(g, e)
        if o == ('add', key):
            return frozenset((s_, 'L') for (s_, _) in S)
        if o == ('del', key):
            return frozenset((s_, 'N') for (s_, _) in S)
        return S
    def edge(blk, si, S):
        for (op, lc, rc_, l, r) in h01.edge_atoms(blk, si):
            # what the kernel has == what is wanted: the two fields read in the test, or locals that hold their current
            # values (h01.field_caches: no store to the field, no callback, no lock operation since the local was loaded)
            if op == '==' and isinstance(l, dict) and isinstance(r, dict) and \
                    {h01.field_of(g, blk, l)[0], h01.field_of(g, blk, r)[0]} == {('iv_fd_', 'registered_bands'), ('iv_fd_', 'wanted_bands')}:
                S = frozenset((True, l_) for (_, l_) in S)
        st = _empty_edge(g, blk, si, key)
        if st == 'empty':      # impossible when certainly linked
            S = frozenset((s_, 'N') for (s_, l_) in S if l_ != 'L')
        elif st == 'nonempty':
            S = frozenset((s_, 'L') for (s_, l_) in S if l_ != 'N')
        return S if S else None
    _, ev_in = forward(g, frozenset([(False, 'U')]), tr, lambda a, b: a | b, edge=edge)
    sts = set()
    for p in pts:
        sts |= set(ev_in.get(p, ()))
    ok = bool(sts) and all(s_ for (s_, l_) in sts)
    slots = prog.method_tables()[t]
    ok = ok and bool(slots.get('unregister_fd'))
    return ok, ('unregister synchronously updates the kernel registration (epoll_ctl) unless nothing differs from what the '
                'kernel has; exit states (synced, linked): %s' % sorted(sts))


def _check_sub(g, un, rec, fld, spec):
    def tr(e, s):
        if is_call(e, spec['sub']) and h01.arg_member(g, e) == (rec, fld):
            return True
        return s
    _, ev_in = forward(g, False, tr, lambda a, b: a and b)
    ok = all(ev_in.get(p, True) for p in exit_points(g))
    return ok, '%s(&obj->%s) on every path of %s' % (spec['sub'], fld, un.name)


def _holder_tables(prog, found, spec):
    if spec.get('methods') == 'deferring':
        tables = deferring_tables(prog)
        if not tables:
            raise AnalysisBroken('no poll method defers notifications')
    elif spec.get('methods') == 'poll':
        tables = slot_array_tables(prog, found)
        if not tables:
            raise AnalysisBroken('no poll-array method found')
    else:
        tables = [None]
    return tables


def _holder_check(prog, found, sig, spec, un, t, idxkeys, fld=None):
    rec = sig[1]
    fld = sig[2] if fld is None else fld         # where the holder lives now (see holders(): identity by role)
    g = h01.inlined(prog, un, method_table=t, expand_methods=True, prune=True)
    if spec['check'] == 'unlinked':
        return _check_unlinked(g, un, rec, fld, spec, prog=prog, sites=found[sig])
    if spec['check'] == 'tree':
        return _check_tree(g, un, rec, fld, spec)
    if spec['check'] == 'marker':
        return _check_marker(g, un, rec, sig[2], spec, sites=found[sig])
    if spec['check'] == 'poll-slot':
        return _check_poll_slot(g, un, rec, spec, idxkeys)
    if spec['check'] == 'heap-slot':
        return _check_heap_slot(g, un, rec, spec)
    if spec['check'] == 'epoll-sync':
        return _check_epoll_sync(g, un, prog, t)
    if spec['check'] == 'sub':
        return _check_sub(g, un, rec, sig[2], spec)
    raise AnalysisBroken('unknown holder check %s' % spec['check'])


def holders(ctx):
    """Every tabled holder is an instance of its own: when its anchor (the place where the pointer is kept, the
    kind's unregister call, the poll methods concerned, a discriminating test) cannot be found, that instance -- and
    only that one -- is reported as a failed obligation ("cannot be shown"), and the other holders are still checked.
    A patch to the timer or inotify code can therefore neither silence nor break the descriptor / child-wait instances
    that C03 (R-C03e) and C11 (R-C11f) borrow."""
    prog = ctx.prog
    found = dict(discover_holders(prog))
    # A tabled holder is identified by its role -- what it is (list node, tree node, the library's own pointer to
    # the object, published address) for which object kind -- not by the record and field it happens to live in:
    # when the tabled location is gone and exactly one uncovered holder of that role exists for the kind, it is that
    # holder (moved into a sub-struct, renamed, turned into a file-scope variable).  The instance keeps its tabled name.
    ROLE = {'marker': 'ptr', 'parent': 'ptr', 'store': 'ptr'}
    actual = {}
    for sig in sorted(HOLDERS):
        if sig[0] in ('marker', 'parent', 'pub', 'list', 'tree') and sig not in found:
            role = ROLE.get(sig[0], sig[0])
            gone = [k for k in HOLDERS if k not in found and k[1] == sig[1] and ROLE.get(k[0], k[0]) == role]
            cands = [k for k in found if k not in HOLDERS and k[1] == sig[1] and ROLE.get(k[0], k[0]) == role]
            if len(cands) == 1 and len(gone) == 1:
                actual[sig] = cands[0]
    for sig, k in actual.items():
        found[sig] = found.pop(k)
    for sig in sorted(found):
        f, e = found[sig][0]
        if sig not in HOLDERS:
            ctx.ob('R-C01c', 'holder:%s %s.%s' % sig, False, loc=e['loc'],
                   detail='%s keeps a pointer to a %s (%s) and no unregister rule covers this holder' % (f.name, sig[1], describe(e)), fn=f.q)
    for sig, spec in sorted(HOLDERS.items()):
        inst = 'holder:%s %s.%s' % sig
        rec = sig[1]
        un = prog.fn(UNREGISTER[rec]) if (rec in UNREGISTER and prog.has_fn(UNREGISTER[rec])) else None
        if sig not in found:
            # the anchor of this instance vanished: it cannot be shown that unregister undoes it
            ctx.ob('R-C01c', inst, False, loc=un.loc if un else None,
                   detail='tabled holder %s %s.%s is no longer found in the source: what keeps the pointer now, and whether '
                          'unregister undoes it, cannot be shown' % sig, fn=un.q if un else None)
            continue
        f0, e0 = found[sig][0]
        if spec['check'] == 'exempt':
            ctx.exempt('R-C01c', inst, spec['why'])
            ctx.ob('R-C01c', inst, True, loc=e0['loc'], detail='exempt: ' + spec['why'], fn=f0.q)
            continue
        try:
            if un is None:
                raise AnalysisBroken('unregister call %s of the kind not found' % UNREGISTER.get(rec))
            tables = _holder_tables(prog, found, spec)
            idxkeys = None
            if spec['check'] == 'poll-slot':
                idxkeys = slot_index_keys(prog, found, sig, rec)
                if not idxkeys:
                    raise AnalysisBroken('index field of the %s array slot not found' % rec)
        except AnalysisBroken as ex:
            ctx.ob('R-C01c', inst, False, loc=e0['loc'], detail='cannot be shown: %s' % ex, fn=f0.q)
            continue
        for t in tables:
            tag = (' [%s]' % t.replace('iv_fd_poll_method_', '')) if t else ''
            try:
                ok, det = _holder_check(prog, found, sig, spec, un, t, idxkeys, actual.get(sig, sig)[2])
            except AnalysisBroken as ex:
                ok, det = False, 'cannot be shown: %s' % ex
            ctx.ob('R-C01c', inst + tag, ok, loc=un.loc, detail=det, fn=un.q)


# --------------------------------------------------------------------------
# R-C01d
# --------------------------------------------------------------------------

def batch_live(ctx):
    """R-C01d: in every poll slot, after the first user callback no element of the array the kernel filled
    (nor of the descriptor array that parallels it) is read.  The arrays are identified by what they are:
    the memory block whose address is passed to the wait primitive, the array whose slots hold descriptor
    pointers; every local or field that may hold a pointer into them (h01.pointer_closure) reads them."""
    prog = ctx.prog
    found = discover_holders(prog)
    slot_seeds = set()
    for (f, e) in found.get(FD_SLOT, []):
        l = strip(e['lhs'])
        p = l['base'] if l.get('k') == 'index' else l['e']
        slot_seeds |= {d for d in h01.pointer_closure(f, h01.designators(p)) if d[0] == 'fld'}
    for t, slots in sorted(prog.method_tables().items()):
        try:
            _batch_live_table(ctx, prog, t, slots, slot_seeds)
        except AnalysisBroken as ex:
            # one poll method that cannot be judged fails on its own; the other methods are still checked
            ctx.ob('R-C01d', '%s:poll' % t.replace('iv_fd_poll_method_', ''), False, detail='cannot be shown: %s' % ex)


def _batch_live_table(ctx, prog, t, slots, slot_seeds):
    if not slots.get('poll'):
        raise AnalysisBroken('%s: no poll slot' % t)
    f = prog.resolve(*slots['poll'])
    g = h01.inlined(prog, f, method_table=t, expand_methods=True)
    waits = [e for e in g.events() if is_call(e, tuple(WAIT_PRIMITIVES)) and e['ev'] == 'call']
    if not waits:
        raise AnalysisBroken('%s: wait primitive not found' % f.name)
    seeds = set(slot_seeds)
    for w in waits:
        a = w['args'][WAIT_PRIMITIVES[w['callee']]]
        d = h01.designators(a)
        if not d:
            raise AnalysisBroken('%s: array argument of %s not understood (%s)' % (f.name, w['callee'], canon(a)))
        seeds |= d
    T = h01.pointer_closure(g, seeds)
    def tr(e, s):
        if h01.cb_kind(g, e):
            return e.get('loc')
        return s
    _, ev_in = forward(g, '', tr, lambda a, b: a or b)
    bad = []
    nreads = 0
    for b, blk in g.blocks.items():
        pts = []
        for i, e in enumerate(blk.events):
            if e['ev'] == 'load':
                pts.append((i, e, [e['e']]))
            else:
                pts.append((i, e, [e[k] for k in ('rhs', 'args', 'fnexpr', 'value') if k in e]))
        if blk.term and blk.term.get('cond') is not None:
            pts.append((len(blk.events), dict(ev='load', e=blk.term['cond'], loc=blk.term.get('loc'), _b=b, _i=max(len(blk.events) - 1, 0)),
                        [blk.term['cond']]))
        for (i, e, xs) in pts:
            if not xs or not h01.reads_block(xs, T):
                continue
            nreads += 1
            if ev_in.get((b, i)):
                bad.append((e, ev_in[(b, i)], xs))
    if nreads == 0:
        raise AnalysisBroken('%s: no read of the kernel-filled array found' % f.name)
    e0 = bad[0][0] if bad else None
    ctx.ob('R-C01d', '%s:%s' % (t.replace('iv_fd_poll_method_', ''), f.name), not bad, loc=e0['loc'] if e0 else f.loc,
           detail=('%s is read after the user callback at %s' % (canon(bad[0][2][0]) if isinstance(bad[0][2][0], dict) else describe(e0), relpath(bad[0][1]))) if bad else
                  '%d reads of the kernel-filled array, none after a user callback' % nreads,
           path=path_to(g, e0) if e0 else None, fn=f.q)


# --------------------------------------------------------------------------
# R-C01e
# --------------------------------------------------------------------------

def fd_slot_seeds(prog, found):
    """the record fields through which the array whose slots hold descriptor pointers is reached (from the discovered holder)"""
    seeds = set()
    for (f, e) in found.get(FD_SLOT, []):
        l = strip(e['lhs'])
        p = l['base'] if l.get('k') == 'index' else l['e']
        seeds |= {d for d in h01.pointer_closure(f, h01.designators(p)) if d[0] == 'fld'}
    return seeds


def slot_count_keys(g, rec, idxkeys):
    """(record, field) of the scalar(s), not part of the object, from which the object's slot index is taken when it gets a
    slot (`obj->idx = st->count++`, also through locals): the live count of the slot array"""
    keys = set()

    def pred(y):
        if y.get('k') == 'member' and not y.get('trecord') and '*' not in str(y.get('type', '')) \
                and (y.get('record'), y['field']) not in idxkeys:
            x = y
            while isinstance(x, dict) and x.get('k') == 'member':
                x = strip(x['base'])
            if isinstance(x, dict) and x.get('k') == 'var' and norm_rec(x.get('record')) != rec:
                keys.add((y.get('record'), y['field']))
        return False
    for e in g.events():
        if e['ev'] == 'store' and e.get('op') == '=' and 'rhs' in e and last_member(e['lhs']) in idxkeys:
            h01.depends_on(g, e['rhs'], pred)
    return keys


def _slot_addr(x):
    """(array pointer, index expression) of the slot lvalue `a[i]` / `*(a + i)`, or of the slot address `&a[i]` / `a + i`"""
    y = strip(x)
    if not isinstance(y, dict):
        return None
    if y.get('k') == 'addr':
        return _slot_addr(y['e'])
    if y.get('k') == 'deref':
        y = strip(y['e'])
        if not isinstance(y, dict):
            return None
    if y.get('k') == 'index':
        return y['base'], y['idx']
    if y.get('k') == 'bin' and y.get('op') == '+':
        return y['l'], y['r']
    return None


def _check_slot_released(g, un, rec, idxkeys, cntkeys, free, T):
    """Path-sensitive forward analysis over alternatives (sets of facts):
         'fld'        the index field of the object being unregistered still holds the value it had on entry
         ('loc', x)   the local x holds that entry value
         ('slotp', p) the local p holds the address of the slot of the descriptor array at that entry index
         'nil'        the entry value was found equal to `free`: the object had no slot
         'rel'        the slot at the entry index was overwritten with something that is not the object, or the entry
                      index was found equal to a value derived from the live count of the array
       At every return each alternative must contain 'rel', 'nil' or 'fld'."""
    objs = h01.object_vars(g, un, rec)
    if not objs:
        raise AnalysisBroken('%s: no parameter of kind %s' % (un.name, rec))

    def is_count(y):
        return y.get('k') == 'member' and (y.get('record'), y['field']) in cntkeys

    def is_entry(x, A):
        y = strip(x)
        if not isinstance(y, dict):
            return False
        if y.get('k') == 'member' and (y.get('record'), y['field']) in idxkeys and (h01.base_var_names(y) & objs):
            return 'fld' in A
        return any(('loc', n) in A for n in h01.var_names(x))

    def in_array(p):
        return bool(h01.designators(p) & T)

    def tr1(e, A):
        if e['ev'] == 'decl':
            return frozenset(f for f in A if not (isinstance(f, tuple) and f[1] == e['name']))
        if e['ev'] != 'store':
            return A
        l = strip(e['lhs'])
        if not isinstance(l, dict):
            return A
        plain = e.get('op') == '=' and 'rhs' in e
        if l.get('k') == 'var':
            x = l['name']
            ent = plain and is_entry(e['rhs'], A)
            sa = _slot_addr(e['rhs']) if plain and isinstance(strip(e['rhs']), dict) and strip(e['rhs']).get('k') in ('addr', 'bin') else None
            slotp = bool(sa) and in_array(sa[0]) and is_entry(sa[1], A)
            A = frozenset(f for f in A if not (isinstance(f, tuple) and f[1] == x))
            if ent:
                A = A | {('loc', x)}
            if slotp:
                A = A | {('slotp', x)}
            return A
        if last_member(e['lhs']) in idxkeys:
            if plain and is_entry(e['rhs'], A):
                return A            # the same value, whichever object is written
            return A - {'fld'}       # the object's own field, or one that may alias it
        if l.get('k') in ('index', 'deref') and not lvalue_steps(e['lhs']) and plain and not (h01.var_names(e['rhs']) & objs):
            sa = _slot_addr(l)
            if sa and in_array(sa[0]) and is_entry(sa[1], A):
                return A | {'rel'}
            if l.get('k') == 'deref' and any(('slotp', n) in A for n in h01.var_names(l['e'])):
                return A | {'rel'}
        return A

    def tr(e, S):
        return frozenset(tr1(e, A) for A in S)

    def edge(blk, si, S):
        atoms = [a for a in h01.edge_atoms(blk, si) if a[0] in ('==', '!=') and isinstance(a[3], dict) and isinstance(a[4], dict)]
        if not atoms:
            return S
        out = set()
        for A in S:
            dead = False
            for (op, lc, rc_, l, r) in atoms:
                for (a, b) in ((l, r), (r, l)):
                    if not is_entry(a, A) or is_entry(b, A):
                        continue
                    if h01.const_of(b) == free:
                        if op == '==':
                            A = A | {'nil'}
                        elif 'nil' in A:
                            dead = True
                    elif op == '==' and h01.depends_on(g, b, is_count):
                        A = A | {'rel'}
            if not dead:
                out.add(A)
        return frozenset(out) if out else None

    def join(a, b):
        u = a | b
        if len(u) > 48:
            c = None
            for A in u:
                c = A if c is None else (c & A)
            return frozenset([c])
        return u
    _, ev_in = forward(g, frozenset([frozenset(['fld'])]), tr, join, edge=edge)
    bad, n = [], 0
    for p in exit_points(g):
        S = ev_in.get(p)
        if S is None:
            continue
        n += 1
        for A in S:
            if not (A & {'rel', 'nil', 'fld'}):
                bad.append(p)
                break
    if not n:
        raise AnalysisBroken('%s: no return reached' % un.name)
    return not bad, bad


def slot_released(ctx):
    """R-C01e.  The poll-array methods keep a pointer to every descriptor that has events wanted in a slot of an array, at the
    index the descriptor remembers.  R-C01c (poll-slot) demands that the descriptor forgets its index; this rule demands
    that the *array* forgets the descriptor: the slot is overwritten (by the entry that is moved into the hole) or falls out
    of the live range (it was the last one).  The array, the index field and the live count are identified by role (the
    discovered slot holder; the field the slot address is computed from; what the index is taken from when a slot is
    assigned), the slot by the value the index field had when unregister was entered."""
    prog = ctx.prog
    found = discover_holders(prog)
    rec = FD_SLOT[1]
    spec = HOLDERS[FD_SLOT]
    un = prog.fn(UNREGISTER[rec]) if prog.has_fn(UNREGISTER[rec]) else None
    try:
        if FD_SLOT not in found:
            raise AnalysisBroken('no array slot that holds a descriptor pointer is found any more')
        if un is None:
            raise AnalysisBroken('unregister call %s of the kind not found' % UNREGISTER[rec])
        tables = slot_array_tables(prog, found)
        if not tables:
            raise AnalysisBroken('no poll-array method found')
        idxkeys = slot_index_keys(prog, found, FD_SLOT, rec)
        if not idxkeys:
            raise AnalysisBroken('index field of the %s array slot not found' % rec)
        seeds = fd_slot_seeds(prog, found)
        if not seeds:
            raise AnalysisBroken('the array of descriptor slots cannot be named')
    except AnalysisBroken as ex:
        ctx.ob('R-C01e', 'slot-released:%s' % rec, False, loc=un.loc if un else None, detail='cannot be shown: %s' % ex,
               fn=un.q if un else None)
        return
    for t in tables:
        tag = t.replace('iv_fd_poll_method_', '')
        try:
            slots = prog.method_tables()[t]
            nf = prog.resolve(*slots['notify_fd'])
            cntkeys = slot_count_keys(h01.inlined(prog, nf), rec, idxkeys)
            g = h01.inlined(prog, un, method_table=t, expand_methods=True, prune=True)
            T = h01.pointer_closure(g, seeds)
            ok, bad = _check_slot_released(g, un, rec, idxkeys, cntkeys, spec['free'], T)
            det = ('at every return of %s the slot of the descriptor array at the index the descriptor had on entry (%s) was overwritten '
                   'with another value, or that index equals a value derived from the live count (%s), or the descriptor had no '
                   'slot / keeps its index' % (un.name, '/'.join(sorted(k[1] for k in idxkeys)),
                                               '/'.join(sorted(k[1] for k in cntkeys)) or 'not found'))
            e0 = g.blocks[bad[0][0]].events[bad[0][1]] if (bad and bad[0][1] < len(g.blocks[bad[0][0]].events)) else None
        except AnalysisBroken as ex:
            ok, det, e0 = False, 'cannot be shown: %s' % ex, None
        ctx.ob('R-C01e', 'slot-released:%s [%s]' % (rec, tag), ok, loc=un.loc, detail=det,
               path=path_to(g, e0) if (not ok and e0 is not None) else None, fn=un.q)


# --------------------------------------------------------------------------
# R-C01f
# --------------------------------------------------------------------------

_CONTRA = [{'==', '!='}, {'<', '>='}, {'>', '<='}, {'==', '<'}, {'==', '>'}, {'<', '>'}]


def _atoms_contradict(a, b):
    """two atoms (op, lhs text, rhs text) about the same object state that cannot both hold"""
    if a[1] == b[1] and a[2] == b[2]:
        return {a[0], b[0]} in _CONTRA
    if a[1] == b[1] and a[0] == '==' and b[0] == '==':
        try:
            return int(a[2]) != int(b[2])
        except (TypeError, ValueError):
            return False
    return False


def tree_choices(g, rec, key, callee, locs=None):
    """Which tree the node `key` of an object of kind `rec` is handed to at the calls of `callee` (iv_avl_tree_insert /
    iv_avl_tree_delete) in the (inlined) graph g, as a function of the object's state.  Path-sensitive forward
    analysis over alternatives, each a set of facts:
         ('g', op, l, r)   the test `l op r` on fields of an object of the kind (pure: member reads of a pointer
                           variable of the kind, constants, operators) holds on this path
         ('val', x, t)     the scalar local x holds the value of the pure state expression t
         ('pt', x, d)      the pointer local x designates the tree d
       A fact dies when a variable it mentions is redefined or a field it mentions is stored to through any pointer.
       Tree designators: ('var', global), ('fld', record, field) for `&X->field`, ('ptr', record, field) for a pointer
       read from a field, ('?', text) when not understood.
       Returns [(guards spelled with OBJ for the object whose node is passed, designator, loc)] per site and path."""
    from ..core import subst
    want = norm_rec(rec)
    exprs, names_in, fields_in = {}, {}, {}

    def reg(x):
        t = canon(x)
        if t not in exprs:
            exprs[t] = x
            names_in[t] = frozenset(y['name'] for y in walk(x) if y.get('k') == 'var')
            fields_in[t] = frozenset((y.get('record'), y['field']) for y in walk(x) if y.get('k') == 'member')
        return t

    def path_ok(b):
        b = strip(b)
        if h01.is_localvar(b):
            return True
        if isinstance(b, dict) and b.get('k') == 'member':
            return path_ok(b['base'])
        return False

    def pure_state(x):
        """x is computed only from constants and reads of fields of a record of the kind (`o->f`, `t->embedded.f`)"""
        has = [False]

        def ok(y):
            if isinstance(y, list):
                return all(ok(z) for z in y)
            if not isinstance(y, dict):
                return True
            k = y.get('k')
            if k == 'member' and norm_rec(y.get('record')) == want and not y.get('trecord'):
                has[0] = True
                return path_ok(y['base'])
            if k == 'var':
                return y.get('vk') not in ('local', 'param', 'global', 'staticlocal')
            if k in ('call', 'assign', 'incdec', 'deref', 'index', 'addr', 'stmtexpr', 'member'):
                return False
            return all(ok(v) for kk, v in y.items() if isinstance(v, (dict, list)) and not kk.startswith('_'))
        return ok(x) and has[0]

    def texts(f):
        return f[2:] if f[0] == 'g' else ((f[2],) if f[0] in ('val', 'ad') else ())

    def kill_name(A, n):
        return frozenset(f for f in A if not (f[0] in ('pt', 'val', 'ad') and f[1] == n) and not any(n in names_in[t] for t in texts(f)))

    def kill_fields(A, flds):
        return frozenset(f for f in A if f[0] == 'ad' or not any(fields_in[t] & flds for t in texts(f)))

    def sub(x, A):
        vals = {f[1]: f[2] for f in A if f[0] == 'val'}
        if not vals:
            return x
        return subst(x, lambda y: exprs[vals[y['name']]] if (h01.is_localvar(y) and y['name'] in vals) else None)

    def guards_of(atoms):
        out = set()
        for (op, lc, rc_, l, r) in atoms:
            if not isinstance(l, dict) or not pure_state(l):
                continue
            if isinstance(r, dict):
                if h01.const_of(r) is not None:
                    rt = str(h01.const_of(r))
                elif pure_state(r):
                    rt = reg(r)
                else:
                    continue
            else:
                rt = str(rc_)
            if rt not in exprs:
                exprs[rt], names_in[rt], fields_in[rt] = None, frozenset(), frozenset()
            out.add(('g', op, reg(l), rt))
        return out

    def add_guards(A, gs):
        """A with the guards, or None when they contradict what is known on this path"""
        for gd in gs:
            if any(f[0] == 'g' and _atoms_contradict(f[1:], gd[1:]) for f in A):
                return None
        return A | frozenset(gs)

    def resolve(x, A, depth=4):
        """[(alternative, designator)] of the tree pointer value x on the path A"""
        a = strip(x)
        if not isinstance(a, dict):
            return [(A, ('?', str(a)))]
        if a.get('k') == 'cond' and depth > 0:
            out = []
            for pol, br in ((True, a['a']), (False, a['b'])):
                A2 = add_guards(A, guards_of([t for t in norm_cond(sub(a['c'], A), pol) if t[0] != 'const']))
                if A2 is not None:
                    out += resolve(br, A2, depth - 1)
            return out
        if h01.is_localvar(a):
            ds = sorted(f[2] for f in A if f[0] == 'pt' and f[1] == a['name'])
            if ds:
                return [(A, ds[0])]
            t = h01.resolve_ptr(g, a)
            if strip(t) is not a and depth > 0:
                return resolve(t, A, depth - 1)
            return [(A, ('?', canon(a)))]
        if a.get('k') == 'addr':
            y = strip(a['e'])
            if isinstance(y, dict) and y.get('k') == 'var' and y.get('vk') in ('global', 'staticlocal'):
                return [(A, ('var', y['name']))]
            lm = last_member(a['e'])
            if lm and isinstance(y, dict) and y.get('k') == 'member':
                return [(A, ('fld',) + tuple(lm))]
        if a.get('k') == 'member' and last_member(a):
            return [(A, ('ptr',) + tuple(last_member(a)))]
        return [(A, ('?', canon(a)))]

    def tr1(e, A):
        ev = e['ev']
        if ev == 'decl':
            return [kill_name(A, e['name'])]
        if ev == 'store':
            l = strip(e['lhs'])
            if not isinstance(l, dict):
                return [A]
            if l.get('k') == 'var':
                x = l['name']
                plain = e.get('op') == '=' and 'rhs' in e and l.get('vk') in ('local', 'param')
                if not plain:
                    return [kill_name(A, x)]
                rs = resolve(e['rhs'], A)
                if rs and all(d[0] != '?' for (_, d) in rs):
                    # (also: x holds the address of the record `L`, `x = &t->embedded`, or is a copy of such a pointer)
                    ad = set()
                    r0 = strip(e['rhs'])
                    if isinstance(r0, dict) and r0.get('k') == 'addr' and isinstance(strip(r0['e']), dict) \
                            and strip(r0['e']).get('k') == 'member' and path_ok(r0['e']):
                        t = reg(strip(r0['e']))
                        if x not in names_in[t]:
                            ad.add(('ad', x, t))
                    elif h01.is_localvar(r0):
                        ad |= {('ad', x, f[2]) for f in A if f[0] == 'ad' and f[1] == r0['name'] and x not in names_in[f[2]]}
                    return [kill_name(A2, x) | {('pt', x, d)} | ad for (A2, d) in rs]
                r2 = sub(e['rhs'], A)
                A = kill_name(A, x)
                if isinstance(r2, dict) and pure_state(r2):
                    t = reg(r2)
                    if x not in names_in[t]:
                        A = A | {('val', x, t)}
                return [A]
            # the field written (through any pointer): `o->sub.f = v` writes f, not `sub` (a whole-record store
            # `o->sub = v` names `sub`, which every read of `o->sub.f` mentions)
            lm = last_member(e['lhs'])
            return [kill_fields(A, {lm}) if lm else A]
        if ev == 'call':
            for a in e.get('args', []):
                a = strip(a)
                if isinstance(a, dict) and a.get('k') == 'addr' and isinstance(strip(a['e']), dict) and strip(a['e']).get('k') == 'var':
                    A = kill_name(A, strip(a['e'])['name'])
            return [A]
        return [A]

    memo = {}

    def tr(e, S):
        if e['ev'] not in ('decl', 'store', 'call'):
            return S
        out = set()
        for A in S:
            k = (id(e), A)
            r = memo.get(k)
            if r is None:
                r = memo[k] = tr1(e, A)
            out.update(r)
        return frozenset(out)

    def edge(blk, si, S):
        if blk.succ[si] not in live:
            return None             # no insert / delete of the node is reachable from there
        k = (blk.id, si, S)
        if k not in memo:
            memo[k] = edge1(blk, si, S)
        return memo[k]

    def edge1(blk, si, S):
        t = blk.term
        if not t or t.get('cond') is None or len(blk.succ) < 2:
            return S
        out = set()
        for A in S:
            if t.get('cls') == 'SwitchStmt':
                atoms = [(op, lc, rc_, sub(l, A), r) for (op, lc, rc_, l, r) in h01.edge_atoms(blk, si)]
            elif t.get('cls') == 'MethodDispatch' or len(blk.succ) != 2:
                atoms = []
            else:
                atoms = [a for a in norm_cond(sub(t['cond'], A), si == 0) if a[0] != 'const']
            A2 = add_guards(A, guards_of(atoms))
            if A2 is not None:
                out.add(A2)
        return frozenset(out) if out else None

    def join(a, b):
        u = a | b
        if len(u) > 64:
            c = None
            for A in u:
                c = A if c is None else (c & A)
            return frozenset([c])
        return u

    sites = [e for e in g.events() if e['ev'] == 'call' and e.get('callee') == callee and len(e.get('args', [])) > 1
             and h01.arg_member(g, e, 1) == key and (locs is None or e.get('loc') in locs)]
    if not sites:
        return []
    preds = {}
    for b, blk in g.blocks.items():
        for s_ in blk.succ:
            if s_ is not None:
                preds.setdefault(s_, set()).add(b)
    live = {e['_b'] for e in sites}
    work = list(live)
    while work:
        for p_ in preds.get(work.pop(), ()):
            if p_ not in live:
                live.add(p_)
                work.append(p_)
    _, ev_in = forward(g, frozenset([frozenset()]), tr, join, edge=edge)
    out = []
    for e in sites:
        S = ev_in.get((e['_b'], e['_i']))
        if S is None:
            continue            # unreachable copy
        # the object is the record the node passed is a member of: `&o->node` (o a pointer) or `&t->embedded.node`
        n = strip(e['args'][1])
        if not (isinstance(n, dict) and n.get('k') == 'addr'):
            n = strip(h01.resolve_ptr(g, n))
        m = strip(n['e']) if isinstance(n, dict) and n.get('k') == 'addr' else None
        if not (isinstance(m, dict) and m.get('k') == 'member'):
            out.append((frozenset(), ('?', 'node ' + canon(e['args'][1])), e.get('loc')))
            continue
        oarrow, otext, onames = bool(m['arrow']), canon(strip(m['base'])), (h01.var_names(m['base']) if m['arrow'] else set())
        OBJ = {'k': 'var', 'name': 'OBJ', 'vk': 'obj'}

        for A in S:
            for (A2, d) in resolve(e['args'][0], A):
                ptrs = set(onames) if oarrow else {f[1] for f in A2 if f[0] == 'ad' and f[2] == otext}

                def to_obj(y, ptrs=ptrs):
                    if y.get('k') != 'member':
                        return None
                    if bool(y['arrow']) == oarrow and canon(strip(y['base'])) == otext:
                        return dict(y, arrow=True, base=OBJ)
                    if y['arrow'] and (h01.var_names(y['base']) & ptrs):
                        return dict(y, arrow=True, base=OBJ)
                    return None
                gs = set()
                for f in A2:
                    if f[0] != 'g':
                        continue
                    sp = []
                    for t in f[2:]:
                        x = exprs[t]
                        if x is None:
                            sp.append(t)
                            continue
                        x2 = subst(x, to_obj)
                        if any(y.get('k') == 'var' and y.get('vk') in ('local', 'param') for y in walk(x2)):
                            sp = None           # a test about another object of the kind
                            break
                        sp.append(canon(x2))
                    if sp:
                        gs.add((f[1], sp[0], sp[1]))
                out.append((frozenset(gs), d, e.get('loc')))
    return out


def holder_agreement(ctx):
    """R-C01f.  R-C01c demands that unregister takes the object's node off *a* tree; which tree is an argument of the
    delete, and a register may choose the tree from the object's state (a flag).  After unregister returns no tree
    may still link the object, so the tree named at the delete must be the one named at the insert whenever the object
    is in the same state.  Trees, nodes and the state tests are identified by role (the discovered tree holders; the
    node's (record, field); pure tests on fields of the object), through selector helpers, cached pointers, `?:`,
    flag variables and locals that cache a field."""
    prog = ctx.prog
    found = discover_holders(prog)
    from .. import roles
    for sig, spec in sorted(HOLDERS.items()):
        if sig[0] != 'tree':
            continue
        rec, fld = sig[1], sig[2]
        key = (rec, fld)
        inst = 'agree:tree %s.%s' % key
        un = prog.fn(UNREGISTER[rec]) if (rec in UNREGISTER and prog.has_fn(UNREGISTER[rec])) else None
        try:
            if sig not in found:
                raise AnalysisBroken('the tree holder of the kind is no longer found')
            if un is None:
                raise AnalysisBroken('unregister call %s of the kind not found' % UNREGISTER.get(rec))
            locs = {e['loc'] for (_, e) in found[sig] if e['ev'] == 'call' and e.get('callee') == 'iv_avl_tree_insert'}
            ins = []
            reach = set()
            for (f, e) in found[sig]:
                reach |= {c.q for c in roles.callers_closure(prog, f)}
            for r in roles.roots(prog):
                if r.q in reach:
                    ins += tree_choices(h01.inlined(prog, r), rec, key, 'iv_avl_tree_insert', locs)
            outs = tree_choices(h01.inlined(prog, un, method_table=None, expand_methods=True, prune=True), rec, key, 'iv_avl_tree_delete')
            if not ins:
                raise AnalysisBroken('no path to the tree insert of %s.%s is found in a root of the library' % key)
            if not outs:
                raise AnalysisBroken('%s does not reach a tree delete of %s.%s' % (un.name, rec, fld))
            unk = [d for (_, d, _) in ins + outs if d[0] == '?']
            if unk:
                raise AnalysisBroken('tree argument not understood (%s)' % unk[0][1])
        except AnalysisBroken as ex:
            ctx.ob('R-C01f', inst, False, loc=un.loc if un else None, detail='cannot be shown: %s' % ex, fn=un.q if un else None)
            continue
        bad = None
        for (g1, d1, l1) in ins:
            for (g2, d2, l2) in outs:
                if d1 != d2 and not any(_atoms_contradict(a, b) for a in g1 for b in g2):
                    bad = bad or (g1, d1, l1, g2, d2, l2)
        def show(gs):
            return ' && '.join(sorted('%s %s %s' % (a[1], a[0], a[2]) for a in gs)) or 'any state'
        trees = sorted({'.'.join(str(x) for x in d[1:]) for (_, d, _) in ins + outs})
        ctx.ob('R-C01f', inst, bad is None, loc=(bad[5] if bad else un.loc),
               detail=('inserted into %s at %s when [%s], but %s deletes it from %s when [%s]: in that state the object stays linked in '
                       'the tree it was inserted into after unregister returns'
                       % ('.'.join(str(x) for x in bad[1][1:]), relpath(bad[2]), show(bad[0]), un.name, '.'.join(str(x) for x in bad[4][1:]), show(bad[3])))
               if bad else '%d insert path(s), %d delete path(s) of %s: same tree (%s) whenever the tests on the object\'s state are compatible'
                           % (len(ins), len(outs), un.name, ', '.join(trees)), fn=un.q)

