"""C09 — iv_event_raw: posts from threads, signal handlers, children reach the owner."""
from ..core import (names_of, same_value, AnalysisBroken, Inliner, canon, strip, last_member, must_pass, relpath, norm_cond, walk, forward)
from ..analyses import (is_call, holding, path_to, describe, exits_of, callback_kind, loops, innermost_loop,
                        delta_analysis, is_fail, must_pass_from_block, force_edges, prune_infeasible)
from .c15 import eintr_retried


def run(ctx):
    ctx.rule('R-C09a', 'drain, then dispatch: every path to the user handler passes through the read of the event descriptor and lies on '
                       'its success edge; the would-block arm returns without dispatch; other errors are fatal', floor=3)
    ctx.rule('R-C09b', 'posting cannot block: the write end is made non-blocking on every success path of registration (pipe mode: '
                       'explicitly; eventfd mode: it is the registered read descriptor); the post\'s only blocking-capable call is write, retried on EINTR', floor=4)
    ctx.rule('R-C09c', 'mode consistency: register, handler, post and unregister discriminate pipe/eventfd by the same flag; the read '
                       'size is 8 exactly in eventfd mode; unregister closes the write end exactly in pipe mode', floor=5)
    ctx.section(drain)
    ctx.section(nonblock)
    ctx.section(modes)


def drain(ctx):
    prog = ctx.prog
    f = prog.fn('iv_event_raw_got_event')
    sites = [e for e in f.events() if callback_kind(e) == ('callback', 'event_raw')]
    reads = [e for e in f.events() if is_call(e, 'read')]
    if not sites or not reads:
        raise AnalysisBroken('raw event handler: read or dispatch not found')
    hd = holding(f)
    for cs in sites:
        mp = must_pass(f, lambda e: e in reads and last_member(e['args'][0]) == ('iv_fd', 'fd'))
        ctx.ob('R-C09a', 'handler:read-before-dispatch', bool(mp.get((cs['_b'], cs['_i']))), loc=cs['loc'],
               detail='the event descriptor is read (drained) on every path to the user handler', fn=f.q)
        A = hd.get((cs['_b'], cs['_i']), frozenset())
        rv = None
        for s in f.events():
            if s['ev'] == 'store' and strip(s.get('rhs', {})).get('k') == 'call' and strip(s['rhs']).get('callee') == 'read':
                rv = canon(s['lhs'])
        ok = rv is not None and any(a[1] == rv and ((a[0] == '>' and a[2] == '0') or (a[0] == '>=' and a[2] == '1')) for a in A)
        ctx.ob('R-C09a', 'handler:dispatch-on-success-edge', ok, loc=cs['loc'],
               detail='the handler runs only on the edge %s > 0 (something was drained)' % rv, path=None if ok else path_to(f, cs), fn=f.q)
    # once something was drained the handler must run before the function returns
    rvs = {canon(s['lhs']) for s in f.events() if s['ev'] == 'store' and strip(s.get('rhs', {})).get('k') == 'call' and strip(s['rhs']).get('callee') == 'read'}
    posvars = set()
    for s__ in f.events():
        if s__['ev'] == 'store' and strip(s__['lhs']).get('k') == 'var' and 'rhs' in s__:
            r_ = strip(s__['rhs'])
            vals = [r_['v']] if r_.get('k') == 'int' else ([strip(r_['a']).get('v'), strip(r_['b']).get('v')] if r_.get('k') == 'cond' else [None])
            nm = strip(s__['lhs'])['name']
            if all(isinstance(v, int) and v > 0 for v in vals):
                posvars.add(nm)
            else:
                posvars.discard(nm)
    def tr(e, s_):
        if e in sites:
            return False
        return s_
    def edge(blk, si, s_):
        if blk.term and blk.term.get('cond') is not None and len(blk.succ) == 2:
            for (op, lc, rc, l, r) in norm_cond(blk.term['cond'], si == 0):
                if lc in rvs and rc.lstrip('-').isdigit():
                    n_ = int(rc)
                    if (op == '>' and n_ >= 0) or (op == '>=' and n_ >= 1) or (op == '==' and n_ > 0):
                        return True
                if lc in rvs and rc in posvars and op in ('==', '>=', '>'):
                    return True
        return s_
    _, ev_in = forward(f, False, tr, lambda a, b: a or b, edge=edge)
    pts = [(pb, pi) for (pb, pi, _) in exits_of(f)] + [(f.exit, 0)]
    lost = [p for p in pts if ev_in.get(p)]
    ctx.ob('R-C09a', 'handler:drained-implies-dispatch', not lost, loc=f.loc,
           detail='no path returns without calling the handler after a read that returned data (a later would-block read must not cancel the dispatch)', fn=f.q)
    # EAGAIN arm returns; other errors fatal: on the ret <= 0 edge no path reaches the handler (implied) and non-EAGAIN is fatal
    fat = [e for e in f.events() if is_call(e, 'iv_fatal')]
    okf = False
    for e in fat:
        A = hd.get((e['_b'], e['_i']), frozenset())
        if any(a[0] == '!=' and '__errno_location' in a[1] and a[2] == '11' for a in A):
            okf = True
    ctx.ob('R-C09a', 'handler:errors-other-than-EAGAIN-fatal', okf, loc=f.loc,
           detail='a read error other than would-block is fatal (a lost descriptor would lose posts silently)', fn=f.q)


def nonblock(ctx):
    prog = ctx.prog
    f = prog.fn('iv_event_raw_register')
    # eventfd mode: both ends are the same descriptor, and it is registered (registration makes it non-blocking: C18 R-C18d)
    hd = holding(f)
    st = [e for e in f.events() if e['ev'] == 'store' and canon(e['lhs']) in ('fd[0]', 'fd[1]')]
    same = {}
    for e in st:
        same.setdefault(e['_b'], {})[canon(e['lhs'])] = canon(e['rhs'])
    ok = any(v.get('fd[0]') is not None and v.get('fd[0]') == v.get('fd[1]') for v in same.values())
    ctx.ob('R-C09b', 'register:eventfd-both-ends-same-descriptor', ok, loc=f.loc,
           detail='in eventfd mode fd[0] and fd[1] are stored the same value in one block', fn=f.q)
    res = delta_analysis(f, [])
    okret = [e for (e, d, rc, p) in res.rets if e is not None and not is_fail(rc)]
    regs = must_pass(f, lambda e: is_call(e, 'iv_fd_register') and canon(e['args'][0]).endswith('->event_rfd'))
    rfd = [e for e in f.events() if e['ev'] == 'store' and canon(e['lhs']).endswith('->event_rfd.fd')]
    ctx.ob('R-C09b', 'register:read-end-registered', all(regs.get((e['_b'], e['_i'])) for e in okret) and bool(okret)
           and bool(rfd) and all(canon(e['rhs']) == 'fd[0]' for e in rfd), loc=f.loc,
           detail='event_rfd.fd = fd[0] and iv_fd_register(&this->event_rfd) on every success path (registration sets O_NONBLOCK)', fn=f.q)
    wfd = [e for e in f.events() if e['ev'] == 'store' and last_member(e['lhs']) == ('iv_event_raw', 'event_wfd')]
    ctx.ob('R-C09b', 'register:write-end-is-fd[1]', bool(wfd) and all(canon(e['rhs']) == 'fd[1]' for e in wfd), loc=wfd[0]['loc'] if wfd else f.loc,
           detail='event_wfd = fd[1]', fn=f.q)
    # pipe mode: forced eventfd_in_use == 0 at the final test => set_nonblock(fd[1]) on every success path
    def keep(blk, si, atoms):
        for (op, lc, rc, l, r) in atoms:
            if lc == 'eventfd_in_use' and rc == '0' and blk.id in later_blocks:
                return op == '=='
        return None
    # blocks after the registration of the read end
    reg_ev = [e for e in f.events() if is_call(e, 'iv_fd_register')]
    later_blocks = set()
    if reg_ev:
        st_ = [reg_ev[0]['_b']]
        while st_:
            x = st_.pop()
            if x in later_blocks or x is None:
                continue
            later_blocks.add(x)
            st_.extend(f.blocks[x].succ)
    g = force_edges(f, keep)
    mp = must_pass(g, lambda e: is_call(e, 'iv_fd_set_nonblock') and canon(e['args'][0]) == 'fd[1]')
    pts = [(e['_b'], e['_i']) for e in okret]
    reach = [p for p in pts if p in mp]
    ctx.ob('R-C09b', 'register:pipe-write-end-nonblocking', bool(reach) and all(mp[p] for p in reach), loc=f.loc,
           detail='in pipe mode iv_fd_set_nonblock(fd[1]) on every success path', fn=f.q)
    p = prog.fn('iv_event_raw_post')
    calls = [e for e in p.events() if e['ev'] == 'call']
    names = {e.get('callee') for e in calls}
    ctx.ob('R-C09b', 'post:only-write', names <= {'write', '__errno_location'}, loc=p.loc,
           detail='calls made by the post function: %s (safe in signal handlers and forked children)' % sorted(n for n in names if n), fn=p.q)
    for w in [e for e in calls if e.get('callee') == 'write']:
        ctx.ob('R-C09b', 'post:write-retried-on-EINTR', eintr_retried(p, w), loc=w['loc'],
               detail='the write is retried while it fails with EINTR', fn=p.q)


def modes(ctx):
    prog = ctx.prog
    users = {}
    for f in prog.all_funcs():
        if not f.file.endswith('iv_event_raw_posix.c'):
            continue
        for b, blk in f.blocks.items():
            c = blk.term.get('cond') if blk.term else None
            if c is None:
                continue
            for x in walk(c):
                if x.get('k') == 'var' and x.get('vk') in ('global', 'staticlocal'):
                    users.setdefault(f.name, set()).add(x['name'])
        for e in f.events():
            for key in ('rhs', 'init'):
                if key in e:
                    for x in walk(e[key]):
                        if x.get('k') == 'cond':
                            for y in walk(x['c']):
                                if y.get('k') == 'var' and y.get('vk') in ('global', 'staticlocal'):
                                    users.setdefault(f.name, set()).add(y['name'])
    need = ('iv_event_raw_got_event', 'iv_event_raw_register', 'iv_event_raw_unregister', 'iv_event_raw_post')
    for n in need:
        ctx.ob('R-C09c', '%s:mode-flag' % n, users.get(n) == {'eventfd_in_use'}, loc=prog.fn(n).loc,
               detail='mode discriminators read: %s' % sorted(users.get(n, [])), fn=n)
    # read size
    h = prog.fn('iv_event_raw_got_event')
    from .. import interp
    szs = [e for e in h.events() if e['ev'] == 'store' and canon(e['lhs']) == 'toread']
    if not szs:
        raise AnalysisBroken('handler: read size computation not found')
    v1 = interp.evaluate(szs[0]['rhs'], interp.Assignment(bools={'eventfd_in_use': True}), {})
    v0 = interp.evaluate(szs[0]['rhs'], interp.Assignment(bools={'eventfd_in_use': False}), {})
    ctx.ob('R-C09c', 'handler:read-size', v1 == 8 and v0 >= 8, loc=szs[0]['loc'],
           detail='eventfd mode reads %s bytes (must be exactly 8), pipe mode drains up to %s' % (v1, v0), fn=h.q)
    # unregister closes the write end iff pipe mode
    u = prog.fn('iv_event_raw_unregister')
    hd = holding(u)
    cl = [e for e in u.events() if is_call(e, 'close') and last_member(e['args'][0]) == ('iv_event_raw', 'event_wfd')]
    okc = bool(cl)
    for e in cl:
        A = hd.get((e['_b'], e['_i']), frozenset())
        okc = okc and any(a[0] == '==' and a[1] == 'eventfd_in_use' and a[2] == '0' for a in A)
    # ... and on the pipe edge it is always reached
    okp = False
    for b, blk in u.blocks.items():
        if blk.term and blk.term.get('cond') is not None and len(blk.succ) == 2:
            for si in (0, 1):
                for (op, lc, rc, l, r) in norm_cond(blk.term['cond'], si == 0):
                    if lc == 'eventfd_in_use' and op == '==' and rc == '0':
                        mp = must_pass_from_block(u, blk.succ[si], lambda e: e in cl)
                        okp = bool(mp.get((u.exit, 0)))
    ctx.ob('R-C09c', 'unregister:write-end-closed-iff-pipe', okc and okp, loc=u.loc,
           detail='close(event_wfd) exactly on the !eventfd_in_use edge (eventfd: same descriptor, closed once)', fn=u.q)
    rc = must_pass(u, lambda e: is_call(e, 'close') and canon(e['args'][0]).endswith('->event_rfd.fd'))
    un = must_pass(u, lambda e: is_call(e, 'iv_fd_unregister'))
    ctx.ob('R-C09c', 'unregister:read-end-unregistered-and-closed', bool(rc.get((u.exit, 0))) and bool(un.get((u.exit, 0))), loc=u.loc,
           detail='iv_fd_unregister(&event_rfd) and close(event_rfd.fd) on every path', fn=u.q)
