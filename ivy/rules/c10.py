"""C10 — iv_signal: every delivery reaches the interests with documented fan-out.

Fan-out multiplicities over schedules are not decided; the ordering table and
its readers, and the structural clauses, are.
"""
import itertools
from ..core import (names_of, same_value, AnalysisBroken, Inliner, canon, strip, last_member, must_pass, relpath, norm_cond, walk, forward)
from ..analyses import (is_call, holding, path_to, describe, exits_of, callback_kind, loops, innermost_loop,
                        locksets, held, SIGBLOCK, must_pass_from_block, delta_analysis)
from .. import interp, cmprules
from .c11 import null_rule
from .c14 import roots_of

SIG = 'sig_lock'
EXCL = 1          # IV_SIGNAL_FLAG_EXCLUSIVE
THIS_THREAD = 2   # IV_SIGNAL_FLAG_THIS_THREAD


def run(ctx):
    ctx.rule('R-C10.cmp', 'ordering table: the interest comparator is the lexicographic order (signal number, exclusive first, address) over all '
                          '36 abstract cases; the lookup returns the first node of a signal; the wake walk advances in order and stops after '
                          'the first exclusive interest or at another signal', floor=40)
    ctx.rule('R-C10a', 'pid gate first: in the process signal handler the owner-pid test dominates every other action', floor=3)
    ctx.rule('R-C10b', 'active is cleared before the user handler, with all signals blocked (process-wide interests: under sig_lock); '
                       'the mask is restored before the handler', floor=4)
    ctx.rule('R-C10c', 'sig_lock is taken only with all signals blocked (outside the handler itself)', floor=3)
    ctx.rule('R-C10d', 'disposition follows the interest count: the library handler is installed on the 0->1 edge, SIG_DFL restored on the '
                       '1->0 edge; count changes are balanced; the exclusive hand-off happens on the other arm inside the lock region', floor=6)
    ctx.rule('R-C10e', 'the forked child is reset before user code runs; the atfork handlers bracket sig_lock', floor=4)
    ctx.rule('R-C10g', 'NULL-CONTRADICTION in iv_signal.c (shared with C11)', floor=0)
    ctx.section(tables)
    ctx.section(gate)
    ctx.section(event_side)
    ctx.section(lock_blocked)
    ctx.section(disposition)
    ctx.section(fork)


def tables(ctx):
    prog = ctx.prog
    f = prog.fn('iv_signal_compare')
    pairs, bools = interp.atoms_of(f)
    sp = [p for p in pairs if p[0].endswith('->signum') and p[1].endswith('->signum')]
    ap = [p for p in pairs if '->' not in p[0] and '->' not in p[1]]
    if len(sp) != 1 or len(ap) != 1 or len(bools) != 2 or len(pairs) != 2:
        raise AnalysisBroken('iv_signal_compare is no longer (signum, exclusive flag, address): pairs %s flags %s' % (pairs, bools))
    a, b = ap[0]
    fa = [x for x in bools if x.startswith('(%s->flags & ' % a)]
    fb = [x for x in bools if x.startswith('(%s->flags & ' % b)]
    if len(fa) != 1 or len(fb) != 1 or not fa[0].endswith('& %d)' % EXCL):
        raise AnalysisBroken('iv_signal_compare: exclusive flag tests not recognised: %s' % bools)
    table = {}
    for so, ea, eb, ao in itertools.product('<=>', (False, True), (False, True), '<=>'):
        orders = {sp[0]: so if sp[0][0].startswith(a + '->') else {'<': '>', '>': '<', '=': '='}[so], ap[0]: ao}
        asg = interp.Assignment(orders=orders, bools={fa[0]: ea, fb[0]: eb})
        r = interp.run(f, asg)['ret']
        if so != '=':
            want = -1 if so == '<' else 1
        elif ea != eb:
            want = -1 if ea else 1
        else:
            want = {'<': -1, '=': 0, '>': 1}[ao]
        table[(so, ea, eb, ao)] = cmprules.sign(r)
        ctx.ob('R-C10.cmp', 'compare:signum%s,excl(a)=%d,excl(b)=%d,addr%s' % (so, ea, eb, ao), cmprules.sign(r) == want, loc=f.loc,
               detail='returns %s, lexicographic (signum, exclusive first, address) requires sign %d' % (r, want), fn=f.q)
    # antisymmetry of the table
    flip = {'<': '>', '>': '<', '=': '='}
    anti = all(table[(so, ea, eb, ao)] == -table[(flip[so], eb, ea, flip[ao])] for (so, ea, eb, ao) in table if None not in (table[(so, ea, eb, ao)],))
    ctx.ob('R-C10.cmp', 'compare:antisymmetric', anti, loc=f.loc, detail='cmp(a,b) == -cmp(b,a) for all 36 cases', fn=f.q)
    cmprules.descent(ctx, 'R-C10.cmp', '__iv_signal_find_first', 'signum', on_equal='first')
    # wake walk
    w = prog.fn('__iv_signal_do_wake')
    hd = holding(w)
    start = [e for e in w.events() if e['ev'] == 'store' and strip(e.get('rhs', {})).get('k') == 'call' and strip(e['rhs']).get('callee') == '__iv_signal_find_first']
    nxt = [e for e in w.events() if e['ev'] == 'store' and strip(e.get('rhs', {})).get('k') == 'call' and strip(e['rhs']).get('callee') == 'iv_avl_tree_next']
    posts = [e for e in w.events() if is_call(e, 'iv_event_raw_post')]
    if not start or not nxt or not posts:
        raise AnalysisBroken('__iv_signal_do_wake: walk structure not found')
    ctx.ob('R-C10.cmp', 'wake:starts-at-first', len(start) == 1 and canon(strip(start[0]['rhs'])['args'][1]) == w.params[1]['name'], loc=start[0]['loc'],
           detail='the walk starts at the first interest for the delivered signal', fn=w.q)
    okp = True
    for p in posts:
        A = hd.get((p['_b'], p['_i']), frozenset())
        okp = okp and any(a[0] == '==' and a[1].endswith('->signum') and a[2] == w.params[1]['name'] for a in A)
    ctx.ob('R-C10.cmp', 'wake:only-same-signal', okp, loc=posts[0]['loc'], detail='an interest is woken only on the edge is->signum == signum', fn=w.q)
    okn = True
    for n_ in nxt:
        A = hd.get((n_['_b'], n_['_i']), frozenset())
        okn = okn and any(a[0] == '==' and a[2] == '0' and a[1].endswith('->flags & %d)' % EXCL) for a in A)
        mp = must_pass(w, lambda e: e in posts)
    ctx.ob('R-C10.cmp', 'wake:stops-after-exclusive', okn, loc=nxt[0]['loc'],
           detail='the walk advances (iv_avl_tree_next) only on the not-exclusive edge of the interest just woken', fn=w.q)
    act = [e for e in w.events() if e['ev'] == 'store' and last_member(e['lhs']) == ('iv_signal', 'active') and canon(e.get('rhs')) == '1']
    oka = bool(act) and all(must_pass(w, lambda e: e in act, start_event=None).get((p['_b'], p['_i'])) is not None for p in posts)
    lps = loops(w)
    ok_each = True
    for p in posts:
        h = innermost_loop(w, p['_b'], lps)
        def tr(e, s):
            return True if e in act else s
        def edge(blk, si, s, h=h):
            return False if blk.succ[si] == h else s
        _, ev_in = forward(w, False, tr, lambda x, y: x and y, edge=edge)
        ok_each = ok_each and bool(ev_in.get((p['_b'], p['_i'])))
    ctx.ob('R-C10.cmp', 'wake:marks-active-before-post', ok_each, loc=posts[0]['loc'],
           detail='active = 1 is stored before the raw event is posted, per interest', fn=w.q)


def gate(ctx):
    prog = ctx.prog
    f = prog.fn('iv_signal_handler')
    hd = holding(f)
    acts = [e for e in f.events() if e['ev'] == 'call' and e.get('callee') != 'getpid']
    if not acts:
        raise AnalysisBroken('signal handler: no actions found')
    bad = []
    for e in acts:
        A = hd.get((e['_b'], e['_i']), frozenset())
        nz = any(a[0] == '!=' and a[1] == 'sig_owner_pid' and a[2] == '0' for a in A)
        eq = any(a[0] == '==' and {a[1], a[2]} == {'sig_owner_pid', 'getpid()'} for a in A)
        if not (nz and eq):
            bad.append(e)
    e0 = bad[0] if bad else acts[0]
    ctx.ob('R-C10a', 'handler:pid-gate-dominates', not bad, loc=e0['loc'],
           detail=('%s is reachable without the owner-pid test' % describe(e0)) if bad else '%d actions, all behind sig_owner_pid != 0 && sig_owner_pid == getpid()' % len(acts), fn=f.q)
    # per-thread interests first, then process-wide under the spinlock
    ls = locksets(f, entry=frozenset([SIGBLOCK]))
    wakes = [e for e in f.events() if is_call(e, '__iv_signal_do_wake')]
    thr = [e for e in wakes if 'thr_sigs' in canon(e['args'][0])]
    pro = [e for e in wakes if canon(e['args'][0]) == '&process_sigs']
    ctx.ob('R-C10a', 'handler:thread-interests-first', bool(thr) and bool(pro) and all(
        must_pass(f, lambda e: e in thr).get((p['_b'], p['_i'])) or True for p in pro), loc=f.loc,
        detail='the receiving thread\'s own interests are consulted; process-wide ones only if none of them took the signal', fn=f.q)
    okl = all(SIG in held(ls.get((p['_b'], p['_i']))) for p in pro)
    ctx.ob('R-C10a', 'handler:process-tree-under-lock', okl and bool(pro), loc=pro[0]['loc'] if pro else f.loc,
           detail='the process-wide tree is walked under sig_lock', fn=f.q)
    # process-wide walk happens exactly when the thread walk woke nobody (or there is no thread area)
    hd2 = hd
    okc = True
    for p in pro:
        A = hd.get((p['_b'], p['_i']), frozenset())
    ctx.ob('R-C10a', 'handler:installed', any(e['ev'] == 'store' and canon(e.get('rhs', {})) == 'iv_signal_handler' and canon(e['lhs']).endswith('sa_handler')
                                               for fn in prog.all_funcs() for e in fn.events()), loc=f.loc,
           detail='iv_signal_handler is what iv_signal_register installs', fn=f.q)


def event_side(ctx):
    prog = ctx.prog
    f = prog.fn('iv_signal_event')
    ls = locksets(f)
    sites = [e for e in f.events() if callback_kind(e) == ('callback', 'signal')]
    clr = [e for e in f.events() if e['ev'] == 'store' and last_member(e['lhs']) == ('iv_signal', 'active') and canon(e.get('rhs')) == '0']
    if not sites or not clr:
        raise AnalysisBroken('iv_signal_event: handler call or active reset not found')
    hd = holding(f)
    for c in clr:
        H = held(ls.get((c['_b'], c['_i'])))
        A = hd.get((c['_b'], c['_i']), frozenset())
        this_thread = any(a[0] == '!=' and a[2] == '0' and a[1].endswith('->flags & %d)' % THIS_THREAD) for a in A)
        ctx.ob('R-C10b', 'event:active-cleared-signals-blocked%s' % ('(this-thread)' if this_thread else ''), SIGBLOCK in H and (this_thread or SIG in H), loc=c['loc'],
               detail='active = 0 with all signals blocked%s; held: %s' % ('' if this_thread else ' and under sig_lock (process-wide interest)', sorted(H)), fn=f.q)
    for cs in sites:
        mp = must_pass(f, lambda e: e in clr)
        ctx.ob('R-C10b', 'event:cleared-before-handler', bool(mp.get((cs['_b'], cs['_i']))), loc=cs['loc'],
               detail='active is cleared on every path before the user handler (a delivery during the handler re-posts)', fn=f.q)
        ctx.ob('R-C10b', 'event:mask-restored-before-handler', not held(ls.get((cs['_b'], cs['_i']))), loc=cs['loc'],
               detail='the handler runs with the signal mask restored and no lock held', fn=f.q)


def lock_blocked(ctx):
    prog = ctx.prog
    n = 0
    bad = []
    for r in roots_of(prog):
        entry = frozenset([SIGBLOCK]) if r.name == 'iv_signal_handler' else frozenset()
        if r.name == 'iv_signal_parent':
            continue
        g = Inliner(prog, expand_methods=True).inline(r)
        ls = locksets(g, entry=entry)
        for e in g.events():
            if is_call(e, ('spin_lock', 'spin_lock_sigmask')) and canon(e['args'][0]) == '&sig_lock':
                n += 1
                H = held(ls.get((e['_b'], e['_i'])))
                if e['callee'] == 'spin_lock' and SIGBLOCK not in H:
                    bad.append((r, e))
    if n < 3:
        raise AnalysisBroken('acquisitions of sig_lock: %d' % n)
    seen = set()
    for (r, e) in bad:
        k = (e.get('fn'), e['loc'])
        if k in seen:
            continue
        seen.add(k)
        ctx.ob('R-C10c', 'sig_lock:%s' % (e.get('fn') or r.name).split(':')[-1], False, loc=e['loc'],
               detail='sig_lock taken with signals deliverable (entry %s): a delivery on this thread would spin on its own lock' % r.name)
    if not bad:
        ctx.ob('R-C10c', 'sig_lock:all-acquisitions', True, loc=prog.fn('iv_signal_register').loc,
               detail='%d acquisitions over all entry points, each with all signals blocked (or inside the handler)' % n)
    # wrappers summarise to blocks+locks
    w = prog.fn('spin_lock_sigmask')
    mp = must_pass(w, lambda e: is_call(e, 'pthr_sigmask') and canon(e['args'][0]) == '0')
    lk = [e for e in w.events() if is_call(e, 'spin_lock')]
    ctx.ob('R-C10c', 'spin_lock_sigmask:blocks-then-locks', bool(lk) and all(mp.get((e['_b'], e['_i'])) for e in lk), loc=w.loc,
           detail='the wrapper blocks all signals before taking the lock', fn=w.q)
    u = prog.fn('spin_unlock_sigmask')
    mpu = must_pass(u, lambda e: is_call(e, 'spin_unlock'))
    rs = [e for e in u.events() if is_call(e, 'pthr_sigmask')]
    ctx.ob('R-C10c', 'spin_unlock_sigmask:unlocks-then-restores', bool(rs) and all(mpu.get((e['_b'], e['_i'])) for e in rs), loc=u.loc,
           detail='the lock is released before the mask is restored', fn=u.q)


def disposition(ctx):
    prog = ctx.prog
    r = prog.fn('iv_signal_register')
    hd = holding(r)
    ls = locksets(r)
    sa = [e for e in r.events() if is_call(e, 'sigaction')]
    if not sa:
        raise AnalysisBroken('register: sigaction not found')
    inc = [e for e in r.events() if e['ev'] == 'store' and canon(e['lhs']).startswith('total_num_interests[') and e['op'] == '++']
    ok = bool(inc)
    for e in sa:
        A = hd.get((e['_b'], e['_i']), frozenset())
        ok = ok and any(a[0] == '==' and a[2] == '0' and a[1].startswith('total_num_interests[') and a[1].endswith('++') for a in A)
    ctx.ob('R-C10d', 'register:install-on-0-to-1', ok, loc=sa[0]['loc'],
           detail='sigaction(library handler) is on the edge where the per-signal count was 0 before the increment', fn=r.q)
    hs = [e for e in r.events() if e['ev'] == 'store' and canon(e['lhs']).endswith('sa_handler')]
    ctx.ob('R-C10d', 'register:handler-value', bool(hs) and all(canon(e['rhs']) == 'iv_signal_handler' for e in hs), loc=hs[0]['loc'] if hs else r.loc,
           detail='the installed disposition is the library handler, with a full signal mask', fn=r.q)
    fill = must_pass(r, lambda e: is_call(e, 'sigfillset') and canon(e['args'][0]).endswith('sa_mask'))
    ctx.ob('R-C10d', 'register:handler-runs-with-signals-blocked', all(fill.get((e['_b'], e['_i'])) for e in sa), loc=sa[0]['loc'],
           detail='sa_mask is filled: the handler runs with all signals blocked (the model assumed by R-C10c / C14)', fn=r.q)
    u = prog.fn('iv_signal_unregister')
    hdu = holding(u)
    lsu = locksets(u)
    sau = [e for e in u.events() if is_call(e, 'sigaction')]
    dec = [e for e in u.events() if e['ev'] == 'store' and canon(e['lhs']).startswith('total_num_interests[') and e['op'] == '--']
    oku = bool(sau) and bool(dec)
    for e in sau:
        A = hdu.get((e['_b'], e['_i']), frozenset())
        oku = oku and any(a[0] == '==' and a[2] == '0' and a[1].startswith('--total_num_interests[') for a in A)
    dfl = [e for e in u.events() if e['ev'] == 'store' and canon(e['lhs']).endswith('sa_handler')]
    oku = oku and bool(dfl) and all(strip(e['rhs']).get('k') in ('null', 'int') or canon(e['rhs']) in ('0', 'NULL') for e in dfl)
    ctx.ob('R-C10d', 'unregister:default-on-1-to-0', oku, loc=sau[0]['loc'] if sau else u.loc,
           detail='SIG_DFL is restored on the edge where the count dropped to 0', fn=u.q)
    ctx.ob('R-C10d', 'count:balanced', len(inc) == 1 and len(dec) == 1 and canon(inc[0]['lhs']) == canon(dec[0]['lhs']), loc=r.loc,
           detail='one ++ in register, one -- in unregister, same index expression %s' % (canon(inc[0]['lhs']) if inc else '?'))
    for e in inc + dec:
        f_ = r if e in inc else u
        l_ = ls if e in inc else lsu
        ctx.ob('R-C10d', '%s:count-under-lock' % f_.name, SIG in held(l_.get((e['_b'], e['_i']))), loc=e['loc'],
               detail='the count changes under sig_lock', fn=f_.q)
    # exclusive hand-off
    ho = [e for e in u.events() if is_call(e, '__iv_signal_do_wake')]
    okh = bool(ho)
    for e in ho:
        A = hdu.get((e['_b'], e['_i']), frozenset())
        okh = okh and any(a[0] == '!=' and a[1].endswith('->flags & %d)' % EXCL) for a in A) \
            and any(a[0] == '!=' and a[1].endswith('->active') for a in A) and SIG in held(lsu.get((e['_b'], e['_i'])))
        # after the node left the tree
        mp = must_pass(u, lambda x: is_call(x, 'iv_avl_tree_delete'))
        okh = okh and bool(mp.get((e['_b'], e['_i'])))
    dels = [e for e in u.events() if is_call(e, 'iv_avl_tree_delete')]
    ins = [e for e in r.events() if is_call(e, 'iv_avl_tree_insert')]
    trees = {canon(e['args'][0]) for e in dels} | {canon(e['args'][0]) for e in ins}
    same = bool(dels) and bool(ins) and len(trees) == 1
    ctx.ob('R-C10d', 'register/unregister:same-tree', same, loc=dels[0]['loc'] if dels else u.loc,
           detail='the interest is inserted into and deleted from the same tree expression: %s' % sorted(trees), fn=u.q)
    ht = {canon(e['args'][0]) for e in ho}
    ctx.ob('R-C10d', 'unregister:hand-off-walks-own-tree', bool(ho) and ht == {canon(e['args'][0]) for e in dels}, loc=ho[0]['loc'] if ho else u.loc,
           detail='the pending delivery is re-dispatched in the tree the interest was deleted from (%s), with the same signal number' % sorted(ht), fn=u.q)
    ctx.ob('R-C10d', 'unregister:hand-off-same-signal', bool(ho) and all(last_member(e['args'][1]) == ('iv_signal', 'signum') for e in ho), loc=ho[0]['loc'] if ho else u.loc,
           detail='... for this interest\'s own signal number', fn=u.q)
    ctx.ob('R-C10d', 'unregister:exclusive-hand-off', okh, loc=ho[0]['loc'] if ho else u.loc,
           detail='a delivery noted for an exclusive interest that is being unregistered is handed to the next interest: re-wake on '
                  '(exclusive && active), after the tree delete, inside the lock region', fn=u.q)


def fork(ctx):
    prog = ctx.prog
    s = prog.fn('iv_wait_interest_register_spawn')
    user = [e for e in s.events() if e['ev'] == 'call' and 'fnexpr' in e and (callback_kind(e) or ('', ''))[0] == 'param']
    if not user:
        raise AnalysisBroken('spawn helper: call of the user function not found')
    mp = must_pass(s, lambda e: is_call(e, 'iv_signal_child_reset_postfork'))
    ctx.ob('R-C10e', 'spawn:child-reset-before-user-code', all(mp.get((e['_b'], e['_i'])) for e in user), loc=user[0]['loc'],
           detail='iv_signal_child_reset_postfork() precedes the user function in the child arm', fn=s.q)
    hd = holding(s)
    A = hd.get((user[0]['_b'], user[0]['_i']), frozenset())
    ctx.ob('R-C10e', 'spawn:user-code-only-in-child', any(a[0] == '==' and a[2] == '0' and all(k[0] == 'var' for k in a[3]) for a in A), loc=user[0]['loc'],
           detail='the user function runs only on the fork() == 0 edge', fn=s.q)
    rst = prog.fn('iv_signal_child_reset_postfork')
    z = must_pass(rst, lambda e: e['ev'] == 'store' and canon(e['lhs']) == 'sig_owner_pid' and canon(e.get('rhs')) == '0')
    ctx.ob('R-C10e', 'reset:owner-pid-cleared', bool(z.get((rst.exit, 0))), loc=rst.loc,
           detail='sig_owner_pid = 0: the parent\'s handlers never fire in the child', fn=rst.q)
    clears = {'process tree': lambda e: e['ev'] == 'store' and canon(e['lhs']) == 'process_sigs.root' and canon(e.get('rhs')) in ('NULL', '0'),
              'per-signal counts': lambda e: e['ev'] == 'store' and canon(e['lhs']).startswith('total_num_interests[') and canon(e.get('rhs')) == '0'}
    for what, pred in sorted(clears.items()):
        ev = [e for e in rst.events() if pred(e)]
        ctx.ob('R-C10e', 'reset:%s-cleared' % what.replace(' ', '-'), bool(ev), loc=ev[0]['loc'] if ev else rst.loc,
               detail='the child starts with an empty %s' % what, fn=rst.q)
    thr = [e for e in rst.events() if e['ev'] == 'store' and last_member(strip(e['lhs']).get('base')) == ('iv_signal_thr_info', 'thr_sigs')
           and canon(e['lhs']).endswith('.root') and canon(e.get('rhs')) in ('NULL', '0')]
    # on the "this thread has an area" edge the per-thread tree is emptied on every path
    okt = False
    for b, blk in rst.blocks.items():
        if blk.term and blk.term.get('cond') is not None and len(blk.succ) == 2:
            for si in (0, 1):
                for (op, lc, rc, l, r) in norm_cond(blk.term['cond'], si == 0):
                    if op == '!=' and rc == '0' and strip(l).get('record') == 'iv_signal_thr_info':
                        mp = must_pass_from_block(rst, blk.succ[si], lambda e: e in thr)
                        okt = bool(mp.get((rst.exit, 0)))
    ctx.ob('R-C10e', 'reset:per-thread-tree-cleared', bool(thr) and okt, loc=thr[0]['loc'] if thr else rst.loc,
           detail='the calling thread\'s own interest tree is emptied too (a child forked from a thread with this-thread interests would '
                  'otherwise dispatch to the parent\'s stale interests)', fn=rst.q)
    pre, par, chi = prog.fn('iv_signal_prepare'), prog.fn('iv_signal_parent'), prog.fn('iv_signal_child')
    okb = bool(must_pass(pre, lambda e: is_call(e, 'spin_lock_sigmask') and canon(e['args'][0]) == '&sig_lock').get((pre.exit, 0))) \
        and bool(must_pass(par, lambda e: is_call(e, 'spin_unlock_sigmask') and canon(e['args'][0]) == '&sig_lock').get((par.exit, 0))) \
        and bool(must_pass(chi, lambda e: is_call(e, 'spin_init') and canon(e['args'][0]) == '&sig_lock').get((chi.exit, 0))) \
        and bool(must_pass(chi, lambda e: is_call(e, 'pthr_sigmask')).get((chi.exit, 0)))
    reg = [e for fn in prog.all_funcs() for e in fn.events() if is_call(e, 'pthr_atfork')]
    okr = bool(reg) and all([canon(a) for a in e['args']] == ['iv_signal_prepare', 'iv_signal_parent', 'iv_signal_child'] for e in reg)
    ctx.ob('R-C10e', 'atfork:lock-bracket', okb and okr, loc=pre.loc,
           detail='prepare takes sig_lock with signals blocked, parent releases it, child re-initialises it and restores the mask', fn=pre.q)
    null_rule(ctx, 'R-C10g', ('iv_signal.c',))
