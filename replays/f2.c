/* F2: poll method, register an fd that has no handler yet */
#include <stdio.h>
#include <unistd.h>
#include <iv.h>
int main(void) {
  int p[2]; struct iv_fd fd;
  iv_init(); printf("method %s\n", iv_poll_method_name());
  pipe(p);
  IV_FD_INIT(&fd); fd.fd = p[0]; fd.cookie = NULL;
  iv_fd_register(&fd);          /* no handlers set */
  iv_fd_unregister(&fd);
  iv_deinit(); printf("done\n"); return 0; }
