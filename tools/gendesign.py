#!/usr/bin/env python3
"""Regenerates the generated appendices of DESIGN.md (rules as built, mutant
corpus, seeded changes) between the markers <!-- GENERATED:BEGIN --> / END."""
import glob
import json
import os
import re
HERE = os.path.dirname(os.path.dirname(os.path.abspath(__file__)))
out = []
out.append('## Appendix D — rules as built (generated from the last evidence files)\n')
out.append('Instances = obligations evaluated on the unchanged tree (default configuration); floor = hand-confirmed minimum below which the check exits 2.\n')
for p in sorted(glob.glob(os.path.join(HERE, 'evidence', 'C*.json'))):
    ev = json.load(open(p))
    cov = ev['coverage']
    out.append('\n### %s  (%d obligations, %d distinct sites, %.1f s)\n' % (ev['property_id'], cov['evaluations'], cov['distinct_nontrivial'], ev['wall_s']))
    rules = dict(re.findall(r'(R-C\d\d[\w.\']*): (.*?)(?=; R-C\d\d|$)', cov['explanation'].split(': ', 1)[1]))
    out.append('| rule | instances | floor | what it demands |\n|---|---|---|---|')
    for r in sorted(cov['per_rule']):
        out.append('| %s | %d | %s | %s |' % (r, cov['per_rule'][r], cov['floors'].get(r, ''), rules.get(r, '').replace('|', '/')))
    if cov.get('exemptions_used'):
        out.append('\nExemptions used (one symbol, one reason each):\n')
        for e in cov['exemptions_used']:
            out.append('* `%s` %s — %s' % (e['rule'], e['instance'], e['reason']))
out.append('\n## Appendix E — checker self-test corpus (mutants/*.json, seeded/, neutral_seeded/)\n')
out.append('Every mutant compiles (clang -fsyntax-only of the touched unit) and is a change a developer could plausibly make; `tools/selftest.py` applies each entry to a scratch copy of the sources and requires the property\'s rules to report a mutant (KILLED, by the rule named where one is named) and to stay SILENT on every neutral entry. The thorough tier of each check runs its share. The entries themselves (id, description, edit) are in the files; the table counts them.\n')
ms = []
for p in sorted(glob.glob(os.path.join(HERE, 'mutants', '*.json'))):
    for m in json.load(open(p)):
        m['_file'] = os.path.basename(p)
        ms.append(m)
props = sorted({q for m in ms for q in m['properties']})
out.append('| property | hand-written mutants (mNN) | hand-written neutral (nNN) | re-formulation mutants (hNN-m*) | re-formulation neutral (hNN-n* and blind) | seeded breaking changes | ')
out.append('|---|---|---|---|---|---|')
for q in props:
    mine = [m for m in ms if q in m['properties']]
    hw_m = sum(1 for m in mine if not m['_file'].startswith('h') and m.get('kind', 'mutant') == 'mutant')
    hw_n = sum(1 for m in mine if not m['_file'].startswith('h') and m.get('kind') == 'neutral')
    h_m = sum(1 for m in mine if m['_file'].startswith('h') and m.get('kind', 'mutant') == 'mutant')
    h_n = sum(1 for m in mine if m['_file'].startswith('h') and m.get('kind') == 'neutral')
    sd = len(glob.glob(os.path.join(HERE, 'seeded', q + '-*', 'patch.diff')))
    out.append('| %s | %d | %d | %d | %d | %d |' % (q, hw_m, hw_n, h_m, h_n, sd))
nn = {}
for d in sorted(x for x in glob.glob(os.path.join(HERE, 'neutral_seeded', '*')) if os.path.isdir(x)):
    k = os.path.basename(d)[:2]
    nn[k] = nn.get(k, 0) + len(glob.glob(os.path.join(d, 'patch*.diff')))
out.append('\nIndependent behaviour-preserving refactorings (each checked against all 20 properties): round A (nsNN) %d, round B (nbNN) %d, round C (ncNN) %d, round D (ndNN) %d.\n' % (nn.get('ns', 0), nn.get('nb', 0), nn.get('nc', 0), nn.get('nd', 0)))
for fn, what in (('neutral_seeded/KNOWN_NOISY.json', 'held-out refactorings known to still trip a property (reported by the self-test as NOISY-KNOWN)'),
                 ('seeded/KNOWN_MISSED_BY_OWN_CHECK.json', 'seeded changes not reported by their own property\'s check but by a neighbouring one')):
    pth = os.path.join(HERE, fn)
    if os.path.exists(pth):
        kk = json.load(open(pth))
        out.append('%s: %s\n' % (what, ', '.join('%s (%s)' % (k, '/'.join(v.get('properties') or v.get('reported_by') or [])) for k, v in sorted(kk.items())) or 'none'))
out.append('%d mutants and %d neutral edits in mutants/*.json.\n' % (sum(1 for m in ms if m.get('kind', 'mutant') == 'mutant'), sum(1 for m in ms if m.get('kind') == 'neutral')))
out.append('\n## Appendix F — independently seeded changes (seeded/*/meta.json)\n')
out.append('Written by fresh sub-agents that saw only the property text and a scratch worktree; each confirmed by `tools/seedeval.py` (builds, 11 pinned tests pass, demo fails with / passes without the change) before being kept.\n')
out.append('| id | property | files | first pass | now reported by |\n|---|---|---|---|---|')
for p in sorted(glob.glob(os.path.join(HERE, 'seeded', '*', 'meta.json'))):
    m = json.load(open(p))
    patch = open(os.path.join(os.path.dirname(p), 'patch.diff')).read()
    files = ', '.join(sorted(set(re.findall(r'^\+\+\+ b/src/(\S+)', patch, flags=re.M))))
    now = '; '.join('%s: %s' % (k, ', '.join(sorted({f.split(' [')[0] for f in v['failed']})) or ('exit %d' % v['exit'])) for k, v in sorted(m['caught_by'].items()))
    fp = m.get('first_pass', '')
    if isinstance(fp, dict):
        fp = '%s %s' % (fp.get('status', ''), ', '.join(sorted({f.split(' [')[0] for f in fp.get('failed', [])})))
    out.append('| %s | %s | %s | %s | %s |' % (m['id'], m['property'], files, str(fp).replace('|', '/'), now or 'MISSED'))
text = '\n'.join(out) + '\n'
p = os.path.join(HERE, 'DESIGN.md')
s = open(p).read()
b, e = '<!-- GENERATED:BEGIN -->', '<!-- GENERATED:END -->'
if b in s:
    s = s[:s.index(b) + len(b)] + '\n' + text + s[s.index(e):]
else:
    s += '\n' + b + '\n' + text + e + '\n'
open(p, 'w').write(s)
print('DESIGN.md appendices regenerated (%d lines)' % len(text.splitlines()))
