"""C20 — iv_inotify routes events to their watch; unregistering in handlers is safe.

All anchors are roles (see h20.py): the dispatcher is whatever iv_inotify_register installs as handler_in of the
instance's iv_fd, the comparator whatever it stores into the compare slot of the instance's tree; both are
analysed with the unit's static helpers inlined.  Obligations are read off three path-sensitive forward
analyses (h20.Prov, h20.Walk, analyses.stale_after_callback) at the watch handler call sites, at the
definitions of the record variable, at the steps of tree cursors and at the function exits, so that neither
helper structure, local names, cached values, loop forms nor branch shapes matter.
"""
from ..core import AnalysisBroken, canon, strip, last_member, norm_cond, forward, relpath
from .. import generic
from ..analyses import holding, path_to, exits_of, callback_kind, USER_OBJECT_RECORDS
from . import h20
from .h20 import INST, WATCH, IN_IGNORED, IN_ONESHOT  # noqa: F401  (re-exported constants)


def run(ctx):
    ctx.rule('R-C20a', 'an event is dispatched to the watch looked up by the wd of the current record; a failed lookup '
                       'skips the call; the cursor advances by the current record\'s own length; watches enter the tree under the kernel\'s wd', floor=5)
    ctx.rule('R-C20b', 'kernel-removed (IN_IGNORED) and one-shot watches leave the set before their handler runs', floor=1)
    ctx.rule('R-C20c', 'instance unregister aborts the walk: nothing of the instance or a watch is touched after a handler '
                       'unless the local instance pointer was re-tested; unregister clears that pointer through term iff set; '
                       'watch unregister removes the watch from the tree', floor=6)
    ctx.rule('R-C20d', 'INIT-COMPLETE for iv_inotify / iv_inotify_watch', floor=4)
    ctx.rule('R-C20g', 'NULL-CONTRADICTION in iv_inotify.c', floor=1)
    ctx.rule('R-C20.cmp', 'watch comparator orders by wd; the lookup descends left/right/returns in agreement with it', floor=6)
    ctx.section(cmp_rules)
    ctx.section(dispatch)
    ctx.section(record_walk)
    ctx.section(stale)
    ctx.section(unregister)
    ctx.section(membership)
    ctx.section(init_complete)
    ctx.section(null_contradiction)


def _sign(v):
    return (v > 0) - (v < 0) if isinstance(v, int) else None


def cmp_rules(ctx):
    """The comparator installed in the instance's tree orders by wd (finite evaluation over the three orderings);
    the dispatcher's lookup moves a tree cursor to ->left only where the branches taken establish
    (wd of the record) < (wd of the node), to ->right only where they establish >, and gives a record up
    (no delivery) only after a cursor was found NULL."""
    prog = ctx.prog
    f = h20.comparator(prog)
    res, problem = h20.comparator_signs(prog, f, WATCH, 'an', 'wd')
    for o, r in res:
        want = {'<': -1, '=': 0, '>': 1}[o]
        ctx.ob('R-C20.cmp', 'comparator:wd(a)%swd(b)' % o, problem is None and _sign(r) == want, loc=f.loc,
               detail=('the function stored into the compare slot of the instance tree does not order by wd: %s' % problem) if problem else
                      'the function stored into the compare slot of the instance tree returns %s, expected sign %d' % (r, want), fn=f.q)
    p = h20.prov(prog)
    if not p.tree_reads:
        raise AnalysisBroken('the dispatcher never reads the root (or min/max) of the instance\'s watch tree')
    for d, rel, inst in (('left', '<', 'lookup:left-only-if-less'), ('right', '>', 'lookup:right-only-if-greater')):
        sites = sorted((loc, obs) for (loc, dd), obs in p.steps.items() if dd == d)
        bad = [(loc, o) for loc, obs in sites for o in obs if not o[0]]
        ctx.ob('R-C20.cmp', inst, not bad, loc=(bad[0][0] if bad else (sites[0][0] if sites else p.tree_reads[0])),
               detail=('`%s` is taken on a path on which (record wd) %s (node wd) is not established for a node found in the instance tree'
                       % (bad[0][1][1], rel)) if bad else
                      ('every step to ->%s (%d site(s)) is taken only where (record wd) %s (node wd) holds' % (d, len(sites), rel) if sites else
                       'the lookup never steps to ->%s; that no element is skipped is demanded by lookup:miss-only-at-null' % d),
               fn=p.g.q)
    bad = sorted(loc for loc, oks in p.miss.items() if not all(oks))
    ctx.ob('R-C20.cmp', 'lookup:miss-only-at-null', not bad, loc=bad[0] if bad else p.tree_reads[0],
           detail='a record is given up (next record / return reached without a handler call) although no tree cursor was found NULL'
                  if bad else 'a record is left without delivery only after a cursor into the instance tree was found NULL', fn=p.g.q)


def dispatch(ctx):
    """At every call of a watch handler, in every abstract state: the watch was read out of the instance's tree
    since the last user callback and the branches taken establish watch wd == wd of the record passed (R-C20a);
    it is non-NULL; the arguments are its cookie and that record; it was deleted from the instance tree unless
    IN_IGNORED is known clear in the record's mask and IN_ONESHOT in the watch's (R-C20b)."""
    prog = ctx.prog
    p = h20.prov(prog)
    w = h20.the_walk(prog)
    if not p.handler_sites:
        raise AnalysisBroken('watch handler call site not found in the dispatcher %s' % p.g.q)
    for loc in p.handler_sites:
        sts = p.sites.get(loc)
        if not sts:
            raise AnalysisBroken('watch handler call at %s is not reached by the provenance analysis' % relpath(loc))
        s0 = sts[0]
        bad = [s for s in sts if not (s['found'] and s['match'])]
        ctx.ob('R-C20a', 'dispatch:lookup-by-wd', not bad, loc=loc,
               detail=('%s is called although %s' % (s0['watch'] + '->handler',
                       'the watch was not read out of the instance\'s tree since the last handler ran' if not bad[0]['found'] else
                       'its wd is not established equal to the wd of the record passed')) if bad else
                      '%s was found in the instance tree in this iteration and its wd equals %s->wd' % (s0['watch'], s0['rec']), fn=p.g.q)
        deliv = w.delivered.get(loc, [])
        ok = all(s['cookie'] and s['recarg'] for s in sts) and bool(deliv) and all(deliv)
        ctx.ob('R-C20a', 'dispatch:args', ok, loc=loc,
               detail='the handler receives the cookie of the watch it belongs to and the record being walked (whose wd was looked up)', fn=p.g.q)
        ctx.ob('R-C20a', 'dispatch:lookup-failed-skips', all(s['nonnull'] for s in sts), loc=loc,
               detail='the watch is known non-NULL at the call (a failed lookup does not reach it)', fn=p.g.q)
        bad = [s for s in sts if not s['dropped']]
        ctx.ob('R-C20b', 'dispatch:delete-before-handler', not bad, loc=loc,
               detail=('the handler runs on a path on which the watch was not deleted from the instance tree and %s' % bad[0]['why']) if bad else
                      'on every path the watch was deleted from the instance tree before the call, or IN_IGNORED (record) and IN_ONESHOT (watch) are known clear',
               fn=p.g.q)


def record_walk(ctx):
    """Every definition of the record variable is the start of the buffer read() filled, or the previous record
    + sizeof(struct inotify_event) + its len (linear forms, any cursor representation by pointer)."""
    prog = ctx.prog
    w = h20.the_walk(prog)
    if not w.recdefs:
        raise AnalysisBroken('no definition of a struct inotify_event pointer in the dispatcher')
    for loc, vals in sorted(w.recdefs.items()):
        bad = [v for v in vals if not w.recdef_ok(v)]
        ctx.ob('R-C20a', 'walk:cursor-advance', not bad, loc=loc,
               detail=('the record is taken from %s; expected the start of the read() buffer (%s) or previous record + %d + 1*len'
                       % (w.show(bad[0]), ', '.join(sorted(w.readbufs)) or 'none found', w.recsize)) if bad else
                      'record = start of %s, or previous record + sizeof(struct inotify_event)=%d + its len' % ('/'.join(sorted(w.readbufs)), w.recsize),
               fn=w.g.q)


def stale(ctx):
    """After a watch handler (user code) ran, every pointer to / into the instance or a watch is stale; it may be used
    again only when it was assigned a fresh value (read from live memory, e.g. the next lookup) or, for the instance,
    when the liveness slot that the dispatcher published through `<instance>->term` (the word iv_inotify_unregister
    nulls) was found non-NULL since (h20.stale_after_handler).  Which local serves as the slot (the instance pointer
    itself, a dedicated word, a member of a walk context) and how many cached addresses derive from the instance
    pointer does not matter."""
    prog = ctx.prog
    p = h20.prov(prog)
    g = h20.with_address_copies_resolved(p.g)

    def is_cb(e):
        k = callback_kind(e)
        if k and k[0] == 'callback':
            return k[1]
        return 'inotify_watch' if p.is_watch_handler_call(e) else None
    reps, objvars, markers = h20.stale_after_handler(g, is_cb, (INST, WATCH) + tuple(sorted(USER_OBJECT_RECORDS - {INST, WATCH})),
                                                     (INST, 'term'))
    kinds = sorted(set(objvars.values()))
    if INST not in kinds:
        raise AnalysisBroken('the dispatcher holds no pointer to the instance')
    for rec in kinds:
        bad = [(e, v, acc) for (e, v, acc, cb) in reps if objvars.get(v) == rec]
        e0 = bad[0][0] if bad else None
        vs = sorted(v for v in objvars if objvars[v] == rec)
        ctx.ob('R-C20c', 'stale:%s' % rec, not bad, loc=e0['loc'] if e0 else g.loc,
               detail=('`%s` is used after a handler ran, on a path on which the slot published through term (%s) was not found '
                       'non-NULL since and `%s` was not re-read from live memory: %s'
                       % (bad[0][1], ', '.join(sorted(markers)) or 'none published', bad[0][1], ', '.join(sorted({a for _, _, a in bad}))))
               if bad else 'no use of a pointer to / into a struct %s (%s) after a handler without a fresh value or a non-NULL test of '
                           'the liveness slot published through term (%s)'
                           % (rec, ', '.join(vs), ', '.join('%s vouching for %s' % (P, '/'.join(v)) for P, v in sorted(markers.items())) or '-'),
               path=path_to(g, e0) if e0 else None, fn=g.q)
    # the published address of the local instance pointer does not outlive the walk
    pubs = [e for e in g.events() if e['ev'] == 'store' and last_member(e['lhs']) == (INST, 'term') and 'rhs' in e
            and isinstance(strip(e['rhs']), dict) and strip(e['rhs']).get('k') == 'addr' and h20.lvar(strip(e['rhs'])['e']) is not None]
    if not pubs:
        return
    pubvars = {h20.lvar(strip(e['rhs'])['e'])['name'] for e in pubs}

    def tr(e, s):
        if e['ev'] == 'store' and last_member(e['lhs']) == (INST, 'term'):
            return any(e is x for x in pubs)
        return s

    def edge(blk, si, s):
        if s and blk.term and blk.term.get('cond') is not None and len(blk.succ) == 2:
            for (op, lc, rc, l, r) in norm_cond(blk.term['cond'], si == 0):
                if op == '==' and rc == '0' and lc in pubvars:
                    return False
        return s
    # ... and is in place whenever a handler runs (the liveness marker the rule above relies on is real)
    _, pub_in = forward(g, False, tr, lambda a, b: a and b)
    calls = [e for e in g.events() if p.is_watch_handler_call(e)]
    ctx.ob('R-C20c', 'walk:term-published-at-handler', bool(calls) and all(pub_in.get((e['_b'], e['_i']), False) for e in calls),
           loc=pubs[0]['loc'], detail='on every path to a watch handler call the instance\'s term points at the dispatcher\'s local '
                                      'liveness slot (%s)' % ', '.join(sorted(pubvars)), fn=g.q)
    _, ev_in = forward(g, False, tr, lambda a, b: a or b, edge=edge)
    pts = [(pb, pi) for (pb, pi, _) in exits_of(g)] + [(g.exit, 0)]
    ctx.ob('R-C20c', 'walk:term-reset-when-alive', not any(ev_in.get(pt, False) for pt in pts), loc=pubs[0]['loc'],
           detail='on every path to a return after `term` was pointed at the local instance pointer, term is reset '
                  'or the instance is known gone (local pointer NULL)', fn=g.q)


def unregister(ctx):
    prog = ctx.prog
    fu = prog.fn('iv_inotify_unregister')
    g = h20.inlined_local(prog, fu)
    defs = h20._single_defs(g)
    term_locals = {n for n, d in defs.items() if last_member(d['rhs']) == (INST, 'term')}

    def is_term(x):
        if last_member(x) == (INST, 'term'):
            return True
        v = h20.lvar(x)
        return v is not None and v['name'] in term_locals

    def through_term(lhs):
        s = strip(lhs)
        if not isinstance(s, dict):
            return False
        if s.get('k') == 'deref':
            return is_term(s['e'])
        if s.get('k') == 'index':
            return is_term(s['base']) and h20.const_of(s['idx']) == 0
        return False
    clr = [e for e in g.events() if e['ev'] == 'store' and through_term(e['lhs'])]
    ctx.ob('R-C20c', 'unregister:clears-through-term', bool(clr) and all(h20.const_of(e['rhs']) == 0 for e in clr if 'rhs' in e)
           and all('rhs' in e for e in clr), loc=clr[0]['loc'] if clr else fu.loc,
           detail='iv_inotify_unregister stores NULL through the instance\'s term pointer', fn=fu.q)
    hdu = holding(g)
    byloc = {}
    for e in clr:
        A = hdu.get((e['_b'], e['_i']), frozenset())
        ok = any(a[0] == '!=' and a[2] == '0' and ((INST, 'term') in a[3] or a[1] in term_locals) for a in A)
        byloc[e['loc']] = byloc.get(e['loc'], True) and ok
    for loc, ok in sorted(byloc.items()):
        ctx.ob('R-C20c', 'unregister:term-tested', ok, loc=loc, detail='the store through term is reached only where term != NULL holds', fn=fu.q)

    # at every return: the walker's pointer was cleared, or term is known NULL (no walk in progress)
    def tr(e, s):
        return True if any(e is x for x in clr) else s

    def edge(blk, si, s):
        if blk.term and blk.term.get('cond') is not None and len(blk.succ) == 2:
            for (op, lc, rc, l, r) in norm_cond(blk.term['cond'], si == 0):
                if op == '==' and rc == '0' and isinstance(l, dict) and is_term(l):
                    return True
        return s
    _, ev_in = forward(g, False, tr, lambda a, b: a and b, edge=edge)
    pts = [(pb, pi) for (pb, pi, _) in exits_of(g)] + [(g.exit, 0)]
    ctx.ob('R-C20c', 'unregister:term-set-implies-clear', all(ev_in.get(pt, True) for pt in pts), loc=clr[0]['loc'] if clr else fu.loc,
           detail='when a walk is in progress (term set) unregister always nulls the walker\'s instance pointer: '
                  'every return is reached through the store or through a term == NULL edge', fn=fu.q)


def membership(ctx):
    """The set the dispatcher looks records up in is maintained by the public watch API: registration inserts the
    watch into the tree of its own instance under the wd the kernel returned, unregistration always removes it
    (which, with `found since the last handler`, is what suppresses deliveries to an unregistered watch)."""
    prog = ctx.prog
    for name, prim in (('iv_inotify_watch_register', 'iv_avl_tree_insert'), ('iv_inotify_watch_unregister', 'iv_avl_tree_delete')):
        f = prog.fn(name)
        g = h20.inlined_local(prog, f)
        if not f.params:
            raise AnalysisBroken('%s takes no watch' % name)
        wp = f.params[0]['name']
        defs = h20._single_defs(g)

        def resolve(x, depth=0):
            v = h20.lvar(x)
            if v is not None and v['name'] in defs and depth < 6 and v['name'] != wp:
                return resolve(defs[v['name']]['rhs'], depth + 1)
            return x

        def own_tree(t):
            """&<wp>->inotify->watches, the instance pointer possibly cached in a local"""
            t = strip(resolve(t))
            if not (isinstance(t, dict) and t.get('k') == 'addr' and last_member(t['e']) == (INST, 'watches')):
                return False
            m = strip(t['e'])
            if not m.get('arrow'):
                return False
            inst = strip(resolve(m['base']))
            return isinstance(inst, dict) and inst.get('k') == 'member' and (inst.get('record'), inst['field']) == (WATCH, 'inotify') \
                and inst['arrow'] and canon(inst['base']) == wp

        def own_node(n):
            n = strip(resolve(n))
            return isinstance(n, dict) and n.get('k') == 'addr' and last_member(n['e']) == (WATCH, 'an') \
                and strip(n['e']).get('arrow') and canon(strip(n['e'])['base']) == wp
        sites = [e for e in g.events() if e['ev'] == 'call' and e.get('callee') == prim and len(e.get('args', [])) >= 2
                 and own_tree(e['args'][0]) and own_node(e['args'][1])]
        if prim == 'iv_avl_tree_delete':
            from ..core import must_pass
            mp = must_pass(g, lambda e: any(e is x for x in sites))
            pts = [(pb, pi) for (pb, pi, _) in exits_of(g)] + [(g.exit, 0)]
            ctx.ob('R-C20c', 'watch_unregister:leaves-instance-tree', bool(sites) and all(mp.get(pt, True) for pt in pts),
                   loc=sites[0]['loc'] if sites else f.loc,
                   detail='every return of iv_inotify_watch_unregister is reached through iv_avl_tree_delete(&w->inotify->watches, &w->an)', fn=f.q)
            continue
        # registration: at the insert the watch's wd holds what inotify_add_watch returned
        kernel = {n for n, d in defs.items() if isinstance(strip(d['rhs']), dict) and strip(d['rhs']).get('k') == 'call'
                  and strip(d['rhs']).get('callee') == 'inotify_add_watch'}
        grew = True
        while grew:             # copies of copies (the result handed through a wrapper's return value and a local)
            grew = False
            for n, d in defs.items():
                v = h20.lvar(d['rhs'])
                if n not in kernel and v is not None and v['name'] in kernel:
                    kernel.add(n)
                    grew = True

        def tr(e, st):
            if e['ev'] == 'store' and last_member(e['lhs']) == (WATCH, 'wd'):
                r = strip(e.get('rhs')) if 'rhs' in e and e.get('op') == '=' else None
                own = canon(strip(e['lhs'])['base']) == wp and strip(e['lhs']).get('arrow')
                if own and isinstance(r, dict) and ((r.get('k') == 'call' and r.get('callee') == 'inotify_add_watch') or
                                                     (h20.lvar(r) is not None and h20.lvar(r)['name'] in kernel)):
                    return True
                return False
            return st
        _, ev_in = forward(g, False, tr, lambda a, b: a and b)
        ctx.ob('R-C20a', 'watch_register:keyed-by-kernel-wd', bool(sites) and all(ev_in.get((e['_b'], e['_i']), False) for e in sites),
               loc=sites[0]['loc'] if sites else f.loc,
               detail='the watch enters the tree of its own instance (iv_avl_tree_insert(&w->inotify->watches, &w->an)) with w->wd holding '
                      'the descriptor inotify_add_watch returned', fn=f.q)


def null_contradiction(ctx):
    """NULL-CONTRADICTION in iv_inotify.c: a pointer the function itself compares with NULL is not dereferenced on a path
    on which the NULL edge was taken.  Same obligation as c11.null_rule (generic.null_contradiction on the function as the
    source spells it, one instance per tested pointer variable), but evaluated after flag partitioning, so that a
    liveness test stored in a flag (`more = (ino != NULL) && (curr < end); while (more)`) is as path-sensitive as the
    same test written as a branch."""
    n = 0
    for f in sorted(ctx.prog.all_funcs(), key=lambda f: f.q):
        if not f.file.endswith(('iv_inotify.c',)):
            continue
        g = h20.flag_partitioned_source(f)
        reps, ncand = generic.null_contradiction(g)
        if not ncand:
            continue
        byvar = {}
        for (e, v, acc) in reps:
            byvar.setdefault(v, []).append((e, acc))
        tested = set()
        for b in g.blocks.values():
            c = b.term.get('cond') if b.term else None
            if c is None:
                continue
            for pol in (True, False):
                for (op, lc, rc, l, r) in norm_cond(c, pol):
                    lv = strip(l)
                    if op in ('==', '!=') and rc == '0' and isinstance(lv, dict) and lv.get('k') == 'var' \
                            and lv.get('vk') in ('local', 'param') and '*' in lv.get('type', ''):
                        tested.add(lv['name'])
        for v in sorted(tested):
            bad = byvar.get(v, [])
            e0 = bad[0][0] if bad else None
            ctx.ob('R-C20g', '%s:%s' % (f.name, v), not bad, loc=e0['loc'] if e0 else f.loc,
                   detail=('pointer `%s` is tested against NULL, yet dereferenced on a path where the NULL edge '
                           'was taken: %s' % (v, ', '.join(sorted({a for _, a in bad})))) if bad else
                          'tested pointer is never dereferenced on its NULL path',
                   path=path_to(g, e0) if e0 else None, fn=f.q)
            n += 1
    return n


def init_complete(ctx):
    """INIT-COMPLETE, local path-sensitive variant of generic.init_complete for the two inotify object kinds:
    on every path of the registration function on which the object goes live (the instance's fd is handed to
    iv_fd_register*, the watch's node to iv_avl_tree_insert) every library-private leaf field has been written,
    by the registration function or on every path of the kind's INIT function.  "Goes live" replaces the
    classification of return values, so result variables, ternary returns and early-return/if-block shapes do not
    matter; sub-objects reached through a local holding their address are followed."""
    prog = ctx.prog
    kinds = {K['rec']: K for K in generic.OBJECT_KINDS if K['rec'] in (INST, WATCH)}
    live = {
        INST: lambda e, ap: e.get('callee') in ('iv_fd_register', 'iv_fd_register_try') and e.get('args') and ap(e['args'][0]) == 'fd',
        WATCH: lambda e, ap: e.get('callee') == 'iv_avl_tree_insert' and len(e.get('args', [])) >= 2 and ap(e['args'][1]) == 'an',
    }
    for rec in (INST, WATCH):
        K = kinds.get(rec)
        if K is None or rec not in prog.records:
            raise AnalysisBroken('object kind %s unknown' % rec)
        leaves = h20.private_leaves(prog, rec, K['user'], generic.KIND_RECORDS)
        winit = frozenset()
        if K['init'] and prog.has_fn(K['init']):
            # the INIT function has no publication point: what it writes on every path to its exits
            winit, _, _ = h20.live_written(prog, prog.fn(K['init']), lambda e, ap: False, generic.WRITE_VIA_ADDR, initially_live=True)
        wreg = None
        regs = [r for r in K['reg'] if prog.has_fn(r)]
        if not regs:
            raise AnalysisBroken('register function of %s not found' % rec)
        for r in regs:
            f = prog.fn(r)
            w, n, marker = h20.live_written(prog, f, live[rec], generic.WRITE_VIA_ADDR)
            if not marker or n == 0:
                raise AnalysisBroken('%s: the point at which the %s goes live was not found' % (r, rec))
            wreg = w if wreg is None else (wreg & w)
        for leaf in leaves:
            ok = h20.covered(wreg | winit, leaf)
            ctx.ob('R-C20d', '%s.%s' % (rec, leaf), ok, loc=prog.fn(regs[0]).loc,
                   detail=('written by %s on every path on which the object goes live' % ('INIT' if h20.covered(winit, leaf) else 'registration'))
                   if ok else 'private field is not written on some path of %s on which the %s goes live, nor by %s'
                              % ('/'.join(regs), rec, K['init'] or 'an INIT function'), fn=prog.fn(regs[0]).q)

