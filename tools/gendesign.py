#!/usr/bin/env python3
"""Regenerates the generated appendices of DESIGN.md (rules as built, mutant
corpus, seeded changes) between the markers <!-- GENERATED:BEGIN --> / END."""
import glob
import json
import os
import re
HERE = os.path.dirname(os.path.dirname(os.path.abspath(__file__)))
out = []
out.append('## Appendix D — rules as built (generated from the last evidence files)\n')
out.append('Instances = obligations evaluated on the unchanged tree (default configuration); floor = hand-confirmed minimum below which the check exits 2.\n')
for p in sorted(glob.glob(os.path.join(HERE, 'evidence', 'C*.json'))):
    ev = json.load(open(p))
    cov = ev['coverage']
    out.append('\n### %s  (%d obligations, %d distinct sites, %.1f s)\n' % (ev['property_id'], cov['evaluations'], cov['distinct_nontrivial'], ev['wall_s']))
    rules = dict(re.findall(r'(R-C\d\d[\w.\']*): (.*?)(?=; R-C\d\d|$)', cov['explanation'].split(': ', 1)[1]))
    out.append('| rule | instances | floor | what it demands |\n|---|---|---|---|')
    for r in sorted(cov['per_rule']):
        out.append('| %s | %d | %s | %s |' % (r, cov['per_rule'][r], cov['floors'].get(r, ''), rules.get(r, '').replace('|', '/')))
    if cov.get('exemptions_used'):
        out.append('\nExemptions used (one symbol, one reason each):\n')
        for e in cov['exemptions_used']:
            out.append('* `%s` %s — %s' % (e['rule'], e['instance'], e['reason']))
out.append('\n## Appendix E — checker self-test corpus (mutants/*.json)\n')
out.append('Every mutant compiles (clang -fsyntax-only of the touched unit) and is a change a developer could plausibly make; `tools/selftest.py` applies each to a scratch copy of the sources and requires the named rule to report it (KILLED) and every neutral edit to stay SILENT. The thorough tier of each check runs its share.\n')
out.append('| id | property | expected rule(s) | change |\n|---|---|---|---|')
ms = []
for p in sorted(glob.glob(os.path.join(HERE, 'mutants', '*.json'))):
    ms += json.load(open(p))
def key(m):
    return (m.get('kind', 'mutant') != 'mutant', int(re.sub(r'\D', '', m['id']) or 0))
for m in sorted(ms, key=key):
    out.append('| %s | %s | %s | %s |' % (m['id'], ','.join(m['properties']), ', '.join(m['rules']) or ('(must stay silent)' if m.get('kind') == 'neutral' else ''), m['desc'].replace('|', '/')))
out.append('\n%d mutants, %d neutral edits.\n' % (sum(1 for m in ms if m.get('kind', 'mutant') == 'mutant'), sum(1 for m in ms if m.get('kind') == 'neutral')))
out.append('\n## Appendix F — independently seeded changes (seeded/*/meta.json)\n')
out.append('Written by fresh sub-agents that saw only the property text and a scratch worktree; each confirmed by `tools/seedeval.py` (builds, 11 pinned tests pass, demo fails with / passes without the change) before being kept.\n')
out.append('| id | property | files | first pass | now reported by |\n|---|---|---|---|---|')
for p in sorted(glob.glob(os.path.join(HERE, 'seeded', '*', 'meta.json'))):
    m = json.load(open(p))
    patch = open(os.path.join(os.path.dirname(p), 'patch.diff')).read()
    files = ', '.join(sorted(set(re.findall(r'^\+\+\+ b/src/(\S+)', patch, flags=re.M))))
    now = '; '.join('%s: %s' % (k, ', '.join(sorted({f.split(' [')[0] for f in v['failed']})) or ('exit %d' % v['exit'])) for k, v in sorted(m['caught_by'].items()))
    out.append('| %s | %s | %s | %s | %s |' % (m['id'], m['property'], files, m.get('first_pass', '').replace('|', '/'), now or 'MISSED'))
text = '\n'.join(out) + '\n'
p = os.path.join(HERE, 'DESIGN.md')
s = open(p).read()
b, e = '<!-- GENERATED:BEGIN -->', '<!-- GENERATED:END -->'
if b in s:
    s = s[:s.index(b) + len(b)] + '\n' + text + s[s.index(e):]
else:
    s += '\n' + b + '\n' + text + e + '\n'
open(p, 'w').write(s)
print('DESIGN.md appendices regenerated (%d lines)' % len(text.splitlines()))
