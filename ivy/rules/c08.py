"""C08 — iv_event: posts from any thread are never lost, over-delivered or misrouted.

The schedule-level guarantee (no lost wake-up for any interleaving) is not
decided; claimed are the structural clauses it rests on.
"""
from ..core import (names_of, same_value, AnalysisBroken, Inliner, canon, strip, last_member, must_pass, relpath, norm_cond, walk, forward)
from ..analyses import (is_call, holding, path_to, describe, exits_of, callback_kind, loops, innermost_loop,
                        locksets, held, force_edges, prune_infeasible, list_empty_test, must_pass_from_block)
from .c11 import null_rule
from . import c01

EVL = 'iv_state.event_list_mutex'


def run(ctx):
    ctx.rule('R-C08a', 'KICK-ON-EMPTY: the emptiness test of the owner\'s pending list and the add are in one region of the owner\'s '
                       'list mutex, test first; every path on which the list was empty reaches a wake-up of the owner '
                       '(local task / raw-event post / poll-method send), the chain being exhaustive', floor=4)
    ctx.rule('R-C08b', 'the runner detaches the pending list and re-tests its batch only under the owner\'s mutex; the handler is called with no lock held', floor=4)
    ctx.rule('R-C08c', 'an event is unlinked from the batch before its handler (a post during the handler re-queues it)', floor=1)
    ctx.rule('R-C08d', 'only the owner runs its events: the runner is entered only from the owner-local task, the owner\'s kick '
                       'raw event and the poll slots that saw the owner\'s own kick token', floor=4)
    ctx.rule('R-C08g', 'NULL-CONTRADICTION in iv_event.c', floor=0)
    ctx.section(post)
    ctx.section(runner)
    ctx.section(who_runs)


def post(ctx):
    prog = ctx.prog
    f = prog.fn('iv_event_post')
    wake = ('iv_task_register', 'iv_event_raw_post')
    g = Inliner(prog, stop=lambda t: t.name in wake + ('iv_task_registered',)).inline(f)
    ls = locksets(g)
    adds = [e for e in g.events() if is_call(e, ('iv_list_add', 'iv_list_add_tail')) and c01._list_arg_member(e) == ('iv_event', 'list')]
    tests = [e for e in g.events() if is_call(e, 'iv_list_empty') and last_member(strip(e['args'][0]).get('e')) == ('iv_state', 'events_pending')]
    if not adds or not tests:
        raise AnalysisBroken('iv_event_post: add or emptiness test of the pending list not found')
    for a in adds:
        ra = [x for x in ls.get((a['_b'], a['_i']), ()) if x[0] == EVL]
        mp = must_pass(g, lambda e: e in tests)
        ok = bool(ra) and bool(mp.get((a['_b'], a['_i'])))
        for t in tests:
            rt = [x for x in ls.get((t['_b'], t['_i']), ()) if x[0] == EVL]
            ok = ok and rt == ra
        ctx.ob('R-C08a', 'iv_event_post:test-then-add-one-region', ok, loc=a['loc'],
               detail='emptiness test precedes the add, both inside the same acquisition of the owner\'s event_list_mutex', fn=f.q)
    # force the "was empty" edge and require a wake-up on every remaining path
    def keep(blk, si, atoms):
        for at in atoms:
            t = list_empty_test(at, member_key=('iv_state', 'events_pending'))
            if t == 'nonempty':
                return False
            t2 = list_empty_test(at, member_key=('iv_event', 'list'))
            if t2 == 'nonempty':
                return False       # event already queued: nothing added, nothing to wake
        return None
    gf = force_edges(g, keep)
    prune_infeasible(gf)
    def woke(e):
        if is_call(e, wake):
            return True
        if e['ev'] == 'call' and callback_kind(e) == ('method', 'event_send'):
            return True
        return False
    def tr(e, s):
        return True if woke(e) else s
    def edge(blk, si, s):
        if blk.term and blk.term.get('cond') is not None and len(blk.succ) == 2:
            for (op, lc, rc, l, r) in norm_cond(blk.term['cond'], si == 0):
                c = strip(l)
                if isinstance(c, dict) and c.get('k') == 'call' and c.get('callee') == 'iv_task_registered' and op == '!=' and rc == '0':
                    return True       # the owner-local task is already registered: it will run the events
        return s
    _, ev_in = forward(gf, False, tr, lambda a, b: a and b, edge=edge)
    pts = [(pb, pi) for (pb, pi, _) in exits_of(gf)] + [(gf.exit, 0)]
    reach = [p for p in pts if p in ev_in]
    if not reach:
        raise AnalysisBroken('iv_event_post: no exit reachable on the list-was-empty path')
    ok = all(ev_in[p] for p in reach)
    ctx.ob('R-C08a', 'iv_event_post:empty-implies-wake', ok, loc=f.loc,
           detail='on every path on which the pending list was empty and the event was added, the owner is woken '
                  '(iv_task_register / already registered, iv_event_raw_post, method->event_send)', fn=f.q)
    # the wake-up goes to the owner of the event
    owner = None
    for e in g.events():
        if e['ev'] in ('store', 'decl'):
            rhs = e.get('rhs') if e['ev'] == 'store' else e.get('init')
            if rhs is not None and last_member(rhs) == ('iv_event', 'owner'):
                owner = canon(e['lhs']) if e['ev'] == 'store' else e['name']
    if owner is None:
        raise AnalysisBroken('iv_event_post: owner variable not found')
    hd = holding(g, user_call_kills=False)
    for e in g.events():
        if is_call(e, 'iv_event_raw_post'):
            tgt = canon(e['args'][0])
            ctx.ob('R-C08a', 'iv_event_post:raw-post-targets-owner', tgt == '&%s->events_kick' % owner, loc=e['loc'],
                   detail='the raw event posted is the owner\'s kick (%s), not the poster\'s' % tgt, fn=f.q)
        elif e['ev'] == 'call' and callback_kind(e) == ('method', 'event_send'):
            ctx.ob('R-C08a', 'iv_event_post:send-targets-owner', canon(e['args'][0]) == owner, loc=e['loc'],
                   detail='method->event_send(%s)' % canon(e['args'][0]), fn=f.q)
        elif is_call(e, 'iv_task_register'):
            tgt = canon(e['args'][0])
            base = tgt[1:].split('->')[0] if tgt.startswith('&') else tgt
            A = hd.get((e['_b'], e['_i']), frozenset())
            same = base == owner or any(a[0] == '==' and {a[1], a[2]} == {owner, base} for a in A)
            ctx.ob('R-C08a', 'iv_event_post:local-task-is-owners', same and tgt.endswith('->events_local'), loc=e['loc'],
                   detail='the local task registered is the owner\'s (%s), on the edge poster == owner' % tgt, fn=f.q)
    # each transport arm wakes: count distinct wake kinds present
    kinds = set()
    for e in gf.events():
        if is_call(e, 'iv_task_register'):
            kinds.add('local task')
        if is_call(e, 'iv_event_raw_post'):
            kinds.add('raw event')
        if e['ev'] == 'call' and callback_kind(e) == ('method', 'event_send'):
            kinds.add('method send')
    ctx.ob('R-C08a', 'iv_event_post:three-transports', kinds == {'local task', 'raw event', 'method send'}, loc=f.loc,
           detail='wake-up transports present: %s' % sorted(kinds), fn=f.q)
    # the wake-up happens after the lock was dropped or at least not while holding another lock: posting cannot deadlock on itself
    for e in g.events():
        if woke(e):
            ctx.ob('R-C08a', 'iv_event_post:wake-outside-list-lock:%s' % (e.get('callee') or 'event_send'),
                   EVL not in held(ls.get((e['_b'], e['_i']))), loc=e['loc'],
                   detail='the wake-up is issued without the owner\'s list mutex held', fn=f.q)


def runner(ctx):
    prog = ctx.prog
    f = prog.fn('__iv_event_run_pending_events')
    ls = locksets(f)
    steals = [e for e in f.events() if is_call(e, '__iv_list_steal_elements')]
    if not steals:
        raise AnalysisBroken('runner: batch detach not found')
    for e in steals:
        ctx.ob('R-C08b', 'runner:detach-under-lock', EVL in held(ls.get((e['_b'], e['_i']))), loc=e['loc'],
               detail='the pending list is detached with the owner\'s mutex held', fn=f.q)
    batch = canon(steals[0]['args'][1])
    tests = [e for e in f.events() if is_call(e, 'iv_list_empty') and canon(e['args'][0]) == batch]
    for e in tests:
        ctx.ob('R-C08b', 'runner:batch-test-under-lock', EVL in held(ls.get((e['_b'], e['_i']))), loc=e['loc'],
               detail='emptiness of the detached batch is read with the mutex held (posters unlink/relink events under it)', fn=f.q)
    sites = [e for e in f.events() if callback_kind(e) == ('callback', 'event')]
    if not sites:
        raise AnalysisBroken('runner: handler call not found')
    for cs in sites:
        ctx.ob('R-C08b', 'runner:handler-without-lock', not held(ls.get((cs['_b'], cs['_i']))), loc=cs['loc'],
               detail='handler is called with no lock held', fn=f.q)
        obj = canon(strip(cs['fnexpr'])['base'])
        # unlink under the lock before the handler, in every iteration
        lps = loops(f)
        h = innermost_loop(f, cs['_b'], lps)
        def tr(e, s):
            if is_call(e, ('iv_list_del', 'iv_list_del_init')) and canon(e['args'][0]) == '&%s->list' % obj:
                return EVL in held(ls.get((e['_b'], e['_i'])))
            return s
        def edge(blk, si, s):
            return False if (h is not None and blk.succ[si] == h) else s
        _, ev_in = forward(f, False, tr, lambda a, b: a and b, edge=edge)
        ctx.ob('R-C08c', 'runner:unlinked-before-handler', bool(ev_in.get((cs['_b'], cs['_i']))), loc=cs['loc'],
               detail='iv_list_del_init(&%s->list) under the mutex precedes the handler in every iteration' % obj, fn=f.q)
        # after each handler the batch is re-tested (or known empty) before the next element is taken
        # (the emptiness value computed under the lock before the handler decides loop exit)
    null_rule(ctx, 'R-C08g', ('iv_event.c',))


def who_runs(ctx):
    prog = ctx.prog
    r = prog.fn('__iv_event_run_pending_events')
    direct = {c.name for c, e in prog.callers_of(r.name)}
    ctx.ob('R-C08d', 'runner:direct-callers', direct <= {'iv_event_run_pending_events'}, loc=r.loc,
           detail='direct callers: %s' % sorted(direct), fn=r.q)
    pollfns = set()
    for t, slots in prog.method_tables().items():
        pollfns.add(slots['poll'][1])
    outer = {c.name for c, e in prog.callers_of('iv_event_run_pending_events')}
    ctx.ob('R-C08d', 'runner:wrapper-callers', outer <= pollfns and bool(outer), loc=r.loc,
           detail='iv_event_run_pending_events is called only from poll slots: %s' % sorted(outer), fn=r.q)
    # in those poll slots the call is reached only if the kick token compared equal to this thread's state
    bysite = {}
    for c, e in prog.callers_of('iv_event_run_pending_events'):
        # every path to the call crosses an edge on which a kernel token compared equal to this thread's state
        stn = c.params[0]['name'] if c.params else 'st'
        def edge(blk, si, s, stn=stn):
            if blk.term and blk.term.get('cond') is not None and len(blk.succ) == 2:
                for (op, lc, rc, l, r) in norm_cond(blk.term['cond'], si == 0):
                    if op == '==' and {stn} & {lc, rc} and ('data.ptr' in lc or 'data.ptr' in rc):
                        return True
            return s
        _, ev_in = forward(c, False, lambda ev, s: s, lambda a, b: a and b, edge=edge)
        k = (c.q, e['loc'])
        bysite[k] = (c, e, bysite.get(k, (None, None, True))[2] and bool(ev_in.get((e['_b'], e['_i']))))
    for k, (c, e, ok) in sorted(bysite.items()):
        ctx.ob('R-C08d', '%s:own-kick-token' % c.name, ok, loc=e['loc'],
               detail='pending events are run only if a batch entry carried this thread\'s own state pointer as token', fn=c.q)
    # address of the runner is installed only as handler of the owner-local task and the kick raw event
    inst = []
    for fn in prog.all_funcs():
        for e in fn.events():
            if e['ev'] == 'store' and canon(e.get('rhs', {})) == r.name:
                inst.append((fn, e))
    okk = bool(inst) and all(canon(e['lhs']) in ('st->events_local.handler', 'st->events_kick.handler') for fn, e in inst)
    ctx.ob('R-C08d', 'runner:installed-as', okk, loc=inst[0][1]['loc'] if inst else r.loc,
           detail='stored into: %s' % sorted(canon(e['lhs']) for fn, e in inst), fn=r.q)
    # ... with the state block as cookie
    for fn, e in inst:
        ck = canon(e['lhs']).replace('.handler', '.cookie')
        cs = [x for x in fn.events() if x['ev'] == 'store' and canon(x['lhs']) == ck]
        ctx.ob('R-C08d', 'runner:cookie:%s' % ck, bool(cs) and all(canon(x['rhs']) == 'st' for x in cs), loc=e['loc'],
               detail='%s = st (the runner runs the events of the state block it is given)' % ck, fn=fn.q)
