"""C02 — descriptor readiness is never lost.

The behavioural statement needs the kernel's ground truth: not decided.  Claimed
are necessary structural clauses (DESIGN §3 C02).

Hardened formulation (see REPORT-C02.md): every clause is evaluated on *roots* (exported API,
poll-method slots) with the static helpers inlined, at *sites* identified by what they do (an indirect
call through the method table, a call of epoll_ctl / poll, a store to pollfd.events, a call of the
exported iv_fd_make_ready) and over a finite abstract domain (h02.AbsInt) or symbolic terms (h02.Sym)
instead of matching helper names, variable names, expression text or branch shapes.
"""
import itertools

from ..core import (names_of, AnalysisBroken, Inliner, canon, strip, strip_load, last_member, norm_cond, walk, forward, lvalue_root)
from ..analyses import (is_call, holding, path_to, describe, callback_kind, atoms_imply)
from .. import roles
from . import c06
from . import h02
from .h02 import NZ

MASKIN, MASKOUT, MASKERR = 1, 2, 4
IN, OUT, ERR, HUP = 1, 4, 8, 16     # EPOLL* == POLL* on Linux
EPOLL_CTL_DEL = 2
FD = 'iv_fd_'
HANDLER_FIELDS = {'handler_in': MASKIN, 'handler_out': MASKOUT, 'handler_err': MASKERR}
CORE_FIELDS = {(FD, 'handler_in'), (FD, 'handler_out'), (FD, 'handler_err'), (FD, 'registered'), (FD, 'wanted_bands')}
PUBLIC_HANDLERS = {('iv_fd', 'handler_in'), ('iv_fd', 'handler_out'), ('iv_fd', 'handler_err')}
WANTED, REGD = ('m', FD, 'wanted_bands'), ('m', FD, 'registered_bands')
EVENT_SOURCES = {('pollfd', 'revents'), ('epoll_event', 'events')}      # where the kernel reports
REQ_POLL, REQ_EPOLL = ('pollfd', 'events'), ('epoll_event', 'events')   # where the library requests
WAITS = ('epoll_wait', 'epoll_pwait', 'epoll_pwait2', 'poll', 'ppoll')
ARRAY_WAITS = ('poll', 'ppoll')
SLOTS = ('poll', 'notify_fd', 'notify_fd_sync', 'unregister_fd', 'register_fd')
NOTIFY_SLOTS = {('iv_fd_poll_method', 'notify_fd'), ('iv_fd_poll_method', 'notify_fd_sync')}


def is_method_notify(e):
    return e['ev'] == 'call' and callback_kind(e) in (('method', 'notify_fd'), ('method', 'notify_fd_sync'))


def short(t):
    return t.replace('iv_fd_poll_method_', '')


def want_of(reg, hin, hout, herr):
    return ((MASKIN if hin else 0) | (MASKOUT if hout else 0) | (MASKERR if herr else 0)) if reg else 0


def report_of(sigma):
    return ((MASKIN if sigma & (IN | ERR | HUP) else 0) | (MASKOUT if sigma & (OUT | ERR | HUP) else 0)
            | (MASKERR if sigma & (ERR | HUP) else 0))


def need_of(kind, w):
    n = (IN if w & MASKIN else 0) | (OUT if w & MASKOUT else 0)
    if kind == REQ_POLL and w & MASKERR:
        n |= HUP
    return n


def slot_roots(prog, slots=SLOTS, tables=None):
    """[(table, slot, function, inlined function)] one entry per distinct function"""
    out, seen = [], set()
    for t, sl in sorted(prog.method_tables().items()):
        if tables is not None and t not in tables:
            continue
        for s_ in slots:
            v = sl.get(s_)
            f = prog.resolve(*v) if v and v[0] != 'str' else None
            if f is None or f.q in seen:
                continue
            seen.add(f.q)
            out.append((t, s_, f))
    return out


def inline_slot(prog, t, f, stop=('iv_event_run_pending_events',)):
    stop = tuple(stop)
    return h02.fold_deref_addr(Inliner(prog, method_table=t, expand_methods=True, stop=lambda x: x.name in stop).inline(f))


def run(ctx):
    ctx.rule('R-C02a', 'every change of a registered descriptor\'s handlers / registered flag reaches the poll method: the store is '
                       'followed on every path to a normal return by the method\'s notify_fd or notify_fd_sync; handlers set '
                       'through the public type inside the library are followed by iv_fd_register of that object', floor=6)
    ctx.rule('R-C02b', 'wanted bands are the bands of the non-NULL handlers of a registered descriptor: whenever the poll method is '
                       'notified wanted_bands includes them, and at every successful return of an API call that notifies it equals '
                       'them (16 abstract states per entry point; the invariant is assumed at entry)', floor=32)
    ctx.rule('R-C02c', 'deferred kernel updates: a changed descriptor is queued by notify_fd, the queue is drained before every wait, '
                       'a synchronous flush leaves registered == wanted, registered_bands is set to wanted_bands and only on the '
                       'success edge of the kernel call, and a descriptor with wanted bands is never removed from the kernel set', floor=6)
    ctx.rule('R-C02d', 'request and report tables agree in every method: each wanted band requests its primary event; reported bands '
                       'are IN<-{IN,ERR,HUP}, OUT<-{OUT,ERR,HUP}, ERR<-{ERR,HUP} for every batch entry that is examined', floor=12)
    ctx.rule('R-C02e', 'zero timeout while tasks are pending (shared with C06)', floor=1)
    ctx.rule('R-C02f', 'poll-array compaction keeps the moved descriptor\'s request: the vacated slot receives the whole last entry '
                       '(or at least its fd and events), the moved descriptor\'s index and back-pointer are updated; an appended entry '
                       'gets the descriptor\'s fd, an event mask, the back-pointer, and the descriptor its index', floor=6)
    ctx.rule('R-C02g', 'every ready band that has a handler is dispatched: from the moment a descriptor is taken off the active batch until '
                       'the dispatcher drops it (next descriptor taken / return), for each of the 8x8 combinations of ready bands and '
                       'installed handlers the handler of every band that is ready and non-NULL is called, given that the callbacks leave '
                       'the descriptor registered and its handlers set (the only exception the property grants)', floor=3)
    ctx.section(compaction)
    ctx.section(dispatch)
    ctx.section(notify)
    ctx.section(wanted)
    ctx.section(flush)
    ctx.section(kernel_requests)
    ctx.section(report)
    ctx.section(zero)


# --------------------------------------------------------------------------
# R-C02f  swap-remove of the poll array (symbolic, per path)
# --------------------------------------------------------------------------

def _tname(t):
    return (t or '').replace('const ', '').strip()


def _compaction_path(sym, p, fdterm):
    """None when the path does not remove an array entry; else dict(entry=, index=, pointer=, why=)."""
    M = p.M
    counts = [a for a, v in M.items() if a[0] == 'fld' and h02.term_root(a)[0] != 'var' and v == h02.t_add(('ld', a), -1)]
    if not counts:
        return None
    n1 = M[counts[0]]
    for f in p.facts:
        if f[0] == '==':
            for y, z in ((f[1], f[2]), (f[2], f[1])):
                if z == n1 and y[0] == 'ld' and h02.term_root(y[1]) == fdterm:
                    return {'entry': True, 'index': True, 'pointer': True, 'why': 'the removed descriptor was the last entry'}
    elems = set()
    for a in M:
        if a[0] == 'elem':
            elems.add(a)
        elif a[0] == 'fld' and a[1][0] == 'elem':
            elems.add(a[1])
    slots = {a[2] for a in elems if a[2][0] == 'ld' and h02.term_root(a[2][1]) == fdterm}
    res = {'entry': False, 'index': False, 'pointer': False, 'why': 'no array slot addressed by a field of the removed descriptor is written'}
    for X in slots:
        r = {'entry': False, 'index': False, 'pointer': False, 'why': ''}
        L = None
        for a in elems:
            if a[2] == X and _tname(sym.types.get(a)) == 'struct iv_fd_ *' and M.get(a) == ('ld', ('elem', a[1], n1)):
                r['pointer'] = True
                L = M[a]
        if L is None:
            # the moved descriptor, as far as the path names it: any pointer loaded from the back-pointer array at the new count
            for a in elems:
                if _tname(sym.types.get(a)) == 'struct iv_fd_ *':
                    L = ('ld', ('elem', a[1], n1))
        if L is not None:
            ai = h02.term_replace(X[1], fdterm, L)
            r['index'] = M.get(ai) == X
        for a in elems:
            if a[2] != X or _tname(sym.types.get(a)) != 'struct pollfd':
                continue
            src = ('elem', a[1], n1)
            whole = M.get(a) == ('ld', src)

            def eff(fld, a=a, src=src, whole=whole):
                k = ('fld', a, 'pollfd', fld)
                if k in M:
                    return M[k]
                return sym.read(k, M) if a in M else None       # the entry was written as a whole (copy / struct value)
            fdv, evv = eff('fd'), eff('events')
            fd_ok = fdv is not None and (fdv == ('ld', ('fld', src, 'pollfd', 'fd')) or (L is not None and fdv == ('ld', ('fld', L, FD, 'fd'))))
            wl = ('ld', ('fld', L, FD, 'wanted_bands')) if L is not None else None
            ev_ok = evv is not None and (evv == ('ld', ('fld', src, 'pollfd', 'events'))
                                         or (wl is not None and (h02.term_contains(evv, wl)
                                                                 # recomputed by an inlined helper: the path branched on the moved descriptor's bands
                                                                 or any(h02.term_contains(f_, wl) for f_ in p.facts))))
            r['entry'] = fd_ok and ev_ok
            r['why'] = 'copies %s' % ('the whole last entry' if whole and fd_ok and ev_ok else
                                      'fd: %s, events: %s (both must come from the last entry / the moved descriptor: otherwise it is '
                                      'polled with the removed descriptor\'s event mask)' % ('yes' if fd_ok else 'no', 'yes' if ev_ok else 'no'))
        if sum(r[k] for k in ('entry', 'index', 'pointer')) >= sum(res[k] for k in ('entry', 'index', 'pointer')):
            res = r
    return res


def _add_path(sym, p, fdterm):
    """None when the path does not append an array entry; else dict(entry=, index=, pointer=, why=)."""
    M = p.M
    counts = [a for a, v in M.items() if a[0] == 'fld' and h02.term_root(a)[0] != 'var' and v == h02.t_add(('ld', a), 1)]
    if not counts:
        return None
    slot = ('ld', counts[0])            # the old count is the new entry's index
    r = {'entry': False, 'index': False, 'pointer': False, 'why': ''}
    r['index'] = any(a[0] == 'fld' and h02.term_root(a) == fdterm and v == slot for a, v in M.items())
    elems = set()
    for a in M:
        if a[0] == 'elem':
            elems.add(a)
        elif a[0] == 'fld' and a[1][0] == 'elem':
            elems.add(a[1])
    for a in elems:
        if a[2] != slot:
            continue
        if _tname(sym.types.get(a)) == 'struct iv_fd_ *' and M.get(a) == fdterm:
            r['pointer'] = True
        if _tname(sym.types.get(a)) == 'struct pollfd':
            fdv = sym.read(('fld', a, 'pollfd', 'fd'), M)
            evv = sym.read(('fld', a, 'pollfd', 'events'), M)
            fd_ok = fdv == ('ld', ('fld', fdterm, FD, 'fd'))
            # which mask is R-C02d's business (the helper computing it is inlined: the dependence on wanted_bands is control flow)
            # ... it must be written, and not be a copy of some array entry's (old) request
            ev_ok = (('fld', a, 'pollfd', 'events') in M or a in M) \
                and not (evv[0] == 'ld' and isinstance(evv[1], tuple) and evv[1][0] == 'fld' and evv[1][2] == 'pollfd')
            r['entry'] = fd_ok and ev_ok
            r['why'] = 'new pollfd entry: fd is the descriptor\'s fd: %s, events written: %s' % ('yes' if fd_ok else 'no', 'yes' if ev_ok else 'no')
    return r


def compaction(ctx):
    prog = ctx.prog
    done = set()
    ntab = 0
    for t, slots in sorted(prog.method_tables().items()):
        v = slots.get('poll')
        pf = prog.resolve(*v) if v else None
        if pf is None or not any(is_call(e, ARRAY_WAITS) for e in h02.inlined(prog, pf).events()):
            continue        # the kernel keeps the interest set (epoll): no array to compact
        ntab += 1
        found = False
        for slot in ('notify_fd', 'notify_fd_sync'):
            v = slots.get(slot)
            f = prog.resolve(*v) if v else None
            if f is None:
                continue
            fdp = [p for p in f.params if p.get('record') == FD and p.get('ptr')]
            if not fdp:
                raise AnalysisBroken('%s.%s: no descriptor parameter' % (t, slot))
            fdterm = ('ld', ('var', fdp[0]['name']))
            g = h02.inlined(prog, f)
            sym = h02.Sym(g)
            paths = [p for p in sym.run() if not p.cut]
            rs = [r for r in (_compaction_path(sym, p, fdterm) for p in paths) if r is not None]
            adds = [r for r in (_add_path(sym, p, fdterm) for p in paths) if r is not None]
            if not rs:
                continue
            if not adds:
                raise AnalysisBroken('%s.%s: entries are removed from the poll array but no path appends one' % (t, slot))
            found = True
            if f.q in done:
                continue
            done.add(f.q)
            lab = '%s:%s' % (short(t), slot)
            for key, name, what in (('entry', 'new-entry-complete', 'the appended pollfd entry gets the descriptor\'s fd and an event mask'),
                                    ('index', 'new-entry-index', 'the descriptor records the index of its new entry (the old count)'),
                                    ('pointer', 'new-entry-pointer', 'the descriptor pointer array slot of the new entry points to the descriptor')):
                bad = [r for r in adds if not r[key]]
                ctx.ob('R-C02f', '%s:%s' % (lab, name), not bad, loc=f.loc,
                       detail='%s on every path that appends an entry (%d paths)%s'
                              % (what, len(adds), ('; ' + bad[0]['why']) if bad and bad[0]['why'] else ''), fn=f.q)
            for key, name, what in (('entry', 'moved-entry-complete', 'the vacated pollfd slot receives the last entry (fd and events)'),
                                    ('index', 'moved-descriptor-index', 'the moved descriptor is given the vacated index'),
                                    ('pointer', 'moved-descriptor-pointer', 'the descriptor pointer array slot of the vacated index points to the moved descriptor')):
                bad = [r for r in rs if not r[key]]
                ctx.ob('R-C02f', '%s:%s' % (lab, name), not bad, loc=f.loc,
                       detail='%s on every path that removes an entry other than the last (%d paths)%s'
                              % (what, len(rs), ('; ' + bad[0]['why']) if bad and bad[0]['why'] else ''), fn=f.q)
        if not found:
            raise AnalysisBroken('%s: no path of notify_fd removes an entry from the poll array' % t)
    if not ntab:
        raise AnalysisBroken('no poll method that keeps a pollfd array')


# --------------------------------------------------------------------------
# R-C02g  the dispatcher calls the handler of every ready band that has one
# --------------------------------------------------------------------------

READY = ('m', FD, 'ready_bands')
HANDLED = ('m', 'iv_state', 'handled_fd')
HFIELDS = {(FD, h) for h in HANDLER_FIELDS}
HTOK = {MASKIN: 1001, MASKOUT: 1002, MASKERR: 1004}      # abstract values of the three (non-NULL) handler pointers
TOKBAND = {v: k for k, v in HTOK.items()}
FDTOK = 2000                                              # abstract value of the pointer to the descriptor being dispatched
ACTIVE_NODE = (FD, 'list_active')
BANDNAME = {MASKIN: 'input', MASKOUT: 'output', MASKERR: 'error'}


def _dispatch_key(m):
    lm = (m.get('record'), m['field'])
    if lm == (FD, 'ready_bands'):
        return READY
    if lm in HFIELDS:
        return ('m',) + lm
    if lm == ('iv_state', 'handled_fd'):
        return HANDLED
    return None


def _handler_locals(g):
    """locals into which the value of a descriptor's handler field can flow (a cached / selected handler pointer)"""
    defs = {}
    for e in g.events():
        if e['ev'] == 'store' and 'rhs' in e:
            r = lvalue_root(e['lhs'])
            if r is not None and r.get('vk') in ('local', 'param'):
                defs.setdefault(r['name'], []).append(e['rhs'])
        elif e['ev'] == 'decl' and isinstance(e.get('init'), dict):
            defs.setdefault(e['name'], []).append(e['init'])
    t, changed = set(), True
    while changed:
        changed = False
        for vn, rhss in defs.items():
            if vn not in t and any(any(y.get('k') == 'member' and last_member(y) in HFIELDS for y in walk(rh))
                                   or (h02.local_vars_in(rh) & t) for rh in rhss):
                t.add(vn)
                changed = True
    return t


def dispatch_sites(g):
    """indirect calls that run a descriptor's handler: through the handler field itself, or through a local that was
    given the value of a handler field (cached pointer, pointer selected by a conditional / a selector helper / a table)"""
    hl = _handler_locals(g)
    out = []
    for e in g.events():
        if e['ev'] != 'call' or 'fnexpr' not in e:
            continue
        if last_member(e['fnexpr']) in HFIELDS:
            out.append(e)
            continue
        r = lvalue_root(strip(e['fnexpr']))
        if r is not None and r.get('vk') in ('local', 'param') and r['name'] in hl and not last_member(e['fnexpr']):
            out.append(e)
            continue
        # the called value is read through such a local: `(*slot[i])(..)` with slot[k] = &fd->handler_x (a local table of
        # pointers to the handler fields), `(*hp)(..)` with hp = &fd->handler_x
        r = _read_root(e['fnexpr'])
        if r is not None and r['name'] in hl:
            out.append(e)
    return out


def _read_root(x):
    """the local a value is read from or through: descends through loads, casts, dereferences, subscripts and `.f`
    (not `->f` of a record: that is an object of its own, identified by its type)"""
    x = strip_load(x)
    while isinstance(x, dict):
        k = x.get('k')
        if k == 'var':
            return x if x.get('vk') in ('local', 'param') else None
        if k in ('deref', 'load', 'cast'):
            x = strip_load(x['e'])
        elif k == 'index':
            x = strip_load(x['base'])
        elif k == 'member' and not x.get('arrow'):
            x = strip_load(x['base'])
        else:
            return None
    return None


class DispatchAI(h02.AbsInt):
    """the descriptor being dispatched: ready_bands and the three handlers are parameters of the run; a callback through one
    of its handlers is *benign* (leaves the descriptor registered and the handlers as they are): the one case in which the
    property allows no band to be skipped"""
    C, E, AFTER, R0, H0 = ('x', 'called'), ('x', 'episode'), ('x', 'after'), ('x', 'r0'), ('x', 'h0')

    def __init__(self, g, sites, is_unlink, is_pick, prog):
        self.site_ids = {id(e) for e in sites}
        self.is_unlink, self.is_pick = is_unlink, is_pick
        self.seen = {}              # band -> locations of the calls that ran its handler
        self.undecided = None
        # a pointer to a descriptor is NULL or points to the descriptor being dispatched (a pop helper's result, the marker)
        fdptrs = {('v', e['name']) for e in g.events() if e['ev'] == 'decl' and e.get('record') == FD and e.get('ptr')
                  and _tname(e.get('type')) == 'struct iv_fd_ *'} | {HANDLED}
        h02.AbsInt.__init__(self, g, mem_key=_dispatch_key, on_event=self._hook, prog=prog,
                            fork=lambda k: (0, FDTOK) if k in fdptrs else None)

    @classmethod
    def params(cls, s, r, h):
        s[READY] = r
        for fld, band in HANDLER_FIELDS.items():
            s[('m', FD, fld)] = HTOK[band] if h & band else 0
        return s

    def _hook(self, e, s, ai):
        if self.is_unlink(e):
            s = self.params(dict(s), s[self.R0], s[self.H0])
            s[self.E], s[self.C] = 1, 0
            s.pop(self.AFTER, None)
            return s
        if self.is_pick(e):
            return self.params(dict(s), s[self.R0], s[self.H0])
        return None

    def ev(self, e, s):
        if isinstance(e, dict) and e.get('k') == 'container_of' and e.get('record') == FD:
            return FDTOK
        return h02.AbsInt.ev(self, e, s)

    def step(self, e, s):
        if e['ev'] == 'call' and id(e) in self.site_ids:
            tok = self.ev(e['fnexpr'], s)
            if tok in TOKBAND:
                s = dict(s)
                s[self.C] = s.get(self.C, 0) | TOKBAND[tok]
                s[self.AFTER] = '%s handler at %s' % (BANDNAME[TOKBAND[tok]], _short_loc(e['loc']))
                self.seen.setdefault(TOKBAND[tok], set()).add(e['loc'])
                return [s]
            if tok is None and self.undecided is None:
                self.undecided = e['loc']
        return h02.AbsInt.step(self, e, s)


def _raw_unlink_node(e):
    """P for a store `P->next->prev = P->prev`: the store that takes node P out of its list when the unlink is written out"""
    if e['ev'] != 'store' or e.get('op') != '=' or 'rhs' not in e:
        return None
    l, r = strip(e['lhs']), strip(e['rhs'])
    if not (isinstance(l, dict) and l.get('k') == 'member' and l.get('arrow') and last_member(l) == ('iv_list_head', 'prev')):
        return None
    b = strip(l['base'])
    if not (isinstance(b, dict) and b.get('k') == 'member' and last_member(b) == NEXT):
        return None
    if not (isinstance(r, dict) and r.get('k') == 'member' and last_member(r) == ('iv_list_head', 'prev')):
        return None
    p1 = b['base'] if b.get('arrow') else {'k': 'addr', 'e': b['base']}
    p2 = r['base'] if r.get('arrow') else {'k': 'addr', 'e': r['base']}
    return p1 if canon(strip(p1)) == canon(strip(p2)) else None


def _short_loc(loc):
    return ':'.join(str(loc).split('/')[-1].split(':')[:2])


def dispatch(ctx):
    prog = ctx.prog
    rts = sorted(roles.roots(prog), key=lambda r: r.q)
    rq = {r.q for r in rts}
    nroots = 0
    for r in rts:
        if not h02.closure_mentions(prog, r, HFIELDS):
            continue
        try:
            g = h02.inlined(prog, r)
        except AnalysisBroken:
            continue
        sites = [e for e in dispatch_sites(g) if not any(c[2] in rq and c[2] != r.q for c in e.get('chain', ()))]
        if not sites:
            continue
        nroots += 1
        al = h02.addr_aliases(g)
        # where a descriptor of the batch is picked (list node -> descriptor) and where it is taken off the batch
        picks = []
        for e in g.events():
            picks += [x for x in walk(e) if x.get('k') == 'container_of' and (x.get('record'), x.get('member')) == ACTIVE_NODE]
        for blk in g.blocks.values():
            if blk.term and isinstance(blk.term.get('cond'), dict):
                picks += [x for x in walk(blk.term['cond'])
                          if x.get('k') == 'container_of' and (x.get('record'), x.get('member')) == ACTIVE_NODE]
        vdefs = {}
        for e in g.events():
            if e['ev'] == 'store' and e.get('op') == '=' and 'rhs' in e:
                l = strip(e['lhs'])
                if isinstance(l, dict) and l.get('k') == 'var' and l.get('vk') in ('local', 'param'):
                    vdefs.setdefault(l['name'], set()).add(canon(strip(e['rhs'])))

        def spellings(x, vdefs=vdefs):
            # the node pointer as written, the local it was copy-propagated from, and what that local was assigned
            x = strip(x)
            out = {canon(x)}
            if isinstance(x, dict):
                if x.get('_was'):
                    out.add(x['_was'])
                for n in list(out):
                    out |= vdefs.get(n, set())
            return out
        pick_args = set()
        for x in picks:
            pick_args |= spellings(x['e'])

        def is_unlink(e, al=al, pick_args=pick_args):
            if is_call(e, ('iv_list_del', 'iv_list_del_init')) and e.get('args'):
                return _addr_member(e['args'][0], al) == ACTIVE_NODE or bool(spellings(e['args'][0]) & pick_args)
            p_ = _raw_unlink_node(e)        # written out in an order the core does not fuse into the helper's call
            return p_ is not None and (_addr_member(p_, al) == ACTIVE_NODE or bool(spellings(p_) & pick_args))

        def is_pick(e):
            return e['ev'] == 'store' and 'rhs' in e and any(
                x.get('k') == 'container_of' and (x.get('record'), x.get('member')) == ACTIVE_NODE for x in walk(e['rhs']))

        unlinks = [e for e in g.events() if is_unlink(e)]
        if not unlinks:
            raise AnalysisBroken('%s runs descriptor handlers but no site takes a descriptor off the active batch '
                                 '(unlink of an iv_fd_.list_active node)' % r.name)
        ai = DispatchAI(g, sites, is_unlink, is_pick, prog)
        init = []
        for r0 in range(8):
            for h0 in range(8):
                s = DispatchAI.params({ai.R0: r0, ai.H0: h0, ai.E: 0, ai.C: 0}, r0, h0)
                init.append(s)
        ev_in = ai.run(init)
        if ai.undecided is not None:
            raise AnalysisBroken('%s: which handler the call at %s runs is not decided by the abstract state' % (r.name, ai.undecided))
        checkpoints = [(e, ev_in.get((e['_b'], e['_i']), ()), 'the next descriptor is taken off the batch at %s' % _short_loc(e['loc']))
                       for e in unlinks]
        checkpoints += [(e, S, 'the dispatcher returns') for (e, S) in ai.root_exits(ev_in)]
        lost, nstates = {}, 0
        for (e, S, how) in checkpoints:
            for fs in S:
                s = dict(fs)
                if s.get(ai.E) != 1:
                    continue
                nstates += 1
                need = s[ai.R0] & s[ai.H0]
                for band in (MASKIN, MASKOUT, MASKERR):
                    if need & band and not s.get(ai.C, 0) & band:
                        cex = (s[ai.R0], s[ai.H0], '%s%s' % (('after the ' + s[ai.AFTER] + ' ') if s.get(ai.AFTER) else '', how))
                        if band not in lost or cex < lost[band]:
                            lost[band] = cex        # the smallest counterexample: the report does not depend on the iteration order
        if not nstates:
            raise AnalysisBroken('%s: no descriptor episode reaches its end in the abstract interpretation' % r.name)
        for band in (MASKIN, MASKOUT, MASKERR):
            locs = sorted(ai.seen.get(band, ()))
            ctx.ob('R-C02g', '%s:dispatch(band=%d)' % (r.name, band), band not in lost, loc=locs[0] if locs else r.loc,
                   detail='a descriptor taken off the active batch with band %d ready and a non-NULL %s handler has that handler called '
                          'before the dispatcher drops it, whatever other bands are ready / handlers are set (64 combinations; callbacks '
                          'that neither unregister the descriptor nor clear the handler)%s'
                          % (band, BANDNAME[band],
                             ('; VIOLATED: ready bands %d, handlers set for bands %d: %s without the %s handler having been called'
                              % (lost[band] + (BANDNAME[band],))) if band in lost else ('' if locs else '; no call runs this handler')), fn=r.q)
    if not nroots:
        raise AnalysisBroken('no entry point runs the handlers of a descriptor (indirect call through iv_fd_.handler_*)')


# --------------------------------------------------------------------------
# R-C02a  every interest change reaches the poll method
# --------------------------------------------------------------------------

def unfollowed(prog, g, starts, is_done):
    """ids of the start events from which a normal, non-failing return of the root can be reached without
    passing an event e with is_done(e, start).  Path-sensitive in the returned value (a merged `return ret`
    is a failure return only for the states in which ret is known non-zero)."""
    P = ('x', 'pending')
    idx = {id(e): i for i, e in enumerate(starts)}

    def on_event(e, s, ai):
        if id(e) in idx:
            return _with(s, P, s.get(P, frozenset()) | {idx[id(e)]})
        pend = s.get(P)
        if pend and e['ev'] in ('call', 'enter'):
            rest = frozenset(i for i in pend if not is_done(e, starts[i]))
            if rest != pend:
                return _with(s, P, rest)
        return None
    ai = h02.AbsInt(g, on_event=on_event, prog=prog)
    ev_in = ai.run([{}])
    bad = set()
    for (e, S) in ai.root_exits(ev_in):
        for fs in S:
            st = dict(fs)
            if e is not None and 'value' in e:
                rc = ai.ev(e['value'], st)
                if rc == NZ or (isinstance(rc, int) and rc != 0):
                    continue        # the call reported failure: nothing is registered
            bad |= set(st.get(P, ()))
    return {id(starts[i]) for i in bad}


def notify(ctx):
    prog = ctx.prog
    locs = set()

    def core_store(e):
        return e['ev'] == 'store' and last_member(e['lhs']) in CORE_FIELDS

    for f in h02.nearest_roots(prog, core_store, mentions=CORE_FIELDS):
        g = h02.inlined(prog, f)
        stores = [e for e in g.events() if core_store(e)]
        if not stores:
            continue
        bad = unfollowed(prog, g, stores, lambda e, s: is_method_notify(e)) if f.name != 'IV_FD_INIT' else set()
        for s in stores:
            locs.add(s['loc'])
            fld = last_member(s['lhs'])[1]
            rv = strip(s.get('rhs')) if 'rhs' in s else None
            inst = '%s:%s%s' % (f.name, fld, ('=%d' % rv['v']) if fld == 'wanted_bands' and isinstance(rv, dict) and rv.get('k') == 'int' else '')
            if f.name == 'IV_FD_INIT':
                ctx.exempt('R-C02a', inst, 'initialiser of an unregistered object')
                ctx.ob('R-C02a', inst, True, loc=s['loc'], detail='exempt: initialiser of an unregistered object', fn=f.q)
                continue
            ctx.ob('R-C02a', inst, id(s) not in bad, loc=s['loc'],
                   detail='%s is followed by method->notify_fd / notify_fd_sync on every path to a normal return' % describe(s), fn=f.q)

    # public-type handler stores inside the library
    def pub_store(e):
        return e['ev'] == 'store' and last_member(e['lhs']) in PUBLIC_HANDLERS

    def registers(e, s):
        objs = h02.obj_pointer_names(s['lhs'])
        return is_call(e, ('iv_fd_register', 'iv_fd_register_try')) and bool(e.get('args')) \
            and bool((set(names_of(e['args'][0])) | {canon(e['args'][0])}) & objs)

    for f in h02.nearest_roots(prog, pub_store, mentions=PUBLIC_HANDLERS):
        g = h02.inlined(prog, f)
        stores = [e for e in g.events() if pub_store(e)]
        bad = unfollowed(prog, g, stores, registers)
        for s in stores:
            locs.add(s['loc'])
            obj = canon(strip(s['lhs'])['base'])
            ctx.ob('R-C02a', '%s:%s.%s' % (f.name, obj.split('->')[-1], last_member(s['lhs'])[1]), id(s) not in bad, loc=s['loc'],
                   detail='library-internal descriptor: handler store is followed by iv_fd_register of %s on every non-error path' % obj, fn=f.q)
    if len(locs) < 8:
        raise AnalysisBroken('handler/registered stores: %d distinct sites found' % len(locs))


# --------------------------------------------------------------------------
# R-C02b  wanted bands == bands of the handlers (abstract interpretation of the API entry points)
# --------------------------------------------------------------------------

def _core_key(m):
    lm = (m.get('record'), m['field'])
    return ('m',) + lm if lm in CORE_FIELDS else None


BOOL_KEYS = [('m', FD, 'registered')] + [('m', FD, h) for h in HANDLER_FIELDS]


def wanted(ctx):
    prog = ctx.prog
    # soundness of the single-object abstraction: poll methods do not write the core's interest fields
    inmethod = {f.q for (t, s_, f) in slot_roots(prog, slots=tuple(next(iter(prog.method_tables().values())).keys()))}
    for fld in sorted(CORE_FIELDS):
        for fn in {fn.q: fn for (fn, e) in prog.writers_of(*fld)}.values():
            hit = [c.q for c in roles.callers_closure(prog, fn) if c.q in inmethod]
            if hit:
                raise AnalysisBroken('poll method slot %s writes %s.%s: the core/method split of the interest fields is gone' % (hit[0], fld[0], fld[1]))
    nroots = 0
    for f in h02.nearest_roots(prog, is_method_notify, mentions=NOTIFY_SLOTS):
        g = h02.inlined(prog, f)
        sites = [e for e in g.events() if is_method_notify(e)]
        if not sites:
            continue
        nroots += 1

        def norm(key, v, e):
            if key in BOOL_KEYS and v is not None:
                return 1 if (v == NZ or v) else 0
            return v
        ai = h02.AbsInt(g, mem_key=_core_key, fork=lambda k: (0, 1) if k in BOOL_KEYS else None, norm=norm, prog=prog)
        init = []
        combos = list(itertools.product((0, 1), repeat=4))
        for i, vals in enumerate(combos):
            s = dict(zip(BOOL_KEYS, vals))
            s[('x', 'i0')] = i
            if vals[0]:
                s[WANTED] = want_of(*vals)      # the invariant holds at entry for a registered descriptor
            init.append(s)
        ev_in = ai.run(init)
        verdict = {}        # i0 -> (ok, detail, loc)

        def judge(s, at, final, loc):
            i0 = s.get(('x', 'i0'))
            cur = [s.get(k) for k in BOOL_KEYS]
            w = s.get(WANTED)
            if any(c is None for c in cur):
                ok, why = False, 'the abstract state does not decide registered/handlers at %s' % at
            else:
                f_ = want_of(*cur)
                ok = isinstance(w, int) and ((w & 7) == f_ if final else (w & f_) == f_)
                why = '%s: registered=%d in=%d out=%d err=%d, wanted_bands=%s, %s %d' % ((at,) + tuple(cur) + (w, 'expected' if final else 'must include', f_))
            old = verdict.get(i0)
            if old is None or (old[0] and not ok):
                verdict[i0] = (ok, why, loc)

        for e in sites:
            for fs in ev_in.get((e['_b'], e['_i']), ()):
                judge(dict(fs), 'call of %s' % canon(e['fnexpr']).split('->')[-1], False, e['loc'])
        for (e, S) in ai.root_exits(ev_in):
            for fs in S:
                s = dict(fs)
                if e is not None and 'value' in e:
                    rc = ai.ev(e['value'], s)
                    if rc == NZ or (isinstance(rc, int) and rc != 0):
                        continue            # registration reported failure: the descriptor is not registered
                if s.get(('m', FD, 'registered')) == 0 and s.get(WANTED) is None:
                    continue                # never registered on this path: nothing was promised
                judge(s, 'return', True, e['loc'] if e is not None else f.loc)
        for i0 in sorted(verdict):
            ok, why, loc = verdict[i0]
            ctx.ob('R-C02b', '%s:registered=%d,in=%d,out=%d,err=%d' % ((f.name,) + combos[i0]), ok, loc=loc, detail=why, fn=f.q)
    if nroots < 4:
        raise AnalysisBroken('API entry points that notify the poll method: %d found' % nroots)


# --------------------------------------------------------------------------
# R-C02c  deferred updates are queued and drained before the wait
# --------------------------------------------------------------------------

def _addr_member(a, aliases=None):
    """(record, field) of the member whose address the pointer expression denotes (`&x->f`, or a local caching it)"""
    a = h02.resolve_alias(a, aliases)
    if isinstance(a, dict) and a.get('k') == 'addr':
        return last_member(a['e'])
    return None


LIST_LINKS = {('iv_list_head', 'next'), ('iv_list_head', 'prev')}


def empty_test(atom, head, aliases=None):
    """'empty' / 'nonempty' when the atom decides emptiness of the list `head` = (record, field): a truth test of
    iv_list_empty(p) or a comparison of p->next / p->prev with p, p denoting &head (directly or through a caching local)."""
    (op, lc, rc, l, r) = atom
    c = strip(l)
    if isinstance(c, dict) and c.get('k') == 'call' and c.get('callee') == 'iv_list_empty' and rc == '0' and c.get('args'):
        if _addr_member(c['args'][0], aliases) == head:
            return 'empty' if op == '!=' else 'nonempty'
        return None
    if op in ('==', '!=') and isinstance(l, dict) and isinstance(r, dict):
        for (a_, b_) in ((strip(l), strip(r)), (strip(r), strip(l))):
            if isinstance(a_, dict) and a_.get('k') == 'member' and last_member(a_) in LIST_LINKS:
                if a_.get('arrow'):
                    same = canon(a_['base']) == canon(b_)
                    p_ = a_['base']
                else:
                    same = isinstance(b_, dict) and b_.get('k') == 'addr' and canon(b_['e']) == canon(a_['base'])
                    p_ = b_
                if same and _addr_member(p_, aliases) == head:
                    return 'empty' if op == '==' else 'nonempty'
    return None


def notify_list(prog, t):
    """(list node field of the descriptor, list head) that table t's notify_fd queues on, or None."""
    v = prog.method_tables()[t].get('notify_fd')
    f = prog.resolve(*v) if v else None
    if f is None:
        return None
    g = inline_slot(prog, t, f)
    al = h02.addr_aliases(g)
    for e in g.events():
        if is_call(e, ('iv_list_add', 'iv_list_add_tail')) and len(e.get('args', [])) == 2:
            n, h = _addr_member(e['args'][0], al), _addr_member(e['args'][1], al)
            if n and n[0] == FD and h and h[0] != FD:
                return n, h
    return None


NEXT = ('iv_list_head', 'next')
LIST_WRITERS = ('iv_list_add', 'iv_list_add_tail', 'iv_list_splice', 'iv_list_splice_init', 'iv_list_splice_tail',
                'iv_list_splice_tail_init', '__iv_list_splice', '__iv_list_steal_elements', 'INIT_IV_LIST_HEAD')
EMPTY3 = (frozenset(), frozenset(), frozenset())


def drained(prog, g, head):
    """{(block, index): bool}  must-analysis: the list `head` = (record, field) is known empty.

    gen:  the empty edge of an emptiness test of the head (iv_list_empty / head.next == &head, also through a local
          caching &head); steal / splice-init / INIT of the head; and the exit edge `c == &head` of a walk that consumes
          the list from the front: c is known to be the *first* element (c = head.next), and it stays the first element
          when the node c was unlinked and c moved to what was c->next before (iv_list_for_each_safe, `while ((c =
          head.next) != &head)`, a saved next pointer ...) -- reaching the head then means nothing is left.
    kill: adds / splices into the head, raw stores to list links, user callbacks, library calls that were not inlined."""
    al = h02.addr_aliases(g)

    def is_head_ptr(x):
        return _addr_member(x, al) == head

    def cls(x, st):
        """'first' (the value of head.next) / 'second' (head.next->next) / None for a pointer expression"""
        (first, second, entry) = st
        x = strip(x)
        if not isinstance(x, dict):
            return None
        was = x.get('_was')
        if was in first:
            return 'first'
        if was in second:
            return 'second'
        if x.get('k') == 'var':
            return 'first' if x['name'] in first else 'second' if x['name'] in second else None
        if x.get('k') == 'member' and last_member(x) == NEXT:
            if x.get('arrow'):
                if is_head_ptr(x['base']):
                    return 'first'
                if cls(x['base'], st) == 'first':
                    return 'second'
            elif last_member(x['base']) == head:
                return 'first'
        return None

    def node_is_first(a, st):
        """does the pointer argument of an unlink denote the first element?"""
        a = strip(a)
        if cls(a, st) == 'first':
            return True
        if isinstance(a, dict) and a.get('k') == 'addr':
            m = strip(a['e'])
            if isinstance(m, dict) and m.get('k') == 'member' and m.get('arrow'):
                b = strip(m['base'])
                if isinstance(b, dict) and b.get('k') == 'var' and (b['name'], m['field']) in st[2]:
                    return True
                if isinstance(b, dict) and b.get('_was') and (b['_was'], m['field']) in st[2]:
                    return True
                if isinstance(b, dict) and b.get('k') == 'container_of' and b.get('member') == m['field'] and cls(b['e'], st) == 'first':
                    return True
        return False

    def nonnull_value(x, nn):
        x = strip(x)
        while isinstance(x, dict) and x.get('k') == 'assign':       # `(v = e) != NULL`: the store was emitted before the test
            x = strip(x.get('l'))
        if not isinstance(x, dict):
            return False
        if x.get('k') in ('addr', 'container_of'):
            return True
        return x.get('k') == 'var' and x['name'] in nn

    def tr(e, s):
        d, st, nn = s
        if e['ev'] == 'store':
            l = strip(e['lhs'])
            if isinstance(l, dict) and l.get('k') == 'var':
                n = l['name']
                c = cls(e.get('rhs'), st) if e['op'] == '=' else None
                r = strip(e.get('rhs')) if e['op'] == '=' else None
                ent = None
                if isinstance(r, dict) and r.get('k') == 'container_of' and cls(r['e'], st) == 'first':
                    ent = (n, r.get('member'))
                first = (st[0] - {n}) | ({n} if c == 'first' else set())
                second = (st[1] - {n}) | ({n} if c == 'second' else set())
                entry = frozenset(x for x in st[2] if x[0] != n) | ({ent} if ent else set())
                nn = (nn - {n}) | ({n} if e['op'] == '=' and nonnull_value(e.get('rhs'), nn) else frozenset())
                return (d, (frozenset(first), frozenset(second), frozenset(entry)), frozenset(nn))
            if last_member(e['lhs']) in LIST_LINKS:
                return (False, EMPTY3, nn)          # an open-coded list operation the core did not recognise
            return s
        if e['ev'] != 'call':
            return s
        nm = e.get('callee')
        a = [_addr_member(x, al) for x in e.get('args', [])]
        if nm in ('iv_list_add', 'iv_list_add_tail') and len(a) == 2 and (a[1] == head or a[0] == head):
            return (False, EMPTY3, nn)
        if nm in ('iv_list_splice', 'iv_list_splice_tail', '__iv_list_splice') and len(a) >= 2 and a[1] == head:
            return (False, EMPTY3, nn)
        if nm in ('iv_list_splice_init', 'iv_list_splice_tail_init', '__iv_list_steal_elements') and len(a) == 2:
            if a[1] == head:
                return (False, EMPTY3, nn)
            if a[0] == head:
                return (True, EMPTY3, nn)
        if nm == 'INIT_IV_LIST_HEAD' and a and a[0] == head:
            return (True, EMPTY3, nn)
        if nm in ('iv_list_del', 'iv_list_del_init') and e.get('args'):
            if node_is_first(e['args'][0], st):
                return (d, (st[1], frozenset(), frozenset()), nn)    # what was second is first now
            if a[0] == head:
                return (False, EMPTY3, nn)
            return (d, EMPTY3, nn)              # some node leaves some list: emptiness stays, the positions are no longer known
        if nm in LIST_WRITERS:
            return (d, EMPTY3, nn)
        if 'fnexpr' in e and (callback_kind(e) or ('', ''))[0] != 'method':
            return (False, EMPTY3, nn)            # a user callback may change a handler
        if nm and nm not in h02.PRIMITIVES and any(x.name == nm and x.blocks for x in prog.funcs.values()):
            return (False, EMPTY3, nn)            # library code that was not inlined
        return s

    def edge(blk, si, s):
        if blk.term and blk.term.get('cond') is not None and len(blk.succ) == 2 and blk.term.get('cls') not in ('SwitchStmt', 'MethodDispatch'):
            for at in norm_cond(blk.term['cond'], si == 0):
                if at[0] == 'const':
                    continue
                (op, lc, rc, l, r) = at
                # a pointer that was assigned the address of an object is not NULL: that edge is not taken
                if op == '==' and rc == '0' and isinstance(l, dict) and strip(l).get('k') in ('var', 'assign') and nonnull_value(l, s[2]):
                    return None
                if empty_test(at, head, al) == 'empty':
                    return (True, s[1], s[2])
                if op == '==' and isinstance(l, dict) and isinstance(r, dict):
                    for (x, y) in ((l, r), (r, l)):
                        if cls(x, s[1]) == 'first' and is_head_ptr(y):
                            return (True, s[1], s[2])
        return s

    def meet(a, b):
        return (a[0] and b[0], tuple(x & y for x, y in zip(a[1], b[1])), a[2] & b[2])

    # disjunctive (a helper that returns NULL on the empty edge and the unlinked first element otherwise is told apart by the
    # caller's NULL test: the two outcomes must not be merged in between); collapsed to one state when the set grows
    def tr_set(e, S):
        return frozenset(tr(e, s_) for s_ in S)

    def edge_set(blk, si, S):
        out = frozenset(x for x in (edge(blk, si, s_) for s_ in S) if x is not None)
        return out or None

    def join(A, B):
        U = A | B
        if len(U) > 48:
            it = iter(U)
            acc = next(it)
            for x in it:
                acc = meet(acc, x)
            return frozenset([acc])
        return U
    _, ev_in = forward(g, frozenset([(False, EMPTY3, frozenset())]), tr_set, join, edge=edge_set)
    return {k: all(x[0] for x in v) for k, v in ev_in.items()}


def flush(ctx):
    prog = ctx.prog
    tabs = {}
    for t in sorted(prog.method_tables()):
        nl = notify_list(prog, t)
        if nl:
            tabs[t] = nl
    if not tabs:
        raise AnalysisBroken('no deferring poll method')
    for t, (node, head) in sorted(tabs.items()):
        slots = prog.method_tables()[t]
        f = prog.resolve(*slots['poll'])
        g = inline_slot(prog, t, f)
        waits = [e for e in g.events() if is_call(e, WAITS)]
        if not waits:
            raise AnalysisBroken('%s: wait primitive not found' % f.name)

        ev_in = drained(prog, g, head)
        for w in waits:
            ok = bool(ev_in.get((w['_b'], w['_i'])))
            ctx.ob('R-C02c', '%s:%s:notify-list-empty' % (short(t), w['callee']), ok, loc=w['loc'],
                   detail='at %s the deferred-update list (%s.%s) is known empty on every path (drained, nothing queued since)' % (w['callee'], head[0], head[1]),
                   path=None if ok else path_to(g, w), fn=f.q)

        # notify_fd queues the descriptor whenever the kernel's view differs from the wanted bands
        nf = prog.resolve(*slots['notify_fd'])
        gn = inline_slot(prog, t, nf)
        Q = ('x', 'queued')

        aln = h02.addr_aliases(gn)

        def on_event(e, s, ai, node=node, head=head, aln=aln):
            if e['ev'] != 'call':
                return None
            nm = e.get('callee')
            a = [_addr_member(x, aln) for x in e.get('args', [])]
            if nm in ('iv_list_add', 'iv_list_add_tail') and len(a) == 2 and a[0] == node:
                return _with(s, Q, 1 if a[1] == head else 0)
            if nm in ('iv_list_del', 'iv_list_del_init') and a and a[0] == node:
                return _with(s, Q, 0)
            return None

        class AI(h02.AbsInt):
            def ev(self, e, s, node=node, aln=aln):
                if isinstance(e, dict) and e.get('k') == 'call' and e.get('callee') == 'iv_list_empty' and e.get('args') \
                        and _addr_member(e['args'][0], aln) == node and s.get(Q) is not None:
                    return 1 - s[Q]
                return h02.AbsInt.ev(self, e, s)
        ai = AI(gn, mem_key=_band_key, pinned={WANTED}, on_event=on_event, prog=prog)
        init = [{WANTED: w, REGD: r, Q: q} for w in range(8) for r in range(8) for q in (0, 1)]
        ev_in = ai.run(init)
        bad = None
        n = 0
        for (e, S) in ai.root_exits(ev_in):
            for fs in S:
                s = dict(fs)
                n += 1
                r_, w_ = s.get(REGD), s.get(WANTED)
                if s.get(Q) != 1 and bad is None and not (isinstance(r_, int) and isinstance(w_, int) and (w_ & ~r_ & 7) == 0):
                    bad = s
        if not n:
            raise AnalysisBroken('%s.notify_fd: no return reached by the abstract interpretation' % t)
        ctx.ob('R-C02c', '%s:notify_fd:queues-changed-descriptor' % short(t), bad is None, loc=nf.loc,
               detail='at return of notify_fd a descriptor that wants a band the kernel has not been told about (wanted_bands & ~registered_bands) '
                      'is on the deferred-update list'
                      + ('' if bad is None else ' (counterexample: registered=%s wanted=%s)' % (bad.get(REGD), bad.get(WANTED))), fn=nf.q)


def _with(s, k, v):
    s = dict(s)
    s[k] = v
    return s


def _band_key(m):
    lm = (m.get('record'), m['field'])
    if lm == (FD, 'wanted_bands'):
        return WANTED
    if lm == (FD, 'registered_bands'):
        return REGD
    return None


# --------------------------------------------------------------------------
# R-C02d (request side) / R-C02c (kernel bookkeeping): what the kernel is told, as a function of wanted_bands
# --------------------------------------------------------------------------

def _is_fd_pointer(x):
    x = strip(x)
    if not isinstance(x, dict):
        return False
    if x.get('k') == 'var':
        return x.get('record') == FD and bool(x.get('ptr'))
    if x.get('k') == 'member':
        return x.get('trecord') == FD and bool(x.get('tptr'))
    if x.get('k') == 'container_of':
        return x.get('record') == FD
    if x.get('k') == 'cast':
        return x.get('record') == FD
    return False


def _is_token_key(key):
    return key[0] == 'l' and key[2][0] == ('epoll_event', 'data') and key[2][-1][1] == 'ptr'


CTL = ('x', 'result of the last epoll_ctl')


class KernelAI(h02.AbsInt):
    """the kernel call either succeeds (0) or fails (-1): both outcomes are followed, and every use of its value (stored,
    tested directly, copied, returned through a helper or an out-parameter) evaluates to the outcome of the path"""

    def step(self, e, s):
        outs = h02.AbsInt.step(self, e, s)
        if e['ev'] == 'call' and e.get('callee') == 'epoll_ctl':
            return [_with(o, CTL, v) for o in outs for v in (-1, 0)]
        return outs

    def ev(self, e, s):
        if isinstance(e, dict) and e.get('k') == 'call' and e.get('callee') == 'epoll_ctl':
            return s.get(CTL)
        return h02.AbsInt.ev(self, e, s)


def kernel_requests(ctx):
    prog = ctx.prog
    sites = {}          # loc -> dict(kind, w -> (ok, detail), fn)
    regd = {}           # loc -> dict(okval, okedge, detail, fn)
    kept = {}           # loc -> (ok, detail, fn)
    tables_with_site = set()
    deferring = {t for t in prog.method_tables() if notify_list(prog, t)}
    users = {}
    for t_, sl in prog.method_tables().items():
        for s_ in SLOTS:
            v_ = sl.get(s_)
            f_ = prog.resolve(*v_) if v_ and v_[0] != 'str' else None
            if f_ is not None:
                users.setdefault(f_.q, set()).add(t_)

    def norm(key, v, e):
        if _is_token_key(key) and e is not None and 'rhs' in e:
            return 1 if _is_fd_pointer(e['rhs']) else 0
        return v

    for (t, slot, f) in slot_roots(prog):
        g = inline_slot(prog, t, f)
        # requests written into the persistent pollfd array (not the local probe of notify_fd_sync); a store whose value is
        # read from another slot's events field moves an existing request (swap-remove, R-C02f), it does not make one
        k_stores = [e for e in g.events() if e['ev'] == 'store' and last_member(e['lhs']) == REQ_POLL and h02.local_path(e['lhs']) is None
                    and not (e['op'] == '=' and last_member(e.get('rhs')) == REQ_POLL)]
        # ... or a whole entry written from a compound literal / initialiser list
        w_stores = []
        for e in g.events():
            if e['ev'] == 'store' and e['op'] == '=' and strip(e['lhs']).get('k') in ('index', 'deref') \
                    and _tname(strip(e['lhs']).get('type')) == 'struct pollfd':
                lit = e.get('rhs')
                while isinstance(lit, dict) and lit.get('k') in ('load', 'cast', 'compound', 'stmtexpr') and 'e' in lit:
                    lit = lit['e']
                if isinstance(lit, dict) and lit.get('k') == 'init' and isinstance(lit.get('fields'), dict):
                    w_stores.append((e, lit['fields'].get('events')))
                elif isinstance(lit, dict) and lit.get('k') == 'var' and lit.get('vk') in ('local', 'param'):
                    # ... or from a local struct (an entry built by a helper and returned by value): its events field
                    w_stores.append((e, {'k': 'load', 'e': {'k': 'member', 'arrow': False, 'base': lit, 'record': 'pollfd',
                                                           'field': 'events', 'type': 'short'}}))
        ctls = [e for e in g.events() if is_call(e, 'epoll_ctl') and len(e.get('args', [])) == 4]
        r_stores = [e for e in g.events() if e['ev'] == 'store' and last_member(e['lhs']) == (FD, 'registered_bands')] if ctls else []
        sync = slot == 'notify_fd_sync' and t in deferring
        if not (k_stores or w_stores or ctls or sync):
            continue

        def nested(s, name, rec, fld, node):
            # `.data = { .ptr = x }` / `.data.ptr = x` in an initialiser of a struct epoll_event
            if (rec, fld) == ('epoll_event', 'data') and len(node.get('elems', [])) == 1:
                s[('l', name, ((rec, fld), ('epoll_data', 'ptr')))] = 1 if _is_fd_pointer(node['elems'][0]) else 0
        # only the part of the root from which a site can still be reached is explored (the activation code after the wait is not)
        relevant = None if sync else h02.blocks_reaching(g, k_stores + [e for (e, x) in w_stores] + ctls + r_stores)
        ai = KernelAI(g, mem_key=_band_key, pinned={WANTED}, norm=norm, quiet_calls=('epoll_ctl',), prog=prog, on_nested_init=nested,
                      relevant=relevant)
        ev_in = ai.run([{WANTED: w, REGD: r} for w in range(8) for r in range(8)])

        def states(e):
            return [dict(fs) for fs in ev_in.get((e['_b'], e['_i']), ())]

        def record(e, kind, w, ok, detail):
            d = sites.setdefault(e['loc'], {'kind': kind, 'fn': f.q, 'w': {}})
            old = d['w'].get(w)
            if old is None or (old[0] and not ok):
                d['w'][w] = (ok, detail)

        for (e, x) in [(e, e.get('rhs') if e['op'] == '=' else None) for e in k_stores] + w_stores:
            for s in states(e):
                w = s[WANTED]
                v = ai.ev(x, s) if x is not None else None
                need = need_of(REQ_POLL, w)
                ok = isinstance(v, int) and (v & need) == need and (w != 0 or v == 0)
                record(e, REQ_POLL, w, ok, 'pollfd.events = %s for wanted bands %d, must include %d%s' % (v, w, need, '' if w else ' and be 0'))
                tables_with_site.update(users[f.q])
        for e in ctls:
            ev_arg = strip(e['args'][3])
            var = strip(ev_arg['e']) if isinstance(ev_arg, dict) and ev_arg.get('k') == 'addr' else None
            name = var['name'] if isinstance(var, dict) and var.get('k') == 'var' else None
            for s in states(e):
                w = s[WANTED]
                tok = [v for k, v in s.items() if name and k[0] == 'l' and k[1] == name and _is_token_key(k)]
                if tok and tok[0] == 0:
                    continue                 # kick / timer token, not a descriptor
                tables_with_site.update(users[f.q])
                op = ai.ev(e['args'][1], s)
                if w != 0:
                    ok = isinstance(op, int) and op != EPOLL_CTL_DEL
                    old = kept.get(e['loc'])
                    if old is None or (old[0] and not ok):
                        kept[e['loc']] = (ok, 'epoll_ctl op is %s with wanted bands %d (registered %s): a descriptor with wanted bands stays in the kernel set'
                                          % (op, w, s.get(REGD)), f.q)
                if op == EPOLL_CTL_DEL:
                    continue
                v = s.get(('l', name, (REQ_EPOLL,))) if name else None
                need = need_of(REQ_EPOLL, w)
                ok = isinstance(v, int) and (v & need) == need and (w != 0 or v == 0)
                record(e, REQ_EPOLL, w, ok, 'epoll_event.events = %s for wanted bands %d, must include %d%s' % (v, w, need, '' if w else ' and be 0'))
        if r_stores:
            hd = holding(g)
            rets = set()
            for e in g.events():
                if e['ev'] == 'store' and 'rhs' in e and any(x.get('k') == 'call' and x.get('callee') == 'epoll_ctl' for x in walk(e['rhs'])):
                    rets.add(canon(e['lhs']))
            changed = True
            while changed:          # copies of the result (return temporaries of an extracted retry helper)
                changed = False
                for e in g.events():
                    if e['ev'] == 'store' and e.get('op') == '=' and 'rhs' in e and canon(e['lhs']) not in rets:
                        r_ = strip(e['rhs'])
                        if isinstance(r_, dict) and r_.get('k') == 'var' and r_['name'] in rets:
                            rets.add(canon(e['lhs']))
                            changed = True
            for e in r_stores:
                A = hd.get((e['_b'], e['_i']), frozenset())
                okedge = any(atoms_imply(A, '>=', v, '0') for v in rets) or any(a[1].startswith('epoll_ctl(') and atoms_imply(A, '>=', a[1], '0') for a in A)
                # ... or, path-sensitively: in every abstract state that reaches the store the last kernel call succeeded
                reach = states(e)
                okedge = okedge or (bool(reach) and all(s.get(CTL) == 0 for s in reach))
                okval, why = True, ''
                for s in reach:
                    v = ai.ev(e.get('rhs'), s) if e['op'] == '=' else None
                    if v != s[WANTED]:
                        okval, why = False, ' (stores %s with wanted bands %d, registered %s)' % (v, s[WANTED], s.get(REGD))
                        break
                d = regd.setdefault(e['loc'], {'okval': True, 'okedge': True, 'why': '', 'fn': f.q})
                d['okval'] &= okval
                d['okedge'] &= okedge
                d['why'] = d['why'] or why
        if sync:
            bad, n = None, 0
            for (e, S) in ai.root_exits(ev_in):
                for fs in S:
                    s = dict(fs)
                    rc = ai.ev(e['value'], s) if e is not None and 'value' in e else 0
                    if rc == NZ or (isinstance(rc, int) and rc != 0):
                        continue
                    n += 1
                    if s.get(REGD) != s[WANTED] and bad is None:
                        bad = s
            if not n:
                raise AnalysisBroken('%s.notify_fd_sync: no successful return reached' % t)
            ctx.ob('R-C02c', '%s:notify_fd_sync:registered-equals-wanted' % short(t), bad is None, loc=f.loc,
                   detail='at a successful return of the synchronous flush registered_bands == wanted_bands'
                          + ('' if bad is None else ' (counterexample: wanted %s, registered %s)' % (bad.get(WANTED), bad.get(REGD))), fn=f.q)
    for t in sorted(prog.method_tables()):
        if t not in tables_with_site:
            raise AnalysisBroken('%s: no site where the kernel is told the requested events (pollfd.events store / epoll_ctl)' % t)
    for i, loc in enumerate(sorted(sites)):
        d = sites[loc]
        for w in sorted(d['w']):
            ok, detail = d['w'][w]
            ctx.ob('R-C02d', '%s#%d:request(bits=%d)' % ('poll-array' if d['kind'] == REQ_POLL else 'epoll_ctl', i, w), ok, loc=loc, detail=detail, fn=d['fn'])
    for i, loc in enumerate(sorted(kept)):
        ok, detail, fn = kept[loc]
        ctx.ob('R-C02c', 'epoll_ctl#%d:kept-in-kernel-set' % i, ok, loc=loc, detail=detail, fn=fn)
    for i, loc in enumerate(sorted(regd)):
        d = regd[loc]
        ctx.ob('R-C02c', 'registered_bands#%d:on-success' % i, d['okval'] and d['okedge'], loc=loc,
               detail='registered_bands = wanted_bands%s, only when epoll_ctl did not fail%s' % (d['why'], '' if d['okedge'] else ' (not on the success edge)'), fn=d['fn'])
    if deferring and not regd:
        raise AnalysisBroken('deferring poll method: no store to registered_bands next to the kernel call')


# --------------------------------------------------------------------------
# R-C02d (report side): bands reported for a batch entry as a function of its kernel event mask
# --------------------------------------------------------------------------

def _sigma_key(m):
    lm = (m.get('record'), m['field'])
    if lm in EVENT_SOURCES and h02.local_path(m) is None:
        return ('m', 'kernel', 'events')
    return None


def report(ctx):
    prog = ctx.prog
    SIG, T, R, U = ('m', 'kernel', 'events'), ('x', 'tested'), ('x', 'reported'), ('x', 'unknown-band')
    # the exported reporting primitive; its arguments by type: the descriptor and the (only) integer, the bands
    mr = prog.fn('iv_fd_make_ready')
    a_fd = [i for i, p_ in enumerate(mr.params) if p_.get('record') == FD and p_.get('ptr')]
    a_band = [i for i, p_ in enumerate(mr.params) if not p_.get('ptr') and not p_.get('record')]
    if len(a_fd) != 1 or len(a_band) != 1:
        raise AnalysisBroken('iv_fd_make_ready: descriptor / bands parameters not identified')
    A_FD, A_BAND = a_fd[0], a_band[0]
    for t, slots in sorted(prog.method_tables().items()):
        v = slots.get('poll')
        f = prog.resolve(*v) if v else None
        if f is None:
            raise AnalysisBroken('%s: no poll slot' % t)
        g = inline_slot(prog, t, f, stop=('iv_event_run_pending_events', 'iv_fd_make_ready'))
        calls = [e for e in g.events() if is_call(e, 'iv_fd_make_ready') and len(e.get('args', [])) == len(mr.params)]
        if not calls:
            raise AnalysisBroken('%s: the poll slot never reports a descriptor (iv_fd_make_ready)' % t)
        callids = {id(e) for e in calls}
        # variables through which the kernel event mask flows / which select the batch entry
        defs = {}
        for e in g.events():
            if e['ev'] == 'store' and 'rhs' in e:
                l = strip(e['lhs'])
                if isinstance(l, dict) and l.get('k') == 'var':
                    defs.setdefault(l['name'], []).append(e['rhs'])

        def sigma_nodes(x):
            return [y for y in walk(x) if y.get('k') == 'member' and _sigma_key(y)]
        tainted = set()
        changed = True
        while changed:
            changed = False
            for vn, rhss in defs.items():
                if vn not in tainted and any(sigma_nodes(r) or (h02.local_vars_in(r) & tainted) for r in rhss):
                    tainted.add(vn)
                    changed = True

        def mentions_sigma(x):
            return bool(sigma_nodes(x)) or bool(h02.local_vars_in(x) & tainted)

        def deps(x):
            out, work = set(), list(h02.local_vars_in(x))
            while work:
                vn = work.pop()
                if vn in out:
                    continue
                out.add(vn)
                for r in defs.get(vn, []):
                    work += list(h02.local_vars_in(r))
            return out
        sdeps = set()
        for e in g.events():
            for n_ in sigma_nodes(e):
                sdeps |= deps(n_)
        for b in g.blocks.values():
            if b.term and b.term.get('cond') is not None:
                for n_ in sigma_nodes(b.term['cond']):
                    sdeps |= deps(n_)
        # the batch cursor: variables that select the entry (the descriptor argument and the event mask depend on them) and
        # that are *advanced* (i++, p = p + 1, pos = pos->next): between two advances one entry is examined
        advancing = set()
        for e in g.events():
            if e['ev'] == 'store':
                l = strip(e['lhs'])
                if isinstance(l, dict) and l.get('k') == 'var' and (e['op'] != '=' or l['name'] in h02.local_vars_in(e.get('rhs'))):
                    advancing.add(l['name'])
        cursor = set(sdeps)
        for e in calls:
            cursor |= deps(e['args'][A_FD])
        cursor &= advancing

        def is_boundary(e):
            if e['ev'] != 'store':
                return False
            l = strip(e['lhs'])
            return isinstance(l, dict) and l.get('k') == 'var' and l['name'] in cursor

        def on_event(e, s, ai):
            if is_boundary(e):
                s = dict(s)
                s[T], s[R] = 0, 0
                s.pop(U, None)
                return s
            if id(e) in callids:
                b = ai.ev(e['args'][A_BAND], s)
                s = dict(s)
                if isinstance(b, int):
                    s[R] = s.get(R, 0) | (b & 7)
                else:
                    s[U] = 1
                return s
            return None

        def on_edge(blk, si, s, ai):
            if s.get(T) != 1 and mentions_sigma(blk.term['cond']):
                return _with(s, T, 1)
            return None
        ai = h02.AbsInt(g, mem_key=_sigma_key, pinned={SIG}, on_event=on_event, on_edge=on_edge, prog=prog)
        ev_in = ai.run([{SIG: (IN if i & 1 else 0) | (OUT if i & 2 else 0) | (ERR if i & 4 else 0) | (HUP if i & 8 else 0), T: 0, R: 0}
                        for i in range(16)])
        lost, extra, unknown = {}, {}, None
        checkpoints = [(e, ev_in.get((e['_b'], e['_i']), ())) for e in g.events() if is_boundary(e)] + ai.root_exits(ev_in)
        for (e, S) in checkpoints:
            for fs in S:
                s = dict(fs)
                if not s.get(T):
                    continue
                if s.get(U):
                    unknown = s
                want, got = report_of(s[SIG]), s.get(R, 0)
                for band in (MASKIN, MASKOUT, MASKERR):
                    if want & band and not got & band:
                        lost.setdefault(band, s[SIG])
                    if got & band and not want & band:
                        extra.setdefault(band, s[SIG])
        if unknown is not None:
            raise AnalysisBroken('%s: the band argument of iv_fd_make_ready is not decided by the abstract state' % t)
        for band in (MASKIN, MASKOUT, MASKERR):
            locs = [e['loc'] for e in calls if strip(e['args'][A_BAND]).get('v') == band] or [f.loc]
            ok = band not in lost and band not in extra
            ctx.ob('R-C02d', '%s:report(band=%d)' % (short(t), band), ok, loc=locs[0],
                   detail='for every kernel event mask over {IN,OUT,ERR,HUP} an examined batch entry is reported for band %d exactly when the mask '
                          'meets %d%s%s' % (band, {MASKIN: IN | ERR | HUP, MASKOUT: OUT | ERR | HUP, MASKERR: ERR | HUP}[band],
                                            ('; NOT reported under mask %d (readiness lost)' % lost[band]) if band in lost else '',
                                            ('; reported under mask %d' % extra[band]) if band in extra else ''), fn=f.q)


class _Borrowed:
    """ctx stand-in for a rule borrowed from another module: obligations are collected, everything else is the real ctx."""

    def __init__(self, ctx):
        self._ctx = ctx
        self.sub = []

    def ob(self, rid, inst, ok, **kw):
        self.sub.append((rid, inst, ok, kw))

    def exempt(self, *a, **k):
        pass

    def rule(self, *a, **k):
        pass

    def __getattr__(self, name):
        return getattr(self._ctx, name)


def zero(ctx):
    proxy = _Borrowed(ctx)
    c06.zero_timeout(proxy)
    for rid, inst, ok, kw in proxy.sub:
        if rid == 'R-C06b':
            ctx.ob('R-C02e', inst, ok, **kw)
