"""Helpers of C17: a small path-enumerating evaluator for an inlined root function.

The function (core.Inliner output: every static helper inlined, flag locals partitioned,
cached reads propagated) is walked along *every* path under an initial memory chosen by the
rule.  Values are concrete integers where the rule seeded them (pump fields, results of the
transfer system calls) and opaque symbols elsewhere; a branch on an opaque value forks the
path and records the decision (interval / disequality constraints for symbol-vs-constant,
a memo for everything else), so that a path never takes contradictory decisions about the
same value.  Memory is a map from *locations* (variable, field of an object, array element)
to values; `&x`, `*p`, `p->f`, `a[i]`, pointer arithmetic (byte offsets, scaled by the static
element type) and container_of are evaluated on that map, so that it is irrelevant whether
the source reads a field directly, through a cached local, through a helper's parameter or
through a pointer to the field.

Calls that the inliner could not resolve statically are resolved by *value*: when the called expression
evaluates to a function with a body (an entry of a constant table of function pointers, a member of a
per-mode operations record, a function pointer kept in a local, a job record or passed as an argument),
the body is executed in a frame of its own (its helpers inlined, its locals qualified by the frame depth).
Cells of never-written file-scope objects are read from their initialisers by byte address (table[i].f,
(table + i)->f and a cached element pointer are the same cell); an opaque index into such a table forks
over the table's positions; a static pointer variable that the program only ever assigns link-time
constants (an operations record selected at start-up) forks over those constants.  Local aggregates with
initialiser lists are initialised cell by cell.  A read or write through NULL ends the path like a
noreturn call.

No repository code is executed; this is abstract interpretation of the CFG facts over a
finite set of seeded inputs (the brief's option 2), with the environment (calls that are not
inlined) supplied by the rule as a call model that may fork over outcomes.
"""
from ..core import AnalysisBroken, canon

CMP = ('<', '>', '<=', '>=', '==', '!=')
NEGOP = {'==': '!=', '!=': '==', '<': '>=', '>=': '<', '>': '<=', '<=': '>'}
SWAPOP = {'==': '==', '!=': '!=', '<': '>', '>': '<', '<=': '>=', '>=': '<='}

SCALAR_SIZE = {'char': 1, 'signed char': 1, 'unsigned char': 1, '_Bool': 1, 'void': 1,
               'short': 2, 'unsigned short': 2, 'int': 4, 'unsigned int': 4, 'unsigned': 4,
               'long': 8, 'unsigned long': 8, 'long long': 8, 'unsigned long long': 8,
               'size_t': 8, 'ssize_t': 8, 'uint8_t': 1, 'int8_t': 1, 'uint16_t': 2, 'int16_t': 2,
               'uint32_t': 4, 'int32_t': 4, 'uint64_t': 8, 'int64_t': 8, 'u_char': 1, 'float': 4, 'double': 8}

INF = 1 << 62

# compiler hints whose value is their first argument
IDENTITY_CALLS = ('__builtin_expect', '__builtin_expect_with_probability', '__builtin_assume_aligned')


class Sym(object):
    """opaque value; identity is the object"""
    __slots__ = ('id', 'origin')
    _n = [0]

    def __init__(self, origin):
        Sym._n[0] += 1
        self.id = Sym._n[0]
        self.origin = origin

    def __repr__(self):
        return '<%s#%d>' % (show_loc(self.origin) if isinstance(self.origin, tuple) else self.origin, self.id)


def show_loc(L):
    if not isinstance(L, tuple) or not L:
        return str(L)
    k = L[0]
    if k == 'var':
        return L[1]
    if k == 'global':
        return L[1]
    if k == 'obj':
        return '*%s' % (show_val(L[1]),)
    if k == 'fld':
        return '%s.%s' % (show_loc(L[1]), L[3])
    if k == 'idx':
        return '%s[%s]' % (show_loc(L[1]), L[2])
    if k == 'at':
        return '%s@+%s' % (show_loc(L[1]), L[2])
    return '(%s)' % ' '.join(str(x) for x in L)


def show_val(v):
    if isinstance(v, Sym):
        o = v.origin
        if isinstance(o, tuple) and o and o[0] in ('var', 'fld', 'idx', 'global', 'obj', 'at'):
            return show_loc(o)
        return repr(v)
    if isinstance(v, tuple) and v and v[0] == 'ptr':
        return '&%s%s' % (show_loc(v[1]), ('+%s' % (v[2],)) if v[2] else '')
    return str(v)


class NeedDecision(Exception):
    def __init__(self, op, a, b):
        Exception.__init__(self, '%s %s %s' % (a, op, b))
        self.key = (op, a, b)


class NeedValues(Exception):
    """the path needs the concrete value of an opaque integer that is known to lie in a small set (an index into a
    constant table): fork over the set"""
    def __init__(self, sym, values, key=None):
        Exception.__init__(self, '%s in %s' % (sym if key is None else key, values))
        self.sym = sym
        self.values = values
        self.key = key          # memory cell to be given one of the values (sym is None then)


class Trap(Exception):
    """the path reads or writes through a null pointer"""


class St(object):
    """one path state"""
    __slots__ = ('mem', 'cons', 'memo', 'calls', 'effects', 'marks', 'steps', 'stack')

    def __init__(self):
        self.mem = {}
        self.cons = {}      # Sym -> (lo, hi, frozenset(excluded))
        self.memo = {}      # (op, a, b) -> bool
        self.calls = {}     # (callee, loc) -> value of the latest execution of that call site
        self.effects = []
        self.marks = {}     # free for the rule (counters, flags)
        self.steps = 0
        self.stack = ()     # frames of functions entered by value: (callee Func, return block, return index, call event)

    def fork(self):
        s = St()
        s.mem = dict(self.mem)
        s.cons = dict(self.cons)
        s.memo = dict(self.memo)
        s.calls = dict(self.calls)
        s.effects = list(self.effects)
        s.marks = dict(self.marks)
        s.steps = self.steps
        s.stack = self.stack
        return s

    # -- constraints -------------------------------------------------------
    def rng(self, s):
        return self.cons.get(s, (-INF, INF, frozenset()))

    def decide(self, op, a, b):
        """truth of (a op b) if the path's constraints determine it, else None"""
        if isinstance(a, bool):
            a = int(a)
        if isinstance(b, bool):
            b = int(b)
        if isinstance(a, int) and isinstance(b, int):
            return {'<': a < b, '>': a > b, '<=': a <= b, '>=': a >= b, '==': a == b, '!=': a != b}[op]
        if isinstance(a, int) and not isinstance(b, int):
            a, b, op = b, a, SWAPOP[op]
        if isinstance(a, Sym) and isinstance(b, int):
            lo, hi, ne = self.rng(a)
            if lo == hi:
                return self.decide(op, lo, b)
            if op == '==':
                return False if (b < lo or b > hi or b in ne) else None
            if op == '!=':
                return True if (b < lo or b > hi or b in ne) else None
            if op == '<':
                return True if hi < b else (False if lo >= b else None)
            if op == '<=':
                return True if hi <= b else (False if lo > b else None)
            if op == '>':
                return True if lo > b else (False if hi <= b else None)
            if op == '>=':
                return True if lo >= b else (False if hi < b else None)
        if is_ptr(a) and isinstance(b, int) and b == 0:
            # the address of something is not NULL
            return {'==': False, '!=': True, '<': False, '<=': False, '>': True, '>=': True}[op]
        if a is b or (not isinstance(a, Sym) and not isinstance(b, Sym) and a == b):
            return op in ('==', '<=', '>=')
        k = (op, a, b)
        if k in self.memo:
            return self.memo[k]
        k2 = (NEGOP[op], a, b)
        if k2 in self.memo:
            return not self.memo[k2]
        k3 = (SWAPOP[op], b, a)
        if k3 in self.memo:
            return self.memo[k3]
        k4 = (NEGOP[SWAPOP[op]], b, a)
        if k4 in self.memo:
            return not self.memo[k4]
        return None

    def assume(self, key, truth):
        op, a, b = key
        if not truth:
            op = NEGOP[op]
        if isinstance(a, int) and not isinstance(b, int):
            a, b, op = b, a, SWAPOP[op]
        if isinstance(a, Sym) and isinstance(b, int):
            lo, hi, ne = self.rng(a)
            if op == '==':
                lo = hi = b
            elif op == '!=':
                ne = ne | {b}
            elif op == '<':
                hi = min(hi, b - 1)
            elif op == '<=':
                hi = min(hi, b)
            elif op == '>':
                lo = max(lo, b + 1)
            elif op == '>=':
                lo = max(lo, b)
            while lo in ne and lo < hi:
                lo += 1
            while hi in ne and hi > lo:
                hi -= 1
            self.cons[a] = (lo, hi, ne)
            return
        self.memo[(op, a, b)] = True


def is_ptr(v):
    return isinstance(v, tuple) and len(v) == 3 and v[0] == 'ptr'


class Machine(object):
    """Evaluator of one (inlined) function.

    call_model(machine, st, event, callee, fnvalue, args) -> None (generic treatment) or a list
    of states that continue after the call (the model forked `st` itself and recorded the
    call's value with machine.set_result()).
    on_store(machine, st, event, loc, value) is told every store before it is applied."""

    def __init__(self, prog, fn, call_model=None, on_store=None, max_paths=60000, max_steps=6000, max_frames=8,
                 inline_depth=16):
        self.prog = prog
        self.fn = fn
        self.call_model = call_model
        self.on_store = on_store
        self.max_paths = max_paths
        self.max_steps = max_steps
        self.max_frames = max_frames
        self.inline_depth = inline_depth
        self.globals = set()
        self._keys = {}
        self._consts = {}
        self._bodies = {}
        self._vsets = {}
        self._scan_globals(fn)

    def _scan_globals(self, fn):
        from ..core import walk
        for e in fn.events():
            for x in walk(e):
                if x.get('k') == 'var' and x.get('vk') in ('global', 'staticlocal'):
                    self.globals.add(x['name'])
        for b in fn.blocks.values():
            if b.term and b.term.get('cond') is not None:
                for x in walk(b.term['cond']):
                    if x.get('k') == 'var' and x.get('vk') in ('global', 'staticlocal'):
                        self.globals.add(x['name'])

    # -- layout ------------------------------------------------------------
    def field_offset(self, rec, fld):
        r = self.prog.records.get(rec)
        if not r or 'fields' not in r:
            return None
        for f in r['fields']:
            if f['name'] == fld:
                return f.get('offset')
        return None

    def sizeof_type(self, t):
        if not t:
            return None
        t = t.replace('const ', '').replace('volatile ', '').strip()
        if t.endswith('*'):
            return 8
        if '(*' in t:
            # pointer to function (or to array); an array of those has no scalar size
            i = t.index('(*')
            j = t.find(')', i)
            return 8 if j > 0 and '[' not in t[i:j] else None
        if '[' in t:
            return None
        if t in SCALAR_SIZE:
            return SCALAR_SIZE[t]
        for pre in ('struct ', 'union '):
            if t.startswith(pre):
                r = self.prog.records.get(t[len(pre):].strip())
                if r and 'size' in r:
                    return r['size']
        if t.startswith('enum '):
            return 4
        return None

    def static_type(self, e):
        if not isinstance(e, dict):
            return None
        k = e.get('k')
        if k in ('load', 'stmtexpr', 'compound', 'un', 'incdec'):
            return self.static_type(e.get('e'))
        if k == 'cast':
            return e.get('to')
        if k in ('var', 'member', 'index', 'deref', 'call'):
            return e.get('type')
        if k == 'bin':
            if e['op'] in ('+', '-'):
                tl = self.static_type(e['l'])
                if self.pointee(tl) is not None:
                    return tl
                tr = self.static_type(e['r'])
                if self.pointee(tr) is not None and e['op'] == '+':
                    return tr
                return tl
            return 'int'
        if k == 'assign':
            return self.static_type(e['l'])
        if k == 'cond':
            return self.static_type(e['a'])
        if k == 'addr':
            t = self.static_type(e['e'])
            return (t + ' *') if t else None
        if k == 'int':
            return 'int'
        if k == 'null':
            return 'void *'
        if k == 'container_of':
            return 'struct %s *' % e.get('record')
        return None

    @staticmethod
    def pointee(t):
        """element type string if t is a pointer or array type"""
        if not t:
            return None
        t = t.strip()
        if '(*' in t:
            # `R (*const[3])(A)`: array of function pointers, the element is `R (*const)(A)`; a plain pointer to function
            # points to no object
            i = t.index('(*')
            j = t.find(')', i)
            if j > 0 and '[' in t[i:j]:
                a, b = t.index('[', i), t.index(']', i)
                return (t[:a] + t[b + 1:]).strip()
            return None
        if '[' in t:
            return t[:t.index('[')].strip()
        if t.endswith('*'):
            return t[:-1].strip()
        return None

    def elem_size(self, e):
        """size of what the pointer-valued expression e points to (None: not a pointer / unknown)"""
        p = self.pointee(self.static_type(e))
        if p is None:
            return None
        return self.sizeof_type(p)

    def locaddr(self, L):
        """(root location, byte offset) of a location, or None"""
        k = L[0]
        if k in ('obj', 'var', 'errno', 'tmp'):
            return (L, 0)
        if k == 'fld':
            r = self.locaddr(L[1])
            o = self.field_offset(L[2], L[3])
            if r is None or o is None:
                return None
            return (r[0], r[1] + o)
        if k == 'idx':
            r = self.locaddr(L[1])
            if r is None or not isinstance(L[2], int) or L[3] is None:
                return None
            return (r[0], r[1] + L[2] * L[3])
        if k == 'at':
            r = self.locaddr(L[1])
            if r is None or not isinstance(L[2], int):
                return None
            return (r[0], r[1] + L[2])
        return None

    def byteaddr(self, v):
        """(root location, byte offset) a pointer value designates, or None"""
        if is_ptr(v):
            r = self.locaddr(v[1])
            if r is None or not isinstance(v[2], int):
                return None
            return (r[0], r[1] + v[2])
        if isinstance(v, Sym) or (isinstance(v, tuple) and v and v[0] == 'op'):
            return (('obj', v), 0)
        return None

    @staticmethod
    def root_of(L):
        while L[0] in ('fld', 'idx', 'at'):
            L = L[1]
        return L

    # -- frames (functions entered by value) ---------------------------------
    def curfn(self, st):
        return st.stack[-1][0] if st.stack else self.fn

    def vloc(self, st, name, vk=None):
        """location of a variable: file-scope objects are shared, locals/parameters/return temporaries of a function that
        was entered dynamically (through a function pointer) belong to its frame"""
        d = len(st.stack)
        if d == 0 or vk in ('global', 'staticlocal'):
            return ('var', name)
        return ('var', name, d)

    @staticmethod
    def is_frame_local(L):
        return L[0] == 'var' and len(L) == 3

    def target_of(self, st, e, fv):
        """the function with a body that this call event enters, given the value of the called expression"""
        if isinstance(fv, tuple) and len(fv) == 2 and fv[0] == 'func':
            name = fv[1]
        elif 'fnexpr' not in e and e.get('callee'):
            name = e['callee']
        else:
            return None
        cur = self.curfn(st)
        unit = self.prog.unit_of(getattr(cur, 'inlined_from', None) or cur)
        t = self.prog.resolve(unit, name) if unit else self.prog.funcs.get(name)
        if t is None or not t.blocks:
            return None
        return t

    def body_of(self, t):
        g = self._bodies.get(t.q)
        if g is None:
            from .. import roles
            g = self._bodies[t.q] = roles.inlined(self.prog, t, depth=self.inline_depth)
            self._scan_globals(g)
        return g

    def enter(self, st, e, t, args, b, i):
        """push a frame for t; (b, i) is where the caller continues"""
        if len(st.stack) >= self.max_frames:
            raise AnalysisBroken('%s: more than %d nested calls through function values (recursion?)' % (self.fn.name, self.max_frames))
        g = self.body_of(t)
        st.stack = st.stack + ((g, b, i, e),)
        for pi, p in enumerate(t.params):
            L = self.vloc(st, p['name'], 'param')
            self.forget(st, L)
            self.write(st, L, args[pi] if pi < len(args) else Sym(('param', p['name'])))
        return g

    def leave(self, st, value):
        """pop the innermost frame; returns (block, index) where the caller continues"""
        g, b, i, e = st.stack[-1]
        st.stack = st.stack[:-1]
        if value is None:
            value = Sym(('call', g.name, e.get('loc')))
        self.set_result(st, e, value)
        return b, i

    # -- memory ------------------------------------------------------------
    def key(self, L):
        """memory is keyed by byte address where the layout is known, so that p->a[1], *(p->a + 1) and q[1] with
        q == p->a are the same cell (and union members overlap); by structure otherwise"""
        k = self._keys.get(L)
        if k is None:
            a = self.locaddr(L)
            k = L if a is None else ('mem', a[0], a[1])
            if len(self._keys) > 200000:
                self._keys.clear()
            self._keys[L] = k
        return k

    def peek(self, st, L):
        return st.mem.get(self.key(L))

    def poke(self, st, L, v):
        st.mem[self.key(L)] = v

    def read(self, st, L):
        k = self.key(L)
        if k in st.mem:
            return st.mem[k]
        if self.root_of(L) == ('obj', 0):
            raise Trap()
        v = self.const_init(L)
        if v is None:
            vs = self.value_set(L, k)
            if vs:
                raise NeedValues(None, vs, key=k)
            origin = L
            if L[0] == 'var' and len(L) == 2 and L[1] in self.globals:
                origin = ('global', L[1])
            v = Sym(origin)
        st.mem[k] = v
        return v

    def const_init(self, L):
        """value of a cell of a file-scope object that has an initialiser and is never written (lookup tables)"""
        node = self.const_at(L)
        if node is None:
            node = self.const_node(L)
        if not isinstance(node, dict) or node.get('k') == 'init':
            return node if isinstance(node, int) else None
        try:
            v = self.ev(node, St())
        except (NeedDecision, NeedValues):
            return None
        return v if isinstance(v, int) or (isinstance(v, tuple) and v and v[0] in ('func', 'str')) else None

    def _const_global(self, name):
        """(initialiser, type) of a file-scope object that is never written, else (None, None)"""
        if name not in self._consts:
            root = getattr(self.fn, 'inlined_from', None) or self.fn
            unit = self.prog.unit_of(root)
            g = self.prog.global_for(unit, name) if unit else self.prog.globals.get(name)
            init = g.get('init') if isinstance(g, dict) else None
            if init is None or self.prog.global_writers(name):
                init = None
            self._consts[name] = (init, g.get('type') if isinstance(g, dict) else None)
        return self._consts[name]

    def const_at(self, L):
        """initialiser node of the scalar cell at the byte address of L inside a never-written file-scope object, however
        the address was computed (table[i].f, (table + i)->f, a cached element pointer); None when not resolvable"""
        a = self.locaddr(L)
        if a is None or a[0][0] != 'var' or len(a[0]) != 2 or a[0][1] not in self.globals:
            return None
        node, t = self._const_global(a[0][1])
        if node is None:
            return None
        return self.const_at_node(node, t, a[1])

    def const_at_node(self, node, t, off):
        """the scalar initialiser at byte offset `off` of an object of type t initialised by `node` (0: left out)"""
        if node is None or not t or off < 0:
            return None
        for _ in range(16):
            while isinstance(node, dict) and node.get('k') in ('cast', 'compound') and isinstance(node.get('e'), dict):
                node = node['e']
            if isinstance(node, dict) and node.get('k') == 'init' and node.get('elems') is not None and '[' in t:
                i, j = t.index('['), t.index(']')
                et = (t[:i] + t[j + 1:]).strip()
                esz = self.sizeof_type(et) if '[' not in et else None
                if not esz:
                    return None
                idx, off = off // esz, off % esz
                bound = t[i + 1:j].strip()
                if bound.isdigit() and idx >= int(bound):
                    return None
                node = node['elems'][idx] if idx < len(node['elems']) else 0
                t = et
            elif isinstance(node, dict) and node.get('k') == 'init' and node.get('fields') is not None:
                r = self.prog.records.get(node.get('record'))
                if not r or 'fields' not in r:
                    return None
                hit = None
                for f in r['fields']:
                    if f.get('offset') is not None and f.get('size') and f['offset'] <= off < f['offset'] + f['size']:
                        hit = f
                        break
                if hit is None:
                    return None
                node = node['fields'].get(hit['name'], 0)
                off -= hit['offset']
                t = hit.get('type') or ''
            else:
                break
            if isinstance(node, int):
                return 0 if node == 0 else None
        if off != 0 or (isinstance(node, dict) and node.get('k') == 'init'):
            return None
        return node

    def const_node(self, L):
        """initialiser node of the cell / sub-object L of a never-written file-scope object (0 for a part the initialiser
        leaves out), else None"""
        steps = []
        X = L
        while X[0] in ('fld', 'idx'):
            steps.append(X)
            X = X[1]
        if X[0] != 'var' or len(X) != 2 or X[1] not in self.globals:
            return None
        name = X[1]
        node = self._const_global(name)[0]
        if node is None:
            return None
        for stp in reversed(steps):
            while isinstance(node, dict) and node.get('k') in ('cast', 'compound') and isinstance(node.get('e'), dict):
                node = node['e']
            if not isinstance(node, dict) or node.get('k') != 'init':
                return None
            if stp[0] == 'idx':
                el = node.get('elems')
                if el is None or not isinstance(stp[2], int) or stp[2] < 0:
                    return None
                if stp[2] >= len(el):
                    return 0
                node = el[stp[2]]
            else:
                fl = node.get('fields')
                if fl is None:
                    return None
                if stp[3] not in fl:
                    return 0
                node = fl[stp[3]]
        return node

    def value_set(self, L, k):
        """the values a pointer-typed cell of a static file-scope object can hold: its initialiser (NULL without one) and
        what the program's stores to that cell assign, provided all of them are link-time constants (the address of a
        table entry / operations record / function selected once at start-up).  None when the cell is not of that kind."""
        if k in self._vsets:
            return self._vsets[k]
        self._vsets[k] = None
        root = self.root_of(L)
        if k[0] != 'mem' or root[0] != 'var' or len(root) != 2 or root[1] not in self.globals:
            return None
        cur = getattr(self.fn, 'inlined_from', None) or self.fn
        unit = self.prog.unit_of(cur)
        g = self.prog.global_for(unit, root[1]) if unit else self.prog.globals.get(root[1])
        if not isinstance(g, dict) or not g.get('static'):
            return None

        def const(v):
            if isinstance(v, bool):
                return False
            if isinstance(v, int):
                return v == 0
            if isinstance(v, tuple) and len(v) == 2 and v[0] == 'func':
                return True
            if is_ptr(v) and isinstance(v[2], int):
                r = self.root_of(v[1])
                if r[0] != 'var' or len(r) != 2 or self.locaddr(v[1]) is None:
                    return False
                if r[1] not in self.globals:
                    # a file-scope object that only the initialiser / the selecting function names
                    if (self.prog.global_for(unit, r[1]) if unit else self.prog.globals.get(r[1])) is None:
                        return False
                    self.globals.add(r[1])
                return True
            return False

        vals = []
        seen_ptr = False
        init = g.get('init')
        if init is None:
            v0 = 0
        else:
            node = self.const_at_node(init, g.get('type') or '', k[2])
            if node is None:
                return None
            try:
                v0 = node if isinstance(node, int) else self.ev(node, St())
            except (NeedDecision, NeedValues, Trap):
                return None
        if not const(v0):
            return None
        vals.append(v0)
        writers = self.prog.global_writers(root[1])
        if not writers:
            return None
        for (f, e) in writers:
            try:
                L2 = self.lv(e['lhs'], St())
                if self.key(L2) != k:
                    if self.locaddr(L2) is None:
                        return None
                    continue
                if e.get('op') != '=':
                    return None
                v = self.ev(e['rhs'], St())
            except (NeedDecision, NeedValues, Trap):
                return None
            if not const(v):
                return None
            if v != 0:
                seen_ptr = True
            if v not in vals:
                vals.append(v)
        if not seen_ptr or len(vals) > 8:
            return None
        self._vsets[k] = vals
        return vals

    def write(self, st, L, v):
        st.mem[self.key(L)] = v

    def forget(self, st, root):
        """drop everything known about the object / variable `root`"""
        for k in [k for k in st.mem if (k[0] == 'mem' and k[1] == root) or (k[0] != 'mem' and self.root_of(k) == root)]:
            del st.mem[k]

    def havoc(self, st, v):
        """an unknown callee may write the object its pointer argument points into"""
        if is_ptr(v):
            self.forget(st, self.root_of(v[1]))
        elif isinstance(v, Sym) or (isinstance(v, tuple) and v and v[0] == 'op'):
            self.forget(st, ('obj', v))

    def deref(self, p):
        if is_ptr(p):
            if p[2] == 0:
                return p[1]
            return ('at', p[1], p[2])
        return ('obj', p)

    @staticmethod
    def mkptr(L):
        if L[0] == 'at':
            return ('ptr', L[1], L[2])
        return ('ptr', L, 0)

    def set_result(self, st, e, v):
        st.calls[(e.get('callee'), e.get('loc'))] = v

    # -- expressions ---------------------------------------------------------
    def lv(self, e, st):
        """location designated by an lvalue expression"""
        k = e.get('k')
        if k == 'var':
            return self.vloc(st, e['name'], e.get('vk'))
        if k == 'member':
            if e['arrow']:
                obj = self.deref(self.ev(e['base'], st))
            else:
                obj = self.lv(e['base'], st)
            return ('fld', obj, e.get('record'), e['field'])
        if k == 'index':
            b = e['base']
            i = self.ev(e['idx'], st)
            bb = b
            while isinstance(bb, dict) and bb.get('k') == 'cast':
                bb = bb['e']
            if isinstance(bb, dict) and bb.get('k') in ('var', 'member', 'index', 'deref') and self.pointee(self.static_type(bb)) is not None \
                    and '[' in (self.static_type(bb) or ''):
                esz = self.sizeof_type(e.get('type'))
                bl = self.lv(bb, st)
                if isinstance(i, Sym):
                    # an opaque index into a constant table: the index is one of the table's positions
                    node = self.const_node(bl)
                    while isinstance(node, dict) and node.get('k') in ('cast', 'compound') and isinstance(node.get('e'), dict):
                        node = node['e']
                    if isinstance(node, dict) and node.get('k') == 'init' and node.get('elems'):
                        lo, hi, ne = st.rng(i)
                        cands = [c for c in range(len(node['elems'])) if lo <= c <= hi and c not in ne]
                        if cands and len(cands) <= 16:
                            raise NeedValues(i, cands)
                return ('idx', bl, i, esz)
            p = self.ev(b, st)
            return self.deref(self.padd(p, i, self.sizeof_type(e.get('type'))))
        if k == 'deref':
            return self.deref(self.ev(e['e'], st))
        if k in ('cast', 'load', 'stmtexpr', 'compound') and isinstance(e.get('e'), dict):
            if k == 'load':
                # an lvalue reached through a loaded pointer is spelled deref/member; a bare load is a value
                return ('tmp', id(e))
            return self.lv(e['e'], st)
        if k == 'assign':
            return self.lv(e['l'], st)
        return ('tmp', id(e))

    def padd(self, p, n, esz):
        if isinstance(p, int) and isinstance(n, int):
            return p + n * (esz or 1)
        if isinstance(n, int) and n == 0:
            return p
        if not isinstance(n, int) or esz is None:
            return ('op', '+p', p, n)
        if is_ptr(p):
            if isinstance(p[2], int):
                return ('ptr', p[1], p[2] + n * esz)
            return ('op', '+p', p, n)
        if isinstance(p, Sym) or (isinstance(p, tuple) and p and p[0] == 'op'):
            return ('ptr', ('obj', p), n * esz)
        return ('op', '+p', p, n)

    def truth(self, v, st):
        if isinstance(v, bool):
            return v
        if isinstance(v, int):
            return v != 0
        d = st.decide('!=', v, 0)
        if d is None:
            raise NeedDecision('!=', v, 0)
        return d

    def compare(self, op, a, b, st):
        if is_ptr(a) and is_ptr(b):
            x, y = self.byteaddr(a), self.byteaddr(b)
            if x is not None and y is not None and x[0] == y[0]:
                return int(st.decide(op, x[1], y[1]))
        d = st.decide(op, a, b)
        if d is None:
            raise NeedDecision(op, a, b)
        return int(d)

    def arith(self, op, a, b):
        if isinstance(a, int) and isinstance(b, int):
            try:
                if op == '+':
                    return a + b
                if op == '-':
                    return a - b
                if op == '*':
                    return a * b
                if op == '/':
                    return int(a / b) if b else ('op', op, a, b)
                if op == '%':
                    return a - b * int(a / b) if b else ('op', op, a, b)
                if op == '&':
                    return a & b
                if op == '|':
                    return a | b
                if op == '^':
                    return a ^ b
                if op == '<<':
                    return a << b if 0 <= b < 64 else ('op', op, a, b)
                if op == '>>':
                    return a >> b if 0 <= b < 64 else ('op', op, a, b)
            except (ValueError, OverflowError):
                pass
            return ('op', op, a, b)
        if op == '&' and ((isinstance(a, int) and a == 0) or (isinstance(b, int) and b == 0)):
            return 0
        if op in ('+', '|', '^') and isinstance(b, int) and b == 0:
            return a
        if op in ('+', '|', '^') and isinstance(a, int) and a == 0:
            return b
        if op in ('-', '<<', '>>') and isinstance(b, int) and b == 0:
            return a
        if op == '*' and ((isinstance(a, int) and a == 0) or (isinstance(b, int) and b == 0)):
            return 0
        return ('op', op, a, b)

    def ev(self, e, st):
        """value of an rvalue expression"""
        if not isinstance(e, dict):
            return Sym(('expr', '?'))
        k = e.get('k')
        if k == 'int':
            return e['v']
        if k == 'null':
            return 0
        if k == 'load':
            inner = e['e']
            ik = inner.get('k') if isinstance(inner, dict) else None
            if ik == 'var' and inner.get('vk') == 'enum':
                return inner.get('v', 0)
            if ik == 'var' and inner.get('vk') == 'func':
                return ('func', inner['name'])
            if ik in ('var', 'member', 'index', 'deref'):
                t = inner.get('type') or ''
                if '[' in t and self.pointee(t) is not None:
                    # an array-valued argument substituted for a parameter: the value of an array is its address
                    return self.mkptr(self.lv(inner, st))
                return self.read(st, self.lv(inner, st))
            # the inliner substituted an argument value for a parameter: load(rvalue) is the rvalue
            return self.ev(inner, st)
        if k == 'cast':
            v = self.ev(e['e'], st)
            to = (e.get('to') or '').strip()
            if isinstance(v, int) and to in ('_Bool', 'bool'):
                return int(v != 0)
            if isinstance(v, int) and to in ('unsigned char', 'uint8_t'):
                return v & 0xff
            return v
        if k in ('stmtexpr', 'compound'):
            if isinstance(e.get('e'), dict):
                return self.ev(e['e'], st)
            return Sym(('expr', k))
        if k == 'var':
            vk = e.get('vk')
            if vk == 'func':
                return ('func', e['name'])
            if vk == 'enum':
                return e.get('v', 0)
            if e['name'].startswith('$ret'):
                return self.read(st, self.vloc(st, e['name'], vk))     # the inliner's return temporary stands for the call's value
            return ('ptr', self.vloc(st, e['name'], vk), 0)       # array decays to a pointer to itself
        if k in ('member', 'index', 'deref'):
            return self.mkptr(self.lv(e, st))             # array member decays / function designator
        if k == 'addr':
            inner = e['e']
            if isinstance(inner, dict) and inner.get('k') == 'var' and inner.get('vk') == 'func':
                return ('func', inner['name'])
            return self.mkptr(self.lv(inner, st))
        if k == 'container_of':
            v = self.ev(e['e'], st)
            mo = self.field_offset(e.get('record'), e.get('member'))
            a = self.byteaddr(v) if is_ptr(v) else None
            if a is not None and mo is not None:
                off = a[1] - mo
                if off == 0 and a[0][0] == 'obj':
                    return a[0][1]
                return ('ptr', a[0], off)
            if isinstance(v, int):
                return ('op', 'container_of', v, (e.get('record'), e.get('member')))
            return ('op', 'container_of', v, (e.get('record'), e.get('member')))
        if k == 'call':
            key = (e.get('callee'), e.get('loc'))
            if key in st.calls:
                return st.calls[key]
            # a call expression without a call event (synthesised by a normalisation, e.g. iv_list_empty
            # for an open-coded emptiness test): a pure function of its arguments
            args = tuple(self.ev(a, st) for a in e.get('args', []))
            return ('op', 'call', e.get('callee') or canon(e.get('fnexpr')), args)
        if k == 'assign':
            return self.read(st, self.lv(e['l'], st))
        if k == 'incdec':
            cur = self.read(st, self.lv(e['e'], st))
            if e.get('prefix'):
                return cur
            return self.arith('-' if e['op'] == '++' else '+', cur, 1)
        if k == 'un':
            op = e['op']
            if op == '!':
                return int(not self.truth(self.ev(e['e'], st), st))
            v = self.ev(e['e'], st)
            if op == '+':
                return v
            if isinstance(v, int):
                if op == '-':
                    return -v
                if op == '~':
                    return ~v
            return ('op', 'un' + op, v, 0)
        if k == 'bin':
            op = e['op']
            if op == '&&':
                if not self.truth(self.ev(e['l'], st), st):
                    return 0
                return int(self.truth(self.ev(e['r'], st), st))
            if op == '||':
                if self.truth(self.ev(e['l'], st), st):
                    return 1
                return int(self.truth(self.ev(e['r'], st), st))
            if op == ',':
                return self.ev(e['r'], st)
            a = self.ev(e['l'], st)
            b = self.ev(e['r'], st)
            if op in CMP:
                return self.compare(op, a, b, st)
            if op in ('+', '-'):
                el, er = self.elem_size(e['l']), self.elem_size(e['r'])
                pl = el is not None or is_ptr(a)
                pr = er is not None or is_ptr(b)
                if pl and pr and op == '-':
                    x, y = self.byteaddr(a), self.byteaddr(b)
                    if x is not None and y is not None and x[0] == y[0] and el:
                        return (x[1] - y[1]) // el
                    return ('op', '-pp', a, b)
                if pl and not pr:
                    if op == '-':
                        b = -b if isinstance(b, int) else ('op', 'un-', b, 0)
                    return self.padd(a, b, el)
                if pr and not pl and op == '+':
                    return self.padd(b, a, er)
            return self.arith(op, a, b)
        if k == 'cond':
            c = self.ev(e['c'], st)
            if e.get('gnu'):
                return c if self.truth(c, st) else self.ev(e['b'], st)
            return self.ev(e['a'], st) if self.truth(c, st) else self.ev(e['b'], st)
        if k == 'str':
            return ('str', e.get('v'))
        return Sym(('expr', k))

    # -- events ----------------------------------------------------------------
    def step(self, e, st):
        """execute one event; returns None, 'ret' or a list of successor states (fork)"""
        ev = e['ev']
        if ev in ('load', 'enter'):
            return None
        if ev == 'leave':
            # the value of an inlined call: uses in the same source block were rewritten to the $ret temporary by the
            # inliner; a use in a later block (the join of a ternary, say) still spells the call
            if e.get('retvar'):
                v = self.peek(st, self.vloc(st, e['retvar'], 'local'))
                if v is not None:
                    for t in e.get('targets', []):
                        st.calls[(t.split(':')[-1], e.get('loc'))] = v
            return None
        if ev == 'decl':
            L = self.vloc(st, e['name'], 'staticlocal' if e.get('static') else 'local')
            self.forget(st, L)
            if 'init' in e and isinstance(e['init'], dict):
                self.init_object(st, L, e['init'], e.get('type') or '')
            return None
        if ev == 'store':
            L = self.lv(e['lhs'], st)
            if self.root_of(L) == ('obj', 0):
                raise Trap()
            op = e['op']
            if op == '=':
                v = self.ev(e['rhs'], st)
            elif op in ('++', '--'):
                cur = self.read(st, L)
                esz = self.elem_size(e['lhs'])
                if esz is not None or is_ptr(cur):
                    v = self.padd(cur, 1 if op == '++' else -1, esz)
                else:
                    v = self.arith('+' if op == '++' else '-', cur, 1)
            else:
                cur = self.read(st, L)
                r = self.ev(e['rhs'], st)
                esz = self.elem_size(e['lhs'])
                if op in ('+=', '-=') and (esz is not None or is_ptr(cur)):
                    if op == '-=':
                        r = -r if isinstance(r, int) else ('op', 'un-', r, 0)
                    v = self.padd(cur, r, esz)
                else:
                    v = self.arith(op[:-1], cur, r)
            if self.on_store:
                self.on_store(self, st, e, L, v)
            self.write(st, L, v)
            return None
        if ev == 'call':
            args = [self.ev(a, st) for a in e.get('args', [])]
            fv = self.ev(e['fnexpr'], st) if 'fnexpr' in e else None
            if e.get('callee') in IDENTITY_CALLS and args:
                self.set_result(st, e, args[0])
                return None
            # a call through a function value that designates a function with a body is that function's call: the
            # environment model sees it under the function's name, and unless the model supplies the behaviour
            # (library primitives) the body is executed in a frame of its own
            target = self.target_of(st, e, fv)
            callee = e.get('callee')
            if callee is None and isinstance(fv, tuple) and len(fv) == 2 and fv[0] == 'func':
                callee = fv[1]
            r = None
            if self.call_model:
                r = self.call_model(self, st, e, callee, fv, args, target)
                if r is not None and r != 'enter':
                    return r
            if target is not None and (r == 'enter' or 'fnexpr' in e):
                return ('enter', target, args)
            self.generic_call(st, e, args)
            return None
        if ev == 'ret':
            if e.get('chain'):
                return None          # return of an inlined helper: its value was stored to the $ret temporary
            v = self.ev(e['value'], st) if 'value' in e else None
            if st.stack:
                return ('leave', v)
            st.marks['ret'] = v
            st.marks['retloc'] = e.get('loc')
            return 'ret'
        return None

    def init_object(self, st, L, node, t):
        """a local aggregate with an initialiser list (a small table, a job record): every named cell gets its value, the
        cells the list leaves out are zero"""
        while isinstance(node, dict) and node.get('k') in ('cast', 'compound') and isinstance(node.get('e'), dict) \
                and node['e'].get('k') == 'init':
            node = node['e']
        if not isinstance(node, dict) or node.get('k') != 'init':
            self.write(st, L, self.ev(node, st) if isinstance(node, dict) else Sym(('init', show_loc(L))))
            return
        if node.get('elems') is not None:
            et = ''
            if '[' in t:
                i, j = t.index('['), t.index(']')
                et = (t[:i] + t[j + 1:]).strip()
            esz = self.sizeof_type(et) if et and '[' not in et else None
            n = len(node['elems'])
            bound = node.get('bound')
            if '[' in t and t[t.index('[') + 1:t.index(']')].strip().isdigit():
                bound = int(t[t.index('[') + 1:t.index(']')])
            for i in range(min(max(n, bound or 0), 256)):
                cell = ('idx', L, i, esz)
                if i < n:
                    self.init_object(st, cell, node['elems'][i], et)
                else:
                    self.write(st, cell, 0)
            return
        if node.get('fields') is not None:
            rec = node.get('record')
            r = self.prog.records.get(rec)
            ftypes = {f['name']: f.get('type') or '' for f in (r.get('fields') or [])} if r else {}
            for name in list(ftypes) + [x for x in node['fields'] if x not in ftypes]:
                cell = ('fld', L, rec, name)
                if name in node['fields']:
                    self.init_object(st, cell, node['fields'][name], ftypes.get(name, ''))
                elif '[' not in ftypes.get(name, '') and not ftypes.get(name, '').startswith(('struct ', 'union ')):
                    self.write(st, cell, 0)
            return
        self.write(st, L, Sym(('init', show_loc(L))))

    def generic_call(self, st, e, args, value=None):
        for a in args:
            self.havoc(st, a)
        if value is None:
            value = Sym(('call', e.get('callee') or 'indirect', e.get('loc')))
        self.set_result(st, e, value)
        return value

    # -- paths -------------------------------------------------------------------
    def explore(self, st0):
        """all paths from the entry under the initial state; returns [(end kind, final state)] with end in
        'ret' (root return; value in st.marks['ret']), 'fatal' (noreturn call), 'exit' (fell off the end)"""
        fn = self.fn
        work = [(fn.entry, 0, st0)]
        done = []
        while work:
            b, i, st = work.pop()
            if len(done) + len(work) > self.max_paths:
                raise AnalysisBroken('%s: more than %d paths under one abstract input' % (fn.name, self.max_paths))
            while True:
                cur = self.curfn(st)
                blk = cur.blocks[b]
                evs = blk.events
                forked = False
                jumped = False
                while i < len(evs):
                    st.steps += 1
                    if st.steps > self.max_steps:
                        raise AnalysisBroken('%s: a path does not terminate under the abstract input (loop on an opaque value?)' % fn.name)
                    try:
                        r = self.step(evs[i], st)
                    except NeedDecision as nd:
                        s1 = st.fork()
                        s1.assume(nd.key, True)
                        st.assume(nd.key, False)
                        s1.marks['fresh'] = st.marks['fresh'] = True
                        work.append((b, i, s1))
                        work.append((b, i, st))
                        forked = True
                        break
                    except NeedValues as nv:
                        for c in nv.values:
                            s1 = st.fork()
                            if nv.key is not None:
                                s1.mem[nv.key] = c
                            else:
                                s1.assume(('==', nv.sym, c), True)
                            s1.marks['fresh'] = True
                            work.append((b, i, s1))
                        forked = True
                        break
                    except Trap:
                        if st.marks.get('fresh'):
                            st.marks['last_branch_opaque'] = True
                        done.append(('fatal', st))
                        forked = True
                        break
                    if r == 'ret':
                        done.append(('ret', st))
                        forked = True
                        break
                    if isinstance(r, list):
                        for s2 in r:
                            work.append((b, i + 1, s2))
                        forked = True
                        break
                    if isinstance(r, tuple) and r[0] == 'enter':
                        g = self.enter(st, evs[i], r[1], r[2], b, i + 1)
                        b, i = g.entry, 0
                        jumped = True
                        break
                    if isinstance(r, tuple) and r[0] == 'leave':
                        b, i = self.leave(st, r[1])
                        jumped = True
                        break
                    i += 1
                if forked:
                    break
                if jumped:
                    continue
                if blk.noreturn:
                    done.append(('fatal', st))
                    break
                succ = blk.succ
                if not succ or all(s is None for s in succ):
                    if st.stack:
                        b, i = self.leave(st, None)      # a void function entered by value ran to its end
                        continue
                    done.append(('exit', st))
                    break
                if len(succ) == 1:
                    b, i = succ[0], 0
                    continue
                term = blk.term or {}
                try:
                    nxt = self.branch(blk, term, st)
                except NeedDecision as nd:
                    s1 = st.fork()
                    s1.assume(nd.key, True)
                    st.assume(nd.key, False)
                    s1.marks['fresh'] = st.marks['fresh'] = True
                    work.append((b, i, s1))
                    work.append((b, i, st))
                    break
                except NeedValues as nv:
                    for c in nv.values:
                        s1 = st.fork()
                        if nv.key is not None:
                            s1.mem[nv.key] = c
                        else:
                            s1.assume(('==', nv.sym, c), True)
                        s1.marks['fresh'] = True
                        work.append((b, i, s1))
                    break
                except Trap:
                    if st.marks.get('fresh'):
                        st.marks['last_branch_opaque'] = True
                    done.append(('fatal', st))
                    break
                if nxt == 'all':
                    for s_ in succ[1:]:
                        if s_ is not None:
                            work.append((s_, 0, st.fork()))
                    nxt = succ[0]
                if nxt is None:
                    done.append(('exit', st))
                    break
                st.steps += 1
                if st.steps > self.max_steps:
                    raise AnalysisBroken('%s: a path does not terminate under the abstract input' % fn.name)
                b, i = nxt, 0
        return done

    def branch(self, blk, term, st):
        succ = blk.succ
        c = term.get('cond')
        if term.get('cls') == 'SwitchStmt':
            cases = term.get('cases', [])
            v = self.ev(c, st)
            dflt = None
            for s_, cv in zip(succ, cases):
                if cv == 'default':
                    dflt = s_
            pick = dflt
            for s_, cv in zip(succ, cases):
                if isinstance(cv, int):
                    if self.compare('==', v, cv, st):
                        pick = s_
                        break
            st.marks['last_branch_opaque'] = st.marks.pop('fresh', False)
            return pick
        if c is None or len(succ) != 2:
            return 'all'
        t = self.truth(self.ev(c, st), st)
        # was this branch decided by an assumption about an opaque value made since the previous branch?
        st.marks['last_branch_opaque'] = st.marks.pop('fresh', False)
        return succ[0] if t else succ[1]
