"""Helpers of C15: system-call sites as anchors, calling contexts, fault-scenario simulation.

The rules of C15 speak about what the library does when a system call fails in a
particular way ("eventfd2 is missing", "this read was interrupted").  Instead of matching
the shape of the code that handles the failure (which helper, which flag variable, if/else
vs switch vs early return), the failure is *injected* into the control-flow graph of the
entry point (exported function / poll-method slot / installed handler) with every internal
helper inlined, and the graph is walked path-sensitively over a small abstract domain
(integer intervals for scalar locals, file-scope flags, errno and call results).  A rule then
states what must be true of every path that saw the failure: it reaches the alternative call,
it does not end in iv_fatal(), it returns non-zero, a second invocation does not try the
missing call again, ...  No repository code is executed.
"""
import os
import re

from ..core import (AnalysisBroken, Inliner, Block, canon, strip, walk, norm_cond, last_member, lvalue_steps, lvalue_root,
                    method_slot)
from ..analyses import liveness
from .. import roles

ENOSYS, EINTR, EINVAL, EPERM, EAGAIN, EMFILE = 38, 4, 22, 1, 11, 24

# --------------------------------------------------------------------------
# primitive (system call / libc call) sites
# --------------------------------------------------------------------------

_SYSCALL_NR = None
_NR_FALLBACK = {7: 'poll', 22: 'pipe', 213: 'epoll_create', 232: 'epoll_wait', 271: 'ppoll', 275: 'splice',
                283: 'timerfd_create', 284: 'eventfd', 290: 'eventfd2', 291: 'epoll_create1', 293: 'pipe2',
                441: 'epoll_pwait2'}


def syscall_numbers():
    """{number: name} of the build host's system-call table (the facts are extracted with the host's headers,
    so `syscall(__NR_x, ...)` appears with the host's number)."""
    global _SYSCALL_NR
    if _SYSCALL_NR is None:
        tab = {}
        for p in ('/usr/include/x86_64-linux-gnu/asm/unistd_64.h', '/usr/include/asm/unistd_64.h',
                  '/usr/include/asm-generic/unistd.h'):
            if os.path.exists(p):
                for m in re.finditer(r'^#define\s+__NR_(\w+)\s+(\d+)\s*$', open(p).read(), flags=re.M):
                    tab.setdefault(int(m.group(2)), m.group(1))
                break
        _SYSCALL_NR = tab or dict(_NR_FALLBACK)
    return _SYSCALL_NR


def prim_kind(e):
    """Semantic name of the kernel/libc primitive a direct call event invokes, whatever wrapper spelling is
    used: `syscall(__NR_eventfd2, ...)` and `eventfd(0, flags != 0)` are both 'eventfd2'."""
    if e.get('ev') != 'call' and e.get('k') != 'call':
        return None
    nm = e.get('callee')
    if nm is None:
        return None
    args = e.get('args', [])
    if nm == 'syscall':
        a0 = strip(args[0]) if args else None
        if isinstance(a0, dict) and a0.get('k') == 'int':
            return syscall_numbers().get(a0['v'], 'syscall#%d' % a0['v'])
        return 'syscall'
    if nm == 'eventfd':
        a1 = strip(args[1]) if len(args) > 1 else None
        if isinstance(a1, dict) and a1.get('k') == 'int' and a1['v'] == 0:
            return 'eventfd'
        return 'eventfd2'
    return nm


def is_prim(e, kinds):
    return e.get('ev') == 'call' and 'callee' in e and prim_kind(e) in kinds


def zero_timeout_poll(e):
    """poll(..., 0): a non-blocking query, not a wait."""
    return e.get('callee') == 'poll' and len(e.get('args', [])) > 2 and canon(e['args'][2]) == '0'


# --------------------------------------------------------------------------
# the selected-method pointer (by type, not by name)
# --------------------------------------------------------------------------

def method_pointer_names(prog):
    """names of the file-scope variable(s) of type `const struct iv_fd_poll_method *`"""
    out = set()
    for key, g in prog.globals.items():
        if g.get('record') == 'iv_fd_poll_method' and g.get('ptr'):
            out.add(g['name'])
    if not out:
        raise AnalysisBroken('no global pointer to struct iv_fd_poll_method (selected method) found')
    return out


def is_method_store(prog, e):
    if e['ev'] != 'store':
        return False
    l = strip(e['lhs'])
    return isinstance(l, dict) and l.get('k') == 'var' and l.get('vk') == 'global' and l['name'] in method_pointer_names(prog)


def stored_table(e):
    """table name for `method = &table`, else None"""
    r = strip(e.get('rhs')) if 'rhs' in e else None
    if isinstance(r, dict) and r.get('k') == 'addr':
        v = strip(r['e'])
        if isinstance(v, dict) and v.get('k') == 'var':
            return v['name']
    return None


# --------------------------------------------------------------------------
# calling contexts: nearest entry points of a function
# --------------------------------------------------------------------------

def _root_set(prog):
    """entry points: roles.roots, without the functions that can only be entered through a private constant
    dispatch table (their contexts are the functions that call through the table, see dispatch_tables)"""
    if getattr(prog, '_h15_roots', None) is None:
        only = dispatch_only(prog)
        prog._h15_roots = {r.q: r for r in roles.roots(prog) if r.q not in only}
    return prog._h15_roots


# --------------------------------------------------------------------------
# private constant dispatch tables (`static const struct mode { int (*input)(..); } modes[2] = {{a}, {b}}`,
# `static int (*const openers[])(void) = {x, y}`): an indirect call through such a table can only enter the
# functions of its initialiser, the one selected by the index value
# --------------------------------------------------------------------------

def _func_of_init(prog, unit, v):
    v = strip(v)
    if isinstance(v, dict) and v.get('k') == 'addr':
        v = strip(v['e'])
    if isinstance(v, dict) and v.get('k') == 'var' and v.get('vk') == 'func':
        return (prog.resolve(unit, v['name']) if unit else None) or prog.funcs.get(v['name'])
    return None


def dispatch_tables(prog):
    """{global key: {'name', 'unit', 'record', 'elems': [{field | None: Func}]}} for every file-scope constant
    with internal linkage (never written, not a poll-method table) whose initialiser holds function addresses"""
    if getattr(prog, '_h15_dtab', None) is not None:
        return prog._h15_dtab
    out, alltabs = {}, {}
    for key, g in sorted(prog.globals.items()):
        init = g.get('init')
        if not isinstance(init, dict) or init.get('k') != 'init' or g.get('extern_decl') or not g.get('static'):
            continue
        if g.get('record') == 'iv_fd_poll_method':
            continue
        if 'const' not in str(g.get('type', '')):
            continue
        if prog.global_writers(g['name']):
            continue
        unit = g.get('unit')
        rows = init.get('elems') if 'elems' in init else [init]
        elems, data, any_fn, rec = [], [], False, None
        for r in rows:
            row, drow = {}, {}
            r0 = strip(r)
            if isinstance(r0, dict) and r0.get('k') == 'init' and 'fields' in r0:
                rec = r0.get('record') or rec
                cells = list(r0['fields'].items())
            else:
                cells = [(None, r)]
            for fld, v in cells:
                f = _func_of_init(prog, unit, v)
                if f is not None:
                    row[fld] = f
                    continue
                c = evaluate(v, {})
                if c != TOP and is_const(c):
                    drow[fld] = c
            any_fn = any_fn or bool(row)
            elems.append(row)
            data.append(drow)
        t = {'key': key, 'name': g['name'], 'unit': unit, 'record': rec or g.get('record'), 'elems': elems, 'data': data}
        alltabs[key] = t
        if any_fn:
            out[key] = t
    prog._h15_dtab = out
    prog._h15_ctab = alltabs
    return out


def const_tables(prog):
    """like dispatch_tables, for every private constant with an initialiser (also pure data tables); 'data' holds
    the integer constants of each row"""
    dispatch_tables(prog)
    return prog._h15_ctab


def dispatch_only(prog):
    """{q: [table info]} of the static functions whose address occurs in private constant dispatch tables and
    nowhere else: they run only when a call through one of these tables selects them"""
    if getattr(prog, '_h15_donly', None) is not None:
        return prog._h15_donly
    tabs = dispatch_tables(prog)
    cand = {}
    for t in tabs.values():
        for row in t['elems']:
            for f in row.values():
                if f.static:
                    cand.setdefault(f.q, [])
                    if t not in cand[f.q]:
                        cand[f.q].append(t)
    if cand:
        # any other use of the address (stored, passed, in another initialiser) lets it escape
        for f in prog.all_funcs():
            u = prog.unit_of(f)
            for e in f.events():
                for x in walk(e):
                    if x.get('k') == 'var' and x.get('vk') == 'func':
                        t = prog.resolve(u, x['name']) if u else prog.funcs.get(x['name'])
                        if t is not None:
                            cand.pop(t.q, None)
        for key, g in prog.globals.items():
            if key in tabs or not isinstance(g.get('init'), dict):
                continue
            for x in walk(g['init']):
                if x.get('k') == 'var' and x.get('vk') == 'func':
                    t = _func_of_init(prog, g.get('unit'), x)
                    if t is not None:
                        cand.pop(t.q, None)
    prog._h15_donly = cand
    return cand


def dispatch_site_tables(prog, caller, e):
    """dispatch tables an indirect call event of `caller` may go through: the function expression is a member of
    the tables' record type, or mentions the table (or a local computed from it) by name"""
    if 'fnexpr' not in e:
        return []
    tabs = [t for t in dispatch_tables(prog).values()]
    if not tabs:
        return []
    unit = prog.unit_of(caller)
    fe = strip(e['fnexpr'])
    out = []
    names = {x['name'] for x in walk(e['fnexpr']) if x.get('k') == 'var' and x.get('vk') != 'func'}
    # locals of the caller that are computed from a table
    more = set()
    for ev in caller.events():
        if ev['ev'] == 'store' and 'rhs' in ev:
            l = strip(ev['lhs'])
            if isinstance(l, dict) and l.get('k') == 'var' and l['name'] in names:
                more |= {x['name'] for x in walk(ev['rhs']) if x.get('k') == 'var' and x.get('vk') in ('global', 'staticlocal')}
        elif ev['ev'] == 'decl' and ev.get('name') in names and 'init' in ev:
            more |= {x['name'] for x in walk(ev['init']) if x.get('k') == 'var' and x.get('vk') in ('global', 'staticlocal')}
    for t in tabs:
        if t['unit'] is not None and unit is not None and t['unit'] != unit:
            continue
        if isinstance(fe, dict) and fe.get('k') == 'member' and t['record'] and fe.get('record') == t['record'] \
                and any(fe['field'] in row for row in t['elems']):
            out.append(t)
        elif t['name'] in names or t['name'] in more:
            out.append(t)
    return out


def dispatch_field(e):
    fe = strip(e['fnexpr'])
    return fe['field'] if isinstance(fe, dict) and fe.get('k') == 'member' else None


class DInliner(Inliner):
    """Inliner that also enters the functions of private constant dispatch tables.  Each alternative starts with
    an `assume` event (which element was selected); the simulator drops the paths on which the index value known
    at that point selects another element."""

    def _targets(self, caller, e, known_table=None):
        ts = Inliner._targets(self, caller, e, known_table)
        if ts is None and 'callee' not in e and method_slot(e) is None:
            tabs = dispatch_site_tables(self.prog, caller, e)
            if tabs:
                fld = dispatch_field(e)
                fs = []
                for t in tabs:
                    for row in t['elems']:
                        f = row.get(fld)
                        if f is not None and f not in fs:
                            fs.append(f)
                if fs and all(f.blocks and not self.stop(f) for f in fs):
                    return fs
        return ts

    def inline(self, f):
        g = Inliner.inline(self, f)
        tabs = dispatch_tables(self.prog)
        if not tabs:
            return g
        nxt = max(g.blocks) + 1
        changed = False
        for b in sorted(g.blocks):
            blk = g.blocks[b]
            if not blk.events or blk.events[-1].get('ev') != 'enter' or 'fnexpr' not in blk.events[-1]:
                continue
            en = blk.events[-1]
            if method_slot(en) is not None or len(blk.succ) != len(en.get('targets', ())):
                continue
            caller = self.prog.funcs.get(en.get('fn')) or f
            ts = dispatch_site_tables(self.prog, caller, en)
            if not ts:
                continue
            for k, s in enumerate(list(blk.succ)):
                ev = {'ev': 'assume', 'fnexpr': en['fnexpr'], 'target': en['targets'][k], 'tables': [t['key'] for t in ts],
                      'loc': en.get('loc'), 'chain': en.get('chain'), 'fn': en.get('fn'), '_b': nxt, '_i': 0}
                g.blocks[nxt] = Block(nxt, [ev], [s], None)
                blk.succ[k] = nxt
                nxt += 1
                changed = True
        if changed:
            g._preds = None
        return g


def direct_callers(prog, f):
    out = {}
    for t in dispatch_only(prog).get(f.q, ()):
        # entered only through the table: the callers are the functions that call through it
        for c in prog.all_funcs():
            if c.q not in out and any(e['ev'] == 'call' and 'fnexpr' in e and t in dispatch_site_tables(prog, c, e)
                                      and any(row.get(dispatch_field(e)) is f for row in t['elems']) for e in c.events()):
                out[c.q] = c
    for (c, e) in prog.callers_of(f.name):
        u = prog.unit_of(c)
        t = prog.resolve(u, e['callee']) if u else prog.funcs.get(e['callee'])
        if t is not None and t.q != f.q:
            continue
        if t is None and f.static and f.file.endswith('.c'):
            continue
        out[c.q] = c
    return [out[q] for q in sorted(out)]


def nearest_roots(prog, f, strictly_above=False):
    """Entry points (exported functions, method slots, installed handlers) closest to f on the direct-call
    graph: the search upwards stops at the first entry point on every chain."""
    rts = _root_set(prog)
    found, seen = {}, set()
    work = [f] if not strictly_above else direct_callers(prog, f)
    while work:
        x = work.pop()
        if x.q in seen:
            continue
        seen.add(x.q)
        if x.q in rts:
            found[x.q] = x
            continue
        work.extend(direct_callers(prog, x))
    return [found[q] for q in sorted(found)]


def root_role(prog, r):
    """Stable description of an entry point: 'slot:<slot>' and 'slot:<slot>@<table>' for poll-method slots,
    'api:<name>' for exported functions, 'handler:<name>' for other address-taken functions."""
    roles_ = []
    for t, slots in sorted(prog.method_tables().items()):
        for k, v in sorted(slots.items()):
            if v and v[0] != 'str' and v[1] == r.name and prog.resolve(v[0], v[1]) is r:
                roles_.append('slot:' + k)
                roles_.append('slot:%s@%s' % (k, t.replace('iv_fd_poll_method_', '')))
    if roles_:
        return sorted(set(roles_))
    if not r.static:
        return ['api:' + r.name]
    return ['handler:' + r.name]


_PUBLIC = {}


def is_external_entry(prog, r):
    """Can code outside the library's direct-call graph enter r?  True for functions whose address is taken
    (method slots, handlers, thread bodies) and for functions declared in the installed headers (src/include)."""
    if r.q in roles.address_taken(prog):
        return True
    if r.static:
        return False
    from .. import core as _core
    inc = os.path.join(_core.REPO, 'src', 'include')
    txt = _PUBLIC.get(inc)
    if txt is None:
        txt = ''
        if os.path.isdir(inc):
            for fn in sorted(os.listdir(inc)):
                if fn.endswith('.h'):
                    txt += open(os.path.join(inc, fn), errors='replace').read()
        _PUBLIC[inc] = txt
    if not txt:
        return True
    return re.search(r'\b%s\b' % re.escape(r.name), txt) is not None


def inlined(prog, r, **kw):
    """Inliner(prog, **kw).inline(r), cached on the program object (roles.inlined keys its cache by id(prog),
    which a later program loaded in the same process may reuse)"""
    cache = prog.__dict__.setdefault('_h15_inl', {})
    key = (r.q, tuple(sorted(kw.items())))
    if key not in cache:
        cache[key] = DInliner(prog, **kw).inline(r)
    return cache[key]


def widest_contexts(prog, f, depth=0):
    """nearest entry points of f, where an entry point that is merely a library-internal function with external
    linkage (not in the installed headers, address not taken, has callers) is replaced by the entry points of its
    callers: the widest view the library offers of a site in f"""
    out = {}
    for r in nearest_roots(prog, f):
        outer = []
        if depth < 3 and not is_external_entry(prog, r):
            outer = [o for o in nearest_roots(prog, r, strictly_above=True) if o.q != r.q]
        if outer:
            for o in outer:
                for w in widest_contexts(prog, o, depth + 1):
                    out[w.q] = w
        else:
            out[r.q] = r
    return [out[q] for q in sorted(out)]


def in_contexts(prog, owner, check, depth=0, **kw):
    """Evaluate check(root, inlined root) -> (ok, detail) in the nearest entry points of `owner`.  A site
    obligation that does not hold within a nearest entry point which is merely a library-internal function with
    external linkage (not declared in the installed headers, address not taken: every caller is in the call
    graph) may still be discharged by *every* caller of it (the handling code was moved outwards); it holds
    iff it holds in every context.
    Returns (ok, [(root, ok, detail)])."""
    res = []
    ok_all = True
    rts = nearest_roots(prog, owner)
    if not rts:
        return False, [(owner, False, 'not reachable from any entry point')]
    for r in rts:
        g = inlined(prog, r, **kw)
        ok, detail = check(r, g)
        # only for library-internal functions with external linkage: all their callers are in the call graph
        if not ok and depth < 2 and not is_external_entry(prog, r):
            outer = nearest_roots(prog, r, strictly_above=True)
            outer = [o for o in outer if o.q != r.q]
            if outer:
                ok2 = True
                for o in outer:
                    g2 = inlined(prog, o, **kw)
                    k2, d2 = check(o, g2)
                    if not k2:
                        ok2 = False
                if ok2:
                    ok, detail = True, detail + ' (discharged in every caller)'
        res.append((r, ok, detail))
        ok_all = ok_all and ok
    return ok_all, res


# --------------------------------------------------------------------------
# abstract values: integer intervals (lo, hi, nonzero)
# --------------------------------------------------------------------------

TOP = (None, None, False)
NZ = (None, None, True)


def const(n):
    return (n, n, False)


def is_const(v):
    return v[0] is not None and v[0] == v[1]


def _norm(v):
    lo, hi, nz = v
    if lo is not None and hi is not None and lo > hi:
        return None
    if nz:
        if lo == 0 and hi == 0:
            return None
        if lo == 0:
            lo = 1
        if hi == 0:
            hi = -1
        if lo is not None and hi is not None and lo > hi:
            return None
        if (lo is not None and lo > 0) or (hi is not None and hi < 0):
            nz = False
    return (lo, hi, nz)


def meet(v, op, n):
    """v restricted by (v op n); None when empty"""
    lo, hi, nz = v
    if op == '==':
        if (lo is not None and n < lo) or (hi is not None and n > hi) or (nz and n == 0):
            return None
        return const(n)
    if op == '!=':
        if is_const(v) and lo == n:
            return None
        if n == 0:
            return _norm((lo, hi, True))
        if lo == n:
            return _norm((lo + 1, hi, nz))
        if hi == n:
            return _norm((lo, hi - 1, nz))
        return v
    if op == '<':
        n, op = n - 1, '<='
    if op == '>':
        n, op = n + 1, '>='
    if op == '<=':
        return _norm((lo, n if hi is None else min(hi, n), nz))
    if op == '>=':
        return _norm((n if lo is None else max(lo, n), hi, nz))
    return v


def truth(v):
    """True / False / None (unknown)"""
    if v is None:
        return None
    lo, hi, nz = v
    if is_const(v):
        return lo != 0
    if nz or (lo is not None and lo > 0) or (hi is not None and hi < 0):
        return True
    return None


def compare(a, op, b):
    """True / False / None for (a op b)"""
    if is_const(a) and is_const(b):
        x, y = a[0], b[0]
        return {'==': x == y, '!=': x != y, '<': x < y, '>': x > y, '<=': x <= y, '>=': x >= y}[op]
    if is_const(b):
        m = meet(a, op, b[0])
        if m is None:
            return False
        neg = {'==': '!=', '!=': '==', '<': '>=', '>=': '<', '>': '<=', '<=': '>'}[op]
        if meet(a, neg, b[0]) is None:
            return True
        return None
    if is_const(a):
        sw = {'==': '==', '!=': '!=', '<': '>', '>': '<', '<=': '>=', '>=': '<='}[op]
        return compare(b, sw, a)
    return None


BOOL = (0, 1, False)
_SAT = 4


def _b(x):
    return BOOL if x is None else const(int(x))


def is_errno(x):
    x = strip(x)
    if isinstance(x, dict) and x.get('k') == 'deref':
        c = strip(x['e'])
        return isinstance(c, dict) and c.get('k') == 'call' and c.get('callee') == '__errno_location'
    return False


def loc_key(x, env=None):
    """env key of a scalar storage location that can be named statically: a variable, a member / constant-index
    path inside a variable (`state.support`, `level[1]`), or what a pointer is known to point to (`*p`, `p->f`
    with `p = &state` recorded in env under '&p')"""
    x = strip(x)
    if not isinstance(x, dict):
        return None
    k = x.get('k')
    if k == 'var':
        return x['name'] if x.get('vk') != 'func' else None
    if k == 'member':
        if x['arrow']:
            b = _pointee(x['base'], env)
        else:
            b = loc_key(x['base'], env)
        return None if b is None else '%s.%s' % (b, x['field'])
    if k == 'index':
        i = strip(x['idx'])
        if isinstance(i, dict) and i.get('k') == 'int':
            b = loc_key(x['base'], env)
            return None if b is None else '%s[%d]' % (b, i['v'])
        return None
    if k == 'deref':
        return _pointee(x['e'], env)
    return None


def _pointee(p, env):
    p = strip(p)
    if not isinstance(p, dict):
        return None
    if p.get('k') == 'addr':
        return loc_key(p['e'], env)
    if p.get('k') == 'var' and env is not None:
        r = env.get('&' + p['name'])
        if isinstance(r, tuple) and r and r[0] == 'var':
            return r[1]
    return None


def key_root(key):
    return re.split(r'[.\[]', key.lstrip('&#'), maxsplit=1)[0]


# known bits of a location used as a set of feature bits (`caps & CAP_X`, `caps &= ~CAP_X`): env['#' + key] =
# (mask of bits known to be 0, mask of bits known to be 1)
_M = 0xFFFFFFFF


def _bits_of(x, env):
    """(known-zero mask, known-one mask) of an expression"""
    x = strip(x)
    if isinstance(x, dict) and x.get('k') == 'bin' and x['op'] in ('&', '|'):
        (a0, a1), (b0, b1) = _bits_of(x['l'], env), _bits_of(x['r'], env)
        if x['op'] == '&':
            return (a0 | b0) & _M, a1 & b1
        return a0 & b0, (a1 | b1) & _M
    if isinstance(x, dict) and x.get('k') == 'un' and x['op'] == '~':
        a0, a1 = _bits_of(x['e'], env)
        return a1, a0
    v = evaluate(x, env)
    if is_const(v):
        return (~v[0]) & _M, v[0] & _M
    key = loc_key(x, env)
    if key is not None:
        return env.get('#' + key, (0, 0))
    return 0, 0


def _bit_test(l):
    """(location key, constant mask) when l is `location & constant`"""
    l = strip(l)
    if isinstance(l, dict) and l.get('k') == 'bin' and l['op'] == '&':
        for a, b in ((l['l'], l['r']), (l['r'], l['l'])):
            c = evaluate(b, {})
            key = loc_key(a)
            if is_const(c) and key is not None:
                return (key, c[0] & _M)
    return None


def _bits_value(k0, k1):
    """abstract value of a word with these known bits"""
    if (k0 | k1) & _M == _M:
        return const(k1)
    if k1:
        return (k1, None, False)
    unknown = ~k0 & _M
    if unknown and unknown < (1 << 16):
        return (0, unknown, False)
    return TOP


def evaluate(x, env, hook=None):
    """abstract value of an expression; hook(x, env) -> value | None is asked first for memory reads (the simulator
    answers reads of constant tables)"""
    x = strip(x)
    if not isinstance(x, dict):
        return TOP
    k = x.get('k')
    if k in ('member', 'index', 'deref') and not is_errno(x):
        if hook is not None:
            v = hook(x, env)
            if v is not None:
                return v
        key = loc_key(x, env)
        return env.get(key, TOP) if key is not None else TOP
    if k == 'int':
        return const(x['v'])
    if k == 'null':
        return const(0)
    if k in ('addr', 'str'):
        return NZ
    if k == 'var':
        if x.get('vk') == 'func':
            return NZ
        return env.get(x['name'], TOP)
    if k == 'call':
        return env.get('$call:%s' % x.get('loc'), TOP)
    if is_errno(x):
        return env.get('$errno', TOP)
    if k == 'assign':
        # `(v = f()) < 0` inside a condition: the store itself is an event of the same block
        if x.get('op') == '=':
            key = _lvalue_key(x['l'])
            if key is not None and key in env:
                return env[key]
            return evaluate(x['r'], env, hook)
        return TOP
    if k == 'un':
        v = evaluate(x['e'], env, hook)
        if x['op'] == '-':
            lo, hi, nz = v
            return (None if hi is None else -hi, None if lo is None else -lo, nz)
        if x['op'] == '!':
            t = truth(v)
            return _b(None if t is None else not t)
        if x['op'] == '+':
            return v
        if x['op'] == '~' and is_const(v):
            return const(~v[0])
        return TOP
    if k == 'bin':
        op = x['op']
        if op in ('&', '|'):
            a, b = evaluate(x['l'], env, hook), evaluate(x['r'], env, hook)
            if is_const(a) and is_const(b):
                return const((a[0] & b[0]) if op == '&' else (a[0] | b[0]))
            return _bits_value(*_bits_of(x, env))
        if op in ('==', '!=', '<', '>', '<=', '>='):
            return _b(compare(evaluate(x['l'], env, hook), op, evaluate(x['r'], env, hook)))
        if op == '&&':
            a, b = truth(evaluate(x['l'], env, hook)), truth(evaluate(x['r'], env, hook))
            if a is False or b is False:
                return const(0)
            return _b(True if (a and b) else None)
        if op == '||':
            a, b = truth(evaluate(x['l'], env, hook)), truth(evaluate(x['r'], env, hook))
            if a or b:
                return const(1)
            return _b(False if (a is False and b is False) else None)
        if op in ('+', '-'):
            a, b = evaluate(x['l'], env, hook), evaluate(x['r'], env, hook)
            if is_const(a) and is_const(b):
                n = a[0] + b[0] if op == '+' else a[0] - b[0]
                return const(n) if abs(n) <= _SAT else TOP
        return TOP
    if k == 'cond':
        c = truth(evaluate(x['c'], env, hook))
        if c is True:
            return evaluate(x['a'], env, hook)
        if c is False:
            return evaluate(x['b'], env, hook)
        a, b = evaluate(x['a'], env, hook), evaluate(x['b'], env, hook)
        return a if a == b else TOP
    return TOP


def _lvalue_key(l):
    """env key an atom's left operand refers to, or None"""
    l = strip(l)
    if not isinstance(l, dict):
        return None
    if l.get('k') == 'call':
        return '$call:%s' % l.get('loc')
    if is_errno(l):
        return '$errno'
    if l.get('k') in ('var', 'member', 'index', 'deref'):
        return loc_key(l)
    if l.get('k') == 'assign' and l.get('op') == '=':
        return _lvalue_key(l['l'])
    return None


# --------------------------------------------------------------------------
# the simulator
# --------------------------------------------------------------------------

class Outcome:
    """what a non-inlined call does in a scenario"""
    __slots__ = ('ret', 'errno', 'marks')

    def __init__(self, ret=TOP, errno=None, marks=()):
        self.ret, self.errno, self.marks = ret, errno, tuple(marks)


def fail(errno, *marks):
    return Outcome(const(-1), const(errno), marks)


class Sim:
    """Path-sensitive walk of an (inlined) function.

    oracle(event, env, marks) -> Outcome | None   result/errno of a call that is not inlined (None: unknown)
    marker(event, env, marks) -> iterable of marks to add when the path executes the event
    init: {name: value} initial environment (parameters, file-scope flags); everything else is unknown.

    After run(): exits = [(ret event | None, env, marks, return value)], fatals = [(block id, env, marks)].
    Marks only grow along a path, so "the path saw X" is `X in marks` at its end."""

    def __init__(self, g, oracle=None, marker=None, init=None, max_states=30000, edge_marker=None, tabs=None):
        self.g = g
        self.tabs = tabs or {}      # {name: dispatch table info} (see dispatch_tables)
        self.edge_marker = edge_marker
        self.oracle = oracle or (lambda e, env, marks: None)
        self.marker = marker
        self.init = dict(init or {})
        self.max_states = max_states
        self.exits = []
        self.fatals = []
        prep = g.__dict__.get('_h15_prep')
        if prep is None:
            names = set()
            globs = set()
            for e in g.events():
                for x in walk(e):
                    if x.get('k') == 'var' and x.get('vk') != 'func':
                        if x.get('vk') in ('global', 'staticlocal'):
                            globs.add(x['name'])
                        else:
                            names.add(x['name'])
            for b in g.blocks.values():
                if b.term and b.term.get('cond') is not None:
                    for x in walk(b.term['cond']):
                        if x.get('k') == 'var' and x.get('vk') in ('global', 'staticlocal'):
                            globs.add(x['name'])
                        elif x.get('k') == 'var' and x.get('vk') != 'func':
                            names.add(x['name'])
            locs = names - globs
            prep = g.__dict__['_h15_prep'] = (globs, locs, liveness(g, locs), {})
        self.globals, self.locals, self.live, self._atoms = prep

    # -- state helpers ----------------------------------------------------
    @staticmethod
    def _key(env):
        return tuple(sorted((k, v) for k, v in env.items() if v != TOP))

    def _prune(self, env, b, i):
        la = self.live.get((b, i))
        if la is None:
            return env
        out = {}
        for k, v in env.items():
            if k[0] in '$%':
                if k == '$errno' or k.startswith('$call:') or k[0] == '%' or k in la:
                    out[k] = v
                continue
            r = key_root(k)
            if r in la or r in self.globals:
                out[k] = v
        return out

    def is_global(self, key):
        return key_root(key) in self.globals

    def ev(self, x, env):
        return evaluate(x, env, self._table_read)

    def _table_read(self, x, env):
        """value of a read of integer data from a private constant table (`modes[i].flags`, `v->retry`, `levels[i]`)
        for the rows the index value allows; None when x is not such a read"""
        if not self.tabs:
            return None
        k = x.get('k')
        el, fld = None, None
        if k == 'member':
            fld = x['field']
            if x['arrow']:
                r = self.ref(x['base'], env)
                if r is not None and r[0] == 'elem':
                    el = r[1:]
            else:
                el = self._elem(x['base'], env)
        elif k in ('index', 'deref'):
            el = self._elem(x, env)
        if el is None:
            return None
        t = self.tabs[el[0]]
        vals = []
        for i, drow in enumerate(t['data']):
            if meet(el[1], '==', i) is None:
                continue
            if fld in drow:
                vals.append(drow[fld])
            elif fld in t['elems'][i]:
                vals.append((1, None, False))       # the address of a function
            elif fld is not None and drow.get(None) == const(0) and not t['elems'][i]:
                vals.append(const(0))       # implicitly zero-initialised element
            else:
                return None
        if not vals:
            return None
        lo = None if any(v[0] is None for v in vals) else min(v[0] for v in vals)
        hi = None if any(v[1] is None for v in vals) else max(v[1] for v in vals)
        return (lo, hi, False)

    # -- pointers to static locations / elements of constant dispatch tables -----
    def _elem(self, l, env):
        """(table name, index value, location key of the index | None) when the lvalue l denotes an element of a
        constant table"""
        l = strip(l)
        if not isinstance(l, dict):
            return None
        k = l.get('k')
        if k == 'var' and l['name'] in self.tabs:
            return (l['name'], const(0), None)
        if k == 'index':
            b = strip(l['base'])
            if isinstance(b, dict) and b.get('k') == 'var' and b['name'] in self.tabs:
                # (the location the index was read from is remembered while it is not written: taking one
                # alternative of a dispatch tells what the index was)
                return (b['name'], self.ev(l['idx'], env), loc_key(l['idx'], env))
            return None
        if k == 'deref':
            r = self.ref(l['e'], env)
            if r is not None and r[0] == 'elem':
                return r[1:]
        return None

    def _rows(self, el):
        t = self.tabs[el[0]]
        return [row for i, row in enumerate(t['elems']) if meet(el[1], '==', i) is not None]

    def ref(self, x, env):
        """what a pointer-valued expression is known to denote: ('var', location key) | ('elem', table, index value)
        | ('fns', frozenset of function names) | None"""
        x = strip(x)
        if not isinstance(x, dict):
            return None
        k = x.get('k')
        if k == 'var':
            if x.get('vk') == 'func':
                return ('fns', frozenset([x['name']]))
            return env.get('&' + x['name'])
        if k == 'addr':
            inner = strip(x['e'])
            if isinstance(inner, dict) and inner.get('k') == 'var' and inner.get('vk') == 'func':
                return ('fns', frozenset([inner['name']]))
            el = self._elem(inner, env)
            if el is not None:
                return ('elem',) + el
            key = loc_key(inner, env)
            return ('var', key) if key is not None else None
        if k == 'member':
            el = None
            if x['arrow']:
                r = self.ref(x['base'], env)
                if r is not None and r[0] == 'elem':
                    el = r[1:]
            else:
                el = self._elem(x['base'], env)
            if el is None:
                return None
            rows = self._rows(el)
            if rows and all(x['field'] in row for row in rows):
                return ('fns', frozenset(row[x['field']].name for row in rows))
            return None
        if k == 'index':
            el = self._elem(x, env)
            if el is None:
                return None
            rows = self._rows(el)
            if rows and all(None in row for row in rows):
                return ('fns', frozenset(row[None].name for row in rows))
            return None
        if k == 'deref':
            return self.ref(x['e'], env)
        if k == 'cond':
            c = truth(self.ev(x['c'], env))
            if c is True:
                return self.ref(x['a'], env)
            if c is False:
                return self.ref(x['b'], env)
            a, b = self.ref(x['a'], env), self.ref(x['b'], env)
            if a is not None and b is not None and a[0] == b[0] == 'fns':
                return ('fns', a[1] | b[1])
            return a if a == b else None
        return None

    @staticmethod
    def _forget(env, key):
        """drop what is known about the location `key`, the locations inside it and the pointer stored in it"""
        for k in [k for k in env if k.lstrip('&#') == key or k.lstrip('&#').startswith(key + '.') or k.lstrip('&#').startswith(key + '[')]:
            env.pop(k)
        Sim._unindex(env, key)

    @staticmethod
    def _unindex(env, key):
        """`key` is written: pointers to table elements no longer know it as the location of their index"""
        for k, v in list(env.items()):
            if k[0] == '&' and isinstance(v, tuple) and v[0] == 'elem' and v[3] is not None \
                    and (v[3] == key or v[3].startswith(key + '.') or v[3].startswith(key + '[')):
                env[k] = v[:3] + (None,)

    def _take_alternative(self, e, env):
        """`assume` event: this alternative of a call through a constant dispatch table is the one that runs.
        None when the index value known here selects another element; else env, refined by what taking this
        alternative says about the index"""
        fe = strip(e['fnexpr'])
        target = e['target'].split(':')[-1]
        el, fld, ptr = None, None, None
        if isinstance(fe, dict) and fe.get('k') == 'member':
            fld = fe['field']
            if fe['arrow']:
                b = strip(fe['base'])
                r = self.ref(b, env)
                if r is not None and r[0] == 'elem':
                    el = r[1:]
                    if isinstance(b, dict) and b.get('k') == 'var':
                        ptr = b['name']
            else:
                el = self._elem(fe['base'], env)
        elif isinstance(fe, dict) and fe.get('k') in ('index', 'deref'):
            el = self._elem(fe, env)
        if el is None:
            r = self.ref(e['fnexpr'], env)
            if r is not None and r[0] == 'fns' and target not in r[1]:
                return None
            return env
        t = self.tabs[el[0]]
        idx = [i for i, row in enumerate(t['elems']) if meet(el[1], '==', i) is not None and fld in row and row[fld].name == target]
        if not idx:
            return None
        iv = meet(meet(el[1], '>=', min(idx)) or el[1], '<=', max(idx)) or el[1]
        if iv != el[1]:
            env = dict(env)
            if el[2] is not None:
                cur = env.get(el[2], TOP)
                m = meet(meet(cur, '>=', min(idx)) or cur, '<=', max(idx))
                if m is not None:
                    env[el[2]] = m
            if ptr is not None:
                env['&' + ptr] = ('elem', el[0], iv, el[2])
        return env

    # -- transfer ---------------------------------------------------------
    @staticmethod
    def _apply(add, env, marks):
        """marks to add; an element ('%set', key, value) instead sets the path-local pseudo variable `key`
        (keys start with '%'), which unlike a mark can be reset later on the path"""
        plain = [x for x in add if not (isinstance(x, tuple) and x and x[0] == '%set')]
        sets = [x for x in add if isinstance(x, tuple) and x and x[0] == '%set']
        if sets:
            env = dict(env)
            for (_, k, v) in sets:
                env[k] = v
        if plain:
            marks = marks | frozenset(plain)
        return env, marks

    def _event(self, e, env, marks):
        ev = e['ev']
        if self.marker is not None:
            add = self.marker(e, env, marks)
            if add:
                env, marks = self._apply(add, env, marks)
        if ev == 'assume':
            # one alternative of a call through a constant dispatch table: dead if the index value selects another
            env = self._take_alternative(e, env)
            return None if env is None else (env, marks)
        if ev == 'store':
            l = strip(e['lhs'])
            key = None
            if is_errno(l):
                key = '$errno'
            elif isinstance(l, dict):
                key = loc_key(l, env)
            if key is None and isinstance(l, dict) and l.get('k') in ('deref', 'member', 'index'):
                # a store through an unknown pointer / index: it may hit any location whose address was taken
                # (`p = &flag`) or any element of the indexed array
                env = dict(env)
                hit = {v[1] for k_, v in env.items() if k_[0] == '&' and isinstance(v, tuple) and v[0] == 'var'}
                if l.get('k') == 'index':
                    b = loc_key(l['base'], env)
                    if b is not None:
                        hit.add(b)
                for h in hit:
                    for k_ in [k_ for k_ in env if k_ == h or k_.startswith(h + '.') or k_.startswith(h + '[')]:
                        env.pop(k_)
                    self._unindex(env, h)
            if key is not None:
                op = e.get('op')
                if op == '=' and 'rhs' in e:
                    v = self.ev(e['rhs'], env)
                elif op in ('++', '--') and is_const(env.get(key, TOP)):
                    n = env[key][0] + (1 if op == '++' else -1)
                    v = const(n) if abs(n) <= _SAT else TOP
                elif op in ('+=', '-=') and 'rhs' in e and is_const(env.get(key, TOP)) and is_const(self.ev(e['rhs'], env)):
                    n = env[key][0] + self.ev(e['rhs'], env)[0] * (1 if op == '+=' else -1)
                    v = const(n) if abs(n) <= _SAT else TOP
                else:
                    v = TOP
                env = dict(env)
                r = self.ref(e['rhs'], env) if (op == '=' and 'rhs' in e and key != '$errno') else None
                bits = None
                rs = strip(e['rhs']) if 'rhs' in e else None
                if key != '$errno' and rs is not None and (op in ('&=', '|=') or (op == '=' and isinstance(rs, dict) and rs.get('k') == 'bin'
                                                                                 and rs['op'] in ('&', '|'))):
                    r0, r1 = _bits_of(e['rhs'], env)
                    if op == '=':
                        bits = (r0, r1)
                    else:
                        o0, o1 = _bits_of(e['lhs'], env)
                        bits = ((o0 | r0) & _M, o1 & r1) if op == '&=' else (o0 & r0, (o1 | r1) & _M)
                    if bits == (0, 0):
                        bits = None
                    elif v == TOP:
                        v = _bits_value(*bits)
                if key != '$errno':
                    self._forget(env, key)
                if bits is not None:
                    env['#' + key] = bits
                if v == TOP:
                    env.pop(key, None)
                else:
                    env[key] = v
                if r is not None:
                    env['&' + key] = r
        elif ev == 'decl':
            env = dict(env)
            self._forget(env, e['name'])
        elif ev == 'call':
            if e.get('callee') == '__errno_location':
                return env, marks
            env = dict(env)
            if 'fnexpr' in e:
                # code outside this graph (user callback, method slot): file-scope state and errno may change
                for k in list(env):
                    if k == '$errno' or (k[0] not in '$%' and self.is_global(k)):
                        env.pop(k)
                for k, v in list(env.items()):
                    if k[0] == '&' and isinstance(v, tuple) and v[0] == 'elem' and v[3] is not None and self.is_global(v[3]):
                        env[k] = v[:3] + (None,)
                out = self.oracle(e, env, marks)
            else:
                out = self.oracle(e, env, marks)
                if out is None or out.errno is None:
                    env.pop('$errno', None)
            if out is not None:
                if out.errno is not None:
                    env['$errno'] = out.errno
                if out.marks:
                    env, marks = self._apply(out.marks, env, marks)
            ret = out.ret if out is not None else TOP
            ck = '$call:%s' % e.get('loc')
            if ret == TOP:
                env.pop(ck, None)
            else:
                env[ck] = ret
            for a in e.get('args', []):
                a = strip(a)
                if isinstance(a, dict) and a.get('k') == 'addr':
                    key = loc_key(a['e'], env)
                    if key is not None:
                        self._forget(env, key)
                elif isinstance(a, dict) and a.get('k') == 'var':
                    # a pointer to a tracked location is handed to code outside the graph
                    r = env.get('&' + a['name'])
                    if isinstance(r, tuple) and r[0] == 'var':
                        self._forget(env, r[1])
        return env, marks

    def _edges(self, blk, env):
        """[(succ, env)] feasible successors"""
        succ = [s for s in blk.succ]
        term = blk.term
        if not succ:
            return []
        if len(succ) == 1 or not term or term.get('cond') is None:
            return [(s, env, si) for si, s in enumerate(succ) if s is not None]
        cond = term['cond']
        if term.get('cls') == 'SwitchStmt':
            v = self.ev(cond, env)
            key = _lvalue_key(cond)
            cases = term.get('cases', [])
            out = []
            taken_const = False
            for si, (s, cv) in enumerate(zip(succ, cases)):
                if s is None or cv == 'default':
                    continue
                m = meet(v, '==', cv)
                if m is None:
                    continue
                e2 = env
                if key is not None:
                    e2 = dict(env)
                    e2[key] = m
                out.append((s, e2, si))
                if is_const(v):
                    taken_const = True
            if not taken_const:
                for si, (s, cv) in enumerate(zip(succ, cases)):
                    if s is not None and cv == 'default':
                        out.append((s, env, si))
                if 'default' not in cases and len(succ) > len(cases):
                    out.append((succ[-1], env, len(succ) - 1))
            return out
        if len(succ) != 2:
            return [(s, env, si) for si, s in enumerate(succ) if s is not None]
        t = truth(self.ev(cond, env))
        out = []
        for si in (0, 1):
            if succ[si] is None:
                continue
            if t is not None and t != (si == 0):
                continue
            e2 = dict(env)
            dead = False
            atoms = self._atoms.get((blk.id, si))
            if atoms is None:
                atoms = self._atoms[(blk.id, si)] = [(op, lc, rc, _lvalue_key(l) if op != 'const' else None, r, _bit_test(l) if op != 'const' else None)
                                                     for (op, lc, rc, l, r) in norm_cond(cond, si == 0)]
            for (op, lc, rc, key, r, bit) in atoms:
                if op == 'const':
                    if lc == 'False':
                        dead = True
                    continue
                rv = self.ev(r, e2) if isinstance(r, dict) else TOP
                if key is None and bit is not None and is_const(rv):
                    # `(flags & C) == 0` / `!= 0` / `== C`: what the branch says about the bits of `flags`
                    bk, c = bit
                    cur = e2.get(bk, TOP)
                    o0, o1 = ((~cur[0]) & _M, cur[0] & _M) if is_const(cur) else e2.get('#' + bk, (0, 0))
                    n0, n1 = o0, o1
                    single = c != 0 and (c & (c - 1)) == 0
                    if (op == '==' and rv[0] == 0) or (op == '!=' and rv[0] == c and single):
                        n0 |= c
                    elif (op in ('!=', '>') and rv[0] == 0 and single) or (op == '==' and rv[0] == c and c):
                        n1 |= c
                    elif op in ('!=', '>') and rv[0] == 0 and (c & ~o0 & _M) == 0:
                        dead = True
                        break
                    if n0 & n1:
                        dead = True
                        break
                    if (n0, n1) != (o0, o1) and not is_const(cur):
                        e2['#' + bk] = (n0, n1)
                    continue
                if key is None:
                    # constant on the left is already swapped by norm_cond; negated operand `-x op n`
                    continue
                if not is_const(rv):
                    continue
                m = meet(e2.get(key, TOP), op, rv[0])
                if m is None:
                    dead = True
                    break
                if m == TOP:
                    e2.pop(key, None)
                else:
                    e2[key] = m
            if not dead:
                out.append((succ[si], e2, si))
        return out

    def run(self):
        g = self.g
        start = (g.entry, self._key(self.init), frozenset())
        seen = {start}
        work = [start]
        n = 0
        while work:
            b, envk, marks = work.pop()
            n += 1
            if n > self.max_states:
                raise AnalysisBroken('scenario simulation of %s exceeds %d states' % (g.name, self.max_states))
            env = dict(envk)
            blk = g.blocks[b]
            done = False
            for i, e in enumerate(blk.events):
                if e['ev'] == 'ret' and not e.get('chain'):
                    m2 = marks
                    if self.marker is not None:
                        add = self.marker(e, env, marks)
                        if add:
                            m2 = marks | frozenset(add)
                    self.exits.append((e, env, m2, self.ev(e['value'], env) if 'value' in e else None))
                    done = True
                    break
                res = self._event(e, env, marks)
                if res is None:         # infeasible (see `assume`)
                    done = True
                    break
                env, marks = res
                env = self._prune(env, b, i)
            if done:
                continue
            if blk.noreturn:
                self.fatals.append((b, env, marks))
                continue
            if b == g.exit or not blk.succ:
                self.exits.append((None, env, marks, None))
                continue
            for (s, e2, si) in self._edges(blk, env):
                m2 = marks
                if self.edge_marker is not None:
                    add = self.edge_marker(blk, si, e2, marks)
                    if add:
                        m2 = marks | frozenset(add)
                e2 = {k: v for k, v in e2.items() if not k.startswith('$call:')}
                st = (s, self._key(e2), m2)
                if st not in seen:
                    seen.add(st)
                    work.append(st)
        self.states = n
        return self

    def global_env(self, env):
        return {k: v for k, v in env.items() if k[0] not in '$%&' and self.is_global(k)}


class Borrowed:
    """A view of a check context through which a rule function of another property module can be run for this
    property: obligations it records under its own rule id are recorded under ours (only the instances `keep`
    accepts), everything else (program, exemptions, notes) is the real context.  The borrowed function is not
    changed and keeps its meaning; an anchor it misses raises AnalysisBroken through to our section."""

    def __init__(self, ctx, rid_map, keep=None):
        self._ctx = ctx
        self._map = dict(rid_map)
        self._keep = keep or (lambda instance: True)

    def __getattr__(self, name):
        return getattr(self._ctx, name)

    def ob(self, rid, instance, ok, **kw):
        if rid in self._map and self._keep(instance):
            self._ctx.ob(self._map[rid], instance, ok, **kw)

    def exempt(self, rid, instance, reason):
        if rid in self._map and self._keep(instance):
            self._ctx.exempt(self._map[rid], instance, reason)
