"""Helpers of the C09 rules (iv_event_raw): role discovery, mode specialisation,
a result tracker for interruptible system calls and a small symbolic path executor.

Nothing in here knows the name of a static function or of a local variable: the public
iv_event_raw_* functions are analysed with every static helper inlined (inlining stops at
functions with external linkage: those are operations of another module), the descriptor
handler is the function whose address registration installs, descriptors are identified by the
member they were loaded from / stored to, and the mode flag is the file-scope variable the
functions branch on.
"""
from ..core import (AnalysisBroken, Inliner, canon, strip, walk, last_member, members, _norm_cond1, forward,
                    relpath, names_of, lvalue_root)
from ..analyses import clone_cfg
from .. import interp, roles

EAGAIN = 11
EINTR = 4


# --------------------------------------------------------------------------
# roots, roles
# --------------------------------------------------------------------------

def inl(prog, f):
    """f with its static helpers inlined (normalised: flag partitioning, copy propagation)."""
    cache = prog.__dict__.setdefault('_h09_inl', {})
    if f.q not in cache:
        cache[f.q] = Inliner(prog, stop=lambda t: not t.static).inline(f)
    return cache[f.q]


def handler_of(prog, reg, R):
    """The function(s) registration installs as input handler of the read descriptor:
    stores `<iv_fd>.handler_in = <function>` executed by (inlined) registration."""
    names = {}
    for e in R.events():
        if e['ev'] != 'store' or e.get('op') != '=' or 'rhs' not in e:
            continue
        lm = last_member(e['lhs'])
        if not lm or lm[1] != 'handler_in' or lm[0] not in ('iv_fd', 'iv_fd_'):
            continue
        r = strip(e['rhs'])
        if isinstance(r, dict) and r.get('k') == 'addr':
            r = strip(r['e'])
        if isinstance(r, dict) and r.get('k') == 'var' and r.get('vk') == 'func':
            names[r['name']] = e
    inst = []
    for k in ('iv_fd', 'iv_fd_'):
        for g in roles.installed_in(prog, k, 'handler_in'):
            if g not in inst:
                inst.append(g)
    unit = prog.unit_of(reg)
    out = []
    for n in sorted(names):
        g = prog.resolve(unit, n) if unit else None
        if g is not None and g in inst and g not in out:
            out.append(g)
    return out


# --------------------------------------------------------------------------
# where a value comes from (flow-insensitive over the definitions of locals)
# --------------------------------------------------------------------------

def _defs(G):
    c = getattr(G, '_h09_defs', None)
    if c is not None:
        return c
    d, bad = {}, set()
    for e in G.events():
        for x in walk(e):
            if x.get('k') == 'addr':
                v = strip(x['e'])
                if isinstance(v, dict) and v.get('k') == 'var':
                    bad.add(v['name'])
        if e['ev'] == 'store':
            l = strip(e['lhs'])
            if l.get('k') == 'var':
                if e.get('op') == '=' and 'rhs' in e:
                    d.setdefault(l['name'], []).append(e['rhs'])
                else:
                    bad.add(l['name'])
    G._h09_defs = (d, bad)
    return G._h09_defs


def origins(G, expr, _seen=frozenset()):
    """Expressions a value may have been computed by: locals (caches, substituted parameters,
    helper results) are followed through all their definitions."""
    d, bad = _defs(G)
    x = strip(expr)
    if isinstance(x, dict) and x.get('k') == 'var' and x.get('vk') in ('local', 'param') \
            and x['name'] in d and x['name'] not in bad and x['name'] not in _seen:
        out = []
        for r in d[x['name']]:
            out += origins(G, r, _seen | {x['name']})
        return out
    return [x]


def expand(G, x, _depth=0):
    """access path with pointer locals that have a single origin replaced by it:
    `p = &obj->f; ... p->g`  reads as  `obj->f.g`"""
    if not isinstance(x, dict) or _depth > 6:
        return x
    k = x.get('k')
    if k in ('load', 'cast', 'paren') and 'e' in x:
        return dict(x, e=expand(G, x['e'], _depth))
    if k == 'member':
        b = expand(G, x['base'], _depth)
        sb = strip(b)
        if x.get('arrow') and isinstance(sb, dict) and sb.get('k') == 'var' and sb.get('vk') in ('local', 'param'):
            o = origins(G, sb)
            if len(o) == 1 and o[0] is not sb and not (o[0].get('k') == 'var' and o[0].get('name') == sb.get('name')):
                b = expand(G, o[0], _depth + 1)
                sb = strip(b)
        if x.get('arrow') and isinstance(sb, dict) and sb.get('k') == 'addr':
            return dict(x, arrow=False, base=sb['e'])
        return dict(x, base=b)
    if k == 'addr':
        return dict(x, e=expand(G, x['e'], _depth))
    return x


def _is_rfd(x):
    lm = last_member(x)
    return bool(lm) and lm[1] == 'fd' and lm[0] in ('iv_fd', 'iv_fd_') and ('iv_event_raw', 'event_rfd') in set(members(x))


def _is_wfd(x):
    return last_member(x) == ('iv_event_raw', 'event_wfd')


def is_read_end(G, expr):
    o = [expand(G, x) for x in origins(G, expr)]
    return bool(o) and all(_is_rfd(x) for x in o)


def is_write_end(G, expr):
    o = [expand(G, x) for x in origins(G, expr)]
    return bool(o) and all(_is_wfd(x) for x in o)


def is_user_handler_call(G, e):
    """indirect call through <iv_event_raw>.handler (possibly cached in a local first)"""
    if e['ev'] != 'call' or 'fnexpr' not in e:
        return False
    o = [expand(G, x) for x in origins(G, e['fnexpr'])]
    return bool(o) and all(last_member(x) == ('iv_event_raw', 'handler') for x in o)


def is_read_end_object(G, expr):
    """&<obj>->event_rfd"""
    o = origins(G, expr)
    def one(x):
        if not (isinstance(x, dict) and x.get('k') == 'addr'):
            return False
        return last_member(x['e']) == ('iv_event_raw', 'event_rfd')
    return bool(o) and all(one(x) for x in o)


# --------------------------------------------------------------------------
# mode flag
# --------------------------------------------------------------------------

def flags_read(G):
    """File-scope variables the function discriminates on (branch conditions, ?: conditions)."""
    out = set()
    def scan(c):
        for x in walk(c):
            if x.get('k') == 'var' and x.get('vk') in ('global', 'staticlocal'):
                out.add(x['name'])
    for blk in G.blocks.values():
        c = blk.term.get('cond') if blk.term else None
        if c is not None and len(blk.succ) >= 2:
            scan(c)
    for e in G.events():
        for key in ('rhs', 'init', 'args', 'value'):
            if key in e:
                for x in walk(e[key]):
                    if x.get('k') == 'cond':
                        scan(x['c'])
    return out


def flag_written(G, flag):
    for e in G.events():
        if e['ev'] == 'store':
            r = lvalue_root(e['lhs'])
            if r is not None and r.get('vk') in ('global', 'staticlocal') and r['name'] == flag:
                return True
    return False


def flag_domain(prog, unit, flag):
    """Values the flag can hold: its initialiser and every constant stored into it."""
    vals = {0}
    g = prog.global_for(unit, flag)
    init = strip(g.get('init')) if isinstance(g, dict) and isinstance(g.get('init'), dict) else None
    if isinstance(init, dict) and init.get('k') == 'int':
        vals.add(init['v'])
    for (f, e) in prog.global_writers(flag):
        r = strip(e.get('rhs')) if 'rhs' in e else None
        if e.get('op') == '=' and isinstance(r, dict) and r.get('k') == 'int':
            vals.add(r['v'])
        else:
            raise AnalysisBroken('mode flag %s is written a non-constant at %s' % (flag, relpath(e.get('loc'))))
    if not any(v != 0 for v in vals):
        vals.add(1)
    return sorted(vals)


def specialise(G, flag, v):
    """CFG of G under flag == v (G must not write the flag): conditional edges the value decides
    the other way are removed.  Events are shared with G."""
    asg = interp.Assignment(ints={flag: v})
    g = clone_cfg(G)
    for blk in g.blocks.values():
        t = blk.term
        if not t or t.get('cond') is None or len(blk.succ) < 2:
            continue
        try:
            val = interp.evaluate(t['cond'], asg, {})
        except (interp.Undecided, KeyError, TypeError, ZeroDivisionError):
            continue
        if t.get('cls') == 'SwitchStmt':
            cases = t.get('cases', [])
            pick = [s for s, cv in zip(blk.succ, cases) if cv == val] or [s for s, cv in zip(blk.succ, cases) if cv == 'default']
            if not pick:
                continue
            blk.succ = [pick[0]]
        elif len(blk.succ) == 2:
            blk.succ = [blk.succ[0] if val else blk.succ[1]]
        else:
            continue
        blk.term = dict(t, cls='Forced')
        blk.term.pop('cond', None)
    g._preds = None
    return g, asg


def const_envs(g, asg):
    """{(bid, i): {local: int}} constants of integer locals before every event of g (must analysis)."""
    def tr(e, S):
        ev = e['ev']
        if ev == 'store':
            l = strip(e['lhs'])
            if l.get('k') == 'var':
                S = frozenset(x for x in S if x[0] != l['name'])
                if e.get('op') == '=' and 'rhs' in e:
                    try:
                        val = interp.evaluate(e['rhs'], asg, dict(S))
                        if isinstance(val, int):
                            S = S | {(l['name'], val)}
                    except (interp.Undecided, KeyError, TypeError, ZeroDivisionError):
                        pass
        elif ev == 'decl':
            S = frozenset(x for x in S if x[0] != e['name'])
        elif ev in ('call', 'enter'):
            for a in e.get('args', []):
                a = strip(a)
                if isinstance(a, dict) and a.get('k') == 'addr':
                    w = strip(a['e'])
                    if isinstance(w, dict) and w.get('k') == 'var':
                        S = frozenset(x for x in S if x[0] != w['name'])
        return S
    _, ev_in = forward(g, frozenset(), tr, lambda a, b: a & b)
    return ev_in


def value_at(ev_in, asg, e, expr):
    S = ev_in.get((e['_b'], e['_i']))
    if S is None:
        return None
    try:
        val = interp.evaluate(expr, asg, dict(S))
    except (interp.Undecided, KeyError, TypeError, ZeroDivisionError):
        return None
    return val if isinstance(val, int) else None


def reachable_events(g):
    rb = g.reachable_blocks()
    return [e for b in rb for e in g.blocks[b].events]


# --------------------------------------------------------------------------
# result tracker: what is known about the result of the latest call of an
# interruptible system call (sign of the result, errno), and whether the sink
# (the user handler) ran since
# --------------------------------------------------------------------------

ALL = frozenset('-0+')


def sign_classes(op, n):
    """which of negative/zero/positive values satisfy `v op n`; v is the result of a POSIX
    call (read, write): -1 or non-negative"""
    out = set()
    for v in (-1, 0, 1, 10 ** 9, n - 1, n, n + 1):
        if v < -1:
            continue
        ok = {'==': v == n, '!=': v != n, '<': v < n, '<=': v <= n, '>': v > n, '>=': v >= n}.get(op)
        if ok:
            out.add('-' if v < 0 else ('0' if v == 0 else '+'))
    return frozenset(out)


def is_errno(x):
    x = strip(x)
    if isinstance(x, dict) and x.get('k') == 'deref':
        c = strip(x['e'])
        return isinstance(c, dict) and c.get('k') == 'call' and c.get('callee') == '__errno_location'
    return False


class TS:
    """tracker state (immutable tuple wrapper)
       n     : a source call happened on this path
       cur   : (callee, loc) of the latest source call
       V     : locals holding its result
       sign  : subset of {-,0,+} the result may lie in
       E     : locals holding errno as left by it
       elive : errno itself still is the one left by it (no other call since)
       eq/ne : errno is known to equal / differ from these constants
       disp  : the sink ran since the latest source call"""
    __slots__ = ('t',)

    def __init__(self, n=False, cur=None, V=frozenset(), sign=ALL, E=frozenset(), elive=False, eq=None, ne=frozenset(), disp=False):
        self.t = (n, cur, V, sign, E, elive, eq, ne, disp)

    n = property(lambda s: s.t[0])
    cur = property(lambda s: s.t[1])
    V = property(lambda s: s.t[2])
    sign = property(lambda s: s.t[3])
    E = property(lambda s: s.t[4])
    elive = property(lambda s: s.t[5])
    eq = property(lambda s: s.t[6])
    ne = property(lambda s: s.t[7])
    disp = property(lambda s: s.t[8])

    def __eq__(self, o):
        return isinstance(o, TS) and self.t == o.t

    def __hash__(self):
        return hash(self.t)

    def but(self, **kw):
        d = dict(n=self.n, cur=self.cur, V=self.V, sign=self.sign, E=self.E, elive=self.elive, eq=self.eq, ne=self.ne, disp=self.disp)
        d.update(kw)
        return TS(**d)

    def errno_may_be(self, c):
        if self.eq is not None:
            return self.eq == c
        return c not in self.ne

    def errno_is(self, c):
        return self.eq == c


def _const(r, rc):
    r = strip(r) if isinstance(r, dict) else r
    if isinstance(r, dict) and r.get('k') == 'int':
        return r['v']
    if isinstance(r, dict) and r.get('k') == 'null':
        return 0
    try:
        return int(rc)
    except (TypeError, ValueError):
        return None


def track(G, is_src, is_sink=None):
    """{(bid, i): frozenset(TS)} before every event of G, and at (exit, 0)."""
    def refers_result(st, l):
        x = strip(l)
        if not isinstance(x, dict):
            return False
        if x.get('k') == 'assign' and x.get('op') == '=':
            # value of `(v = E)`: the store event preceded the test
            return refers_result(st, x['l'])
        if x.get('k') == 'var':
            return x['name'] in st.V
        if x.get('k') == 'call' and st.cur is not None:
            return (x.get('callee'), x.get('loc')) == st.cur
        return False

    def refers_errno(st, l):
        x = strip(l)
        if not isinstance(x, dict):
            return False
        if x.get('k') == 'assign' and x.get('op') == '=':
            return refers_errno(st, x['l'])
        if x.get('k') == 'var':
            return x['name'] in st.E
        return st.elive and is_errno(x)

    def assume(st, op, l, n):
        if not st.n:
            return st
        if refers_result(st, l):
            s2 = st.sign & sign_classes(op, n)
            if not s2:
                return None
            return st.but(sign=s2)
        if refers_errno(st, l):
            if op == '==':
                if (st.eq is not None and st.eq != n) or n in st.ne:
                    return None
                return st.but(eq=n)
            if op == '!=':
                if st.eq == n:
                    return None
                return st.but(ne=st.ne | {n})
        return st

    def tr1(e, st):
        ev = e['ev']
        if ev in ('call', 'enter'):
            if is_src(e):
                return TS(n=True, cur=(e.get('callee'), e.get('loc')), elive=True)
            drop = set()
            for a in e.get('args', []):
                a = strip(a)
                if isinstance(a, dict) and a.get('k') == 'addr':
                    w = strip(a['e'])
                    if isinstance(w, dict) and w.get('k') == 'var':
                        drop.add(w['name'])
            if drop and (st.V & drop or st.E & drop):
                st = st.but(V=st.V - drop, E=st.E - drop)
            if ev == 'call' and e.get('callee') != '__errno_location' and st.elive:
                st = st.but(elive=False)
            if is_sink is not None and is_sink(e) and not st.disp:
                st = st.but(disp=True)
            return st
        if ev == 'store':
            l = strip(e['lhs'])
            if l.get('k') == 'var':
                nm = l['name']
                V, E = st.V - {nm}, st.E - {nm}
                if e.get('op') == '=' and 'rhs' in e and st.n:
                    r = strip(e['rhs'])
                    if refers_result(st, r):
                        V = V | {nm}
                    elif refers_errno(st, r):
                        E = E | {nm}
                if V != st.V or E != st.E:
                    st = st.but(V=V, E=E)
            return st
        if ev == 'decl':
            if e['name'] in st.V or e['name'] in st.E:
                st = st.but(V=st.V - {e['name']}, E=st.E - {e['name']})
            return st
        return st

    def tr(e, S):
        return frozenset(tr1(e, st) for st in S)

    def edge(blk, si, S):
        t = blk.term
        if not t or t.get('cond') is None or len(blk.succ) < 2 or t.get('cls') == 'MethodDispatch':
            return S
        if t.get('cls') == 'SwitchStmt':
            cases = t.get('cases', [])
            if si >= len(cases):
                return S
            if cases[si] == 'default':
                atoms = [('!=', t['cond'], cv) for cv in cases if isinstance(cv, int)]
            elif isinstance(cases[si], int):
                atoms = [('==', t['cond'], cases[si])]
            else:
                atoms = []
        elif len(blk.succ) == 2:
            atoms = []
            for (op, lc, rc, l, r) in _norm_cond1(t['cond'], si == 0):
                if op == 'const':
                    if lc == 'False':
                        return None
                    continue
                n = _const(r, rc)
                if n is not None and isinstance(l, dict):
                    atoms.append((op, l, n))
        else:
            return S
        out = set()
        for st in S:
            for (op, l, n) in atoms:
                st = assume(st, op, l, n)
                if st is None:
                    break
            if st is not None:
                out.add(st)
        return frozenset(out) if out else None

    _, ev_in = forward(G, frozenset([TS()]), tr, lambda a, b: a | b, edge=edge)
    return ev_in


# --------------------------------------------------------------------------
# symbolic path execution (loop-free code such as registration)
# --------------------------------------------------------------------------

INF = 10 ** 12


class _Path:
    def __init__(self):
        self.store = {}
        self.facts = {}      # symbol id -> (lo, hi, frozenset(ne))
        self.label = {}      # symbol id -> label
        self.callres = {}
        self.calls = []
        self.conds = []
        self.visits = {}
        self.nsym = [0]
        self.result = None
        self.end = None
        self.bits = {}       # symbol id -> bits known to be set

    def fork(self):
        p = _Path()
        p.store = dict(self.store)
        p.facts = dict(self.facts)
        p.label = self.label          # shared: symbols are never relabelled
        p.callres = dict(self.callres)
        p.calls = list(self.calls)
        p.conds = list(self.conds)
        p.visits = dict(self.visits)
        p.nsym = self.nsym
        p.bits = dict(self.bits)
        return p

    def fresh(self, label):
        self.nsym[0] += 1
        i = self.nsym[0]
        self.label[i] = label
        return ('s', i)

    # ---- facts -----------------------------------------------------------
    def bounds(self, i):
        return self.facts.get(i, (-INF, INF, frozenset()))

    def const_of(self, v):
        if v[0] == 'c':
            return v[1]
        if v[0] in ('s', 'neg'):
            lo, hi, ne = self.bounds(v[1])
            if lo == hi:
                return lo if v[0] == 's' else -lo
        return None

    def constrain(self, i, op, n):
        lo, hi, ne = self.bounds(i)
        if op == '==':
            lo, hi = max(lo, n), min(hi, n)
        elif op == '!=':
            ne = ne | {n}
        elif op == '<':
            hi = min(hi, n - 1)
        elif op == '<=':
            hi = min(hi, n)
        elif op == '>':
            lo = max(lo, n + 1)
        elif op == '>=':
            lo = max(lo, n)
        while lo in ne and lo <= hi:
            lo += 1
        while hi in ne and lo <= hi:
            hi -= 1
        if lo > hi:
            return False
        self.facts[i] = (lo, hi, ne)
        lb = self.label.get(i)
        if lb and lb[0] == 'and' and (lo > 0 or hi < 0 or 0 in ne) and lb[2] > 0 and lb[2] & (lb[2] - 1) == 0 and lb[1][0] == 's':
            # (x & bit) != 0: the bit is set in x
            self.bits[lb[1][1]] = self.bits.get(lb[1][1], 0) | lb[2]
        return True

    def assume_cmp(self, lv, op, rv):
        """True if feasible (facts recorded)"""
        from ..core import SWAP
        lc, rc = self.const_of(lv), self.const_of(rv)
        if lc is not None and rc is not None:
            return {'==': lc == rc, '!=': lc != rc, '<': lc < rc, '<=': lc <= rc, '>': lc > rc, '>=': lc >= rc}[op]
        if lc is not None and rc is None:
            lv, rv, lc, rc, op = rv, lv, rc, lc, SWAP[op]
        if rc is not None:
            if lv[0] == 's':
                return self.constrain(lv[1], op, rc)
            if lv[0] == 'neg':
                return self.constrain(lv[1], SWAP[op], -rc)
            if lv[0] in ('addr', 'fn'):
                if rc == 0:
                    return {'==': False, '!=': True}.get(op, True)
                return True
            return True
        if lv == rv and lv[0] in ('s', 'neg', 'addr', 'fn'):
            return op in ('==', '<=', '>=')
        return True


class SymExec:
    """Enumerates the paths of G; values are constants, symbols (with interval / disequality
    facts), negated symbols, addresses of access paths and function addresses."""

    def __init__(self, G, max_paths=4000, max_visits=2):
        self.G = G
        self.max_paths = max_paths
        self.max_visits = max_visits
        self.done = []

    # ---- expressions -----------------------------------------------------
    @staticmethod
    def _is_array(x):
        return isinstance(x, dict) and x.get('k') == 'var' and '[' in str(x.get('type', ''))

    def vrepr(self, v):
        if v[0] == 's':
            return '$%d' % v[1]
        if v[0] == 'neg':
            return '-$%d' % v[1]
        if v[0] == 'c':
            return str(v[1])
        return str(v[1])

    def read(self, p, key):
        if key not in p.store:
            p.store[key] = p.fresh(('init', key))
        return p.store[key]

    def write(self, p, key, val):
        for k in [k for k in p.store if k != key and k.startswith(key) and k[len(key):len(key) + 1] in ('.', '[', '-')]:
            del p.store[k]
        p.store[key] = val

    def havoc(self, p, key):
        for k in [k for k in p.store if k == key or (k.startswith(key) and k[len(key):len(key) + 1] in ('.', '[', '-'))]:
            del p.store[k]

    def lkey(self, p, e):
        while isinstance(e, dict) and e.get('k') in ('cast', 'stmtexpr', 'paren') and 'e' in e:
            e = e['e']
        if not isinstance(e, dict):
            return '?'
        k = e.get('k')
        if k == 'var':
            return e['name']
        if k == 'load':
            return self.lkey(p, e['e'])
        if k == 'member':
            if e['arrow']:
                pv = self.ev(p, e['base'])
                if pv[0] == 'addr':
                    return '%s.%s' % (pv[1], e['field'])
                return '%s->%s' % (self.vrepr(pv), e['field'])
            return '%s.%s' % (self.lkey(p, e['base']), e['field'])
        if k == 'index':
            pv = self.ev(p, e['base'])
            iv = p.const_of(self.ev(p, e['idx']))
            if pv[0] == 'addr' and pv[1].endswith(']') and iv is not None:
                base, _, k0 = pv[1][:-1].rpartition('[')
                try:
                    return '%s[%d]' % (base, int(k0) + iv)
                except ValueError:
                    pass
            return '%s[%s]' % (self.vrepr(pv), iv if iv is not None else '?')
        if k == 'deref':
            if is_errno(e):
                return 'errno'
            pv = self.ev(p, e['e'])
            if pv[0] == 'addr':
                return pv[1]
            return '*%s' % self.vrepr(pv)
        return '?%s' % canon(e)

    def ev(self, p, e):
        if not isinstance(e, dict):
            return p.fresh(('unknown', str(e)))
        k = e.get('k')
        if k in ('cast', 'stmtexpr', 'paren') and 'e' in e:
            return self.ev(p, e['e'])
        if k == 'load':
            inner = e['e']
            if self._is_array(inner):
                return ('addr', inner['name'] + '[0]')
            if isinstance(inner, dict) and inner.get('k') == 'var' and inner.get('vk') == 'func':
                return ('fn', inner['name'])
            if not (isinstance(inner, dict) and inner.get('k') in ('var', 'member', 'index', 'deref')):
                # a load around a value (argument expression substituted for a parameter read)
                return self.ev(p, inner)
            return self.read(p, self.lkey(p, inner))
        if k == 'int':
            return ('c', e['v'])
        if k == 'null':
            return ('c', 0)
        if k == 'var':
            if e.get('vk') == 'func':
                return ('fn', e['name'])
            if self._is_array(e):
                return ('addr', e['name'] + '[0]')
            return self.read(p, e['name'])
        if k == 'addr':
            inner = strip(e['e']) if isinstance(e['e'], dict) and e['e'].get('k') == 'cast' else e['e']
            if isinstance(inner, dict) and inner.get('k') == 'var' and inner.get('vk') == 'func':
                return ('fn', inner['name'])
            return ('addr', self.lkey(p, e['e']))
        if k in ('member', 'index', 'deref'):
            return self.read(p, self.lkey(p, e))
        if k == 'un':
            v = self.ev(p, e['e'])
            c = p.const_of(v)
            if e['op'] == '-':
                if c is not None:
                    return ('c', -c)
                if v[0] == 's':
                    return ('neg', v[1])
                if v[0] == 'neg':
                    return ('s', v[1])
            if e['op'] == '!' and c is not None:
                return ('c', int(not c))
            if e['op'] == '!' and v[0] in ('addr', 'fn'):
                return ('c', 0)
            if e['op'] == '~' and c is not None:
                return ('c', ~c)
            return p.fresh(('expr', canon(e)))
        if k == 'bin':
            a, b = self.ev(p, e['l']), self.ev(p, e['r'])
            ca, cb = p.const_of(a), p.const_of(b)
            if e['op'] == '&' and (ca is None) != (cb is None):
                return p.fresh(('and', b if ca is not None else a, ca if ca is not None else cb))
            if e['op'] == '|' and (ca is None) != (cb is None):
                # bits known to be set in an otherwise unknown value
                other = b if ca is not None else a
                bits = ca if ca is not None else cb
                lb = p.label.get(other[1]) if other[0] == 's' else None
                if lb and lb[0] == 'or':
                    bits |= lb[1]
                return p.fresh(('or', bits))
            if ca is not None and cb is not None:
                try:
                    return ('c', interp.evaluate({'k': 'bin', 'op': e['op'], 'l': {'k': 'int', 'v': ca}, 'r': {'k': 'int', 'v': cb}},
                                                 interp.Assignment(), {}))
                except Exception:
                    pass
            return p.fresh(('expr', canon(e)))
        if k == 'assign' and e.get('op') == '=':
            # `(v = E)` used as a value: the store event was executed before
            return self.read(p, self.lkey(p, e['l']))
        if k == 'call':
            key = (e.get('callee'), e.get('loc'))
            if key not in p.callres:
                p.callres[key] = p.fresh(('call', e.get('callee'), e.get('loc')))
            return p.callres[key]
        if k == 'cond':
            q = p.fork()
            t = self._assume(q, e['c'], True)
            q = p.fork()
            f = self._assume(q, e['c'], False)
            if t and not f:
                return self.ev(p, e['a'])
            if f and not t:
                return self.ev(p, e['b'])
            return p.fresh(('expr', canon(e)))
        return p.fresh(('expr', canon(e)))

    # ---- conditions --------------------------------------------------------
    def _assume(self, p, cond, pol):
        for (op, lc, rc, l, r) in _norm_cond1(cond, pol):
            if op == 'const':
                if lc == 'False':
                    return False
                continue
            if not isinstance(l, dict) or not isinstance(r, dict):
                continue
            if not p.assume_cmp(self.ev(p, l), op, self.ev(p, r)):
                return False
        return True

    # ---- events --------------------------------------------------------------
    def step(self, p, e):
        ev = e['ev']
        if ev == 'store':
            key = self.lkey(p, e['lhs'])
            if e.get('op') == '=' and 'rhs' in e:
                self.write(p, key, self.ev(p, e['rhs']))
            elif e.get('op') == '|=' and 'rhs' in e and p.const_of(self.ev(p, e['rhs'])) is not None:
                old = p.store.get(key)
                bits = p.const_of(self.ev(p, e['rhs']))
                lb = p.label.get(old[1]) if old is not None and old[0] == 's' else None
                if lb and lb[0] == 'or':
                    bits |= lb[1]
                self.write(p, key, p.fresh(('or', bits)))
            else:
                self.write(p, key, p.fresh(('expr', canon(e['lhs']) + e.get('op', ''))))
        elif ev == 'decl':
            self.havoc(p, e['name'])
        elif ev == 'call':
            args = [self.ev(p, a) for a in e.get('args', [])]
            callee = e.get('callee')
            snap = dict(p.store)
            cid = len(p.calls)
            res = p.fresh(('call', callee, e.get('loc')))
            p.callres[(callee, e.get('loc'))] = res
            p.calls.append({'callee': callee, 'args': args, 'loc': e.get('loc'), 'store': snap, 'id': cid, 'event': e, 'res': res})
            if callee == '__errno_location':
                return
            for a in args:
                if a[0] == 'addr':
                    self.havoc(p, a[1])
                    if a[1].endswith('[0]'):
                        self.havoc(p, a[1][:-3])
            if callee in ('pipe', 'pipe2') and args and args[0][0] == 'addr' and args[0][1].endswith('[0]'):
                base = args[0][1][:-3]
                p.store[base + '[0]'] = p.fresh(('pipe', 0, cid))
                p.store[base + '[1]'] = p.fresh(('pipe', 1, cid))
            # errno as left by a call: error numbers are positive
            en = p.fresh(('errno', callee, e.get('loc')))
            p.facts[en[1]] = (1, INF, frozenset())
            p.store['errno'] = en

    def run(self):
        G = self.G
        work = [(G.entry, _Path())]
        while work:
            b, p = work.pop()
            if len(self.done) + len(work) > self.max_paths:
                raise AnalysisBroken('symbolic execution of %s: more than %d paths' % (G.name, self.max_paths))
            p.visits[b] = p.visits.get(b, 0) + 1
            if p.visits[b] > self.max_visits:
                continue
            blk = G.blocks[b]
            ended = False
            for e in blk.events:
                if e['ev'] == 'ret' and not e.get('chain'):
                    p.result = self.ev(p, e['value']) if 'value' in e else None
                    p.end = ('ret', e)
                    self.done.append(p)
                    ended = True
                    break
                self.step(p, e)
            if ended:
                continue
            if blk.noreturn:
                continue
            succ = [s for s in blk.succ]
            if b == G.exit or not succ:
                p.end = ('exit', None)
                self.done.append(p)
                continue
            t = blk.term
            if len(succ) == 1 or not t or t.get('cond') is None or t.get('cls') == 'MethodDispatch':
                for s in succ:
                    if s is not None:
                        work.append((s, p.fork() if len(succ) > 1 else p))
                continue
            if t.get('cls') == 'SwitchStmt':
                cases = t.get('cases', [])
                cv = self.ev(p, t['cond'])
                for si, s in enumerate(succ):
                    if s is None or si >= len(cases):
                        continue
                    q = p.fork()
                    ok = True
                    if cases[si] == 'default':
                        for c in cases:
                            if isinstance(c, int) and not q.assume_cmp(cv, '!=', ('c', c)):
                                ok = False
                    elif isinstance(cases[si], int):
                        ok = q.assume_cmp(cv, '==', ('c', cases[si]))
                    if ok:
                        q.conds.append('%s: switch (%s) case %s' % (relpath(t.get('loc', '?')), canon(t['cond']), cases[si]))
                        work.append((s, q))
                continue
            for si, s in enumerate(succ[:2]):
                if s is None:
                    continue
                q = p.fork()
                if self._assume(q, t['cond'], si == 0):
                    q.conds.append('%s: (%s) is %s' % (relpath(t.get('loc', '?')), canon(t['cond']), 'true' if si == 0 else 'false'))
                    work.append((s, q))
        return self.done
