"""Helpers of C03: role-based anchors, branch facts with their expressions, a small
three-valued evaluator that decides what a set of branch facts implies about one
memory location, and the token abstraction of kernel entries.

Nothing here looks at a static function name, a local variable name or the text of
an expression: objects are identified by (record, field) steps and by the value the
base expression denotes (canon of the base, killed by `holding` when it is redefined).
"""
from ..core import (AnalysisBroken, Inliner, canon, strip, last_member, norm_cond, walk, lvalue_steps)
from ..analyses import holding, is_call
from .. import roles

FD = 'iv_fd_'
FD_RECORDS = ('iv_fd_', 'iv_fd')
# band encoding of the private header (MASKIN/MASKOUT/MASKERR): the specification of which
# readiness bit belongs to which handler; the same table is in c02 (R-C02d ties it to the kernel bits)
BANDS = {'handler_in': 1, 'handler_out': 2, 'handler_err': 4}
ORDER = ('handler_err', 'handler_in', 'handler_out')
WAITS = ('epoll_wait', 'epoll_pwait2', 'poll', 'ppoll')     # kernel API, not library names


# ---------------------------------------------------------------------------------------
# sites and contexts
# ---------------------------------------------------------------------------------------

def handler_field(e):
    """band handler field an indirect call goes through (after inlining and copy propagation the
    function expression is the access path even when the pointer was cached or passed to a helper)."""
    if e['ev'] != 'call' or 'fnexpr' not in e:
        return None
    lm = last_member(e['fnexpr'])
    if lm and lm[0] in FD_RECORDS and lm[1] in BANDS:
        return lm[1]
    return None


def stale_handler(g, e):
    """(band field, object canon) when the call goes through a variable that was loaded from a band
    handler field and is not a valid copy of it any more at the call (copy propagation would have put the
    field access there): a user callback or a store to the field lies in between."""
    if e['ev'] != 'call' or 'fnexpr' not in e:
        return None
    v = strip(e['fnexpr'])
    if not (isinstance(v, dict) and v.get('k') == 'var' and v.get('vk') in ('local', 'param')):
        return None
    for d in g.events():
        if d['ev'] == 'store' and 'rhs' in d and redefines(d, v['name']):
            m = strip(d['rhs'])
            lm = last_member(m)
            if lm and lm[0] in FD_RECORDS and lm[1] in BANDS:
                return (lm[1], canon(m['base']))
    return None


def site_object(cs):
    """(base expression, canon of it) of the descriptor whose handler the site calls"""
    m = strip(cs['fnexpr'])
    return m['base'], canon(m['base'])


def _mentions_handler(f):
    for b in f.blocks.values():
        for x in walk(b.events):
            if x.get('k') == 'member' and x.get('record') in FD_RECORDS and x.get('field') in BANDS:
                return True
        if b.term and b.term.get('cond') is not None:
            for x in walk(b.term['cond']):
                if x.get('k') == 'member' and x.get('record') in FD_RECORDS and x.get('field') in BANDS:
                    return True
    return False


def root_map(prog):
    """roles.roots plus the functions defined in headers (static inline operations shared by several
    units are operations in their own right, e.g. a make-ready moved to the private header)"""
    from ..core import PRIMITIVES
    out = {r.q: r for r in roles.roots(prog)}
    for f in prog.all_funcs():
        if f.blocks and not f.file.endswith('.c') and f.name not in PRIMITIVES:
            out.setdefault(f.q, f)
    return out


def nearest_roots(prog, f, rts=None):
    """{q: Func}: the first functions with external linkage / taken address met when walking up the
    direct callers of f (f itself when it is one).  The inlined nearest root is the smallest
    context in which every path through f is complete; what a must-analysis proves there holds
    in every wider context."""
    rts = root_map(prog) if rts is None else rts
    out, seen, work = {}, set(), [f]
    while work:
        x = work.pop()
        if x.q in seen:
            continue
        seen.add(x.q)
        if x.q in rts:
            out[x.q] = x
            continue
        for (c, e) in prog.callers_of(x.name):
            u = prog.unit_of(c)
            t = prog.resolve(u, e['callee']) if u else None
            if t is not None and t.q != x.q:
                continue
            work.append(c)
    return out


def inline(prog, f, **kw):
    """Inliner(prog, **kw).inline(f) with one more normalisation: a callee parameter that received a
    non-substitutable argument (`h@3 = fd->handler_err` for `run_band(fd, MASKERR, fd->handler_err)`) is a
    local of the inlined function, so copy propagation may replace its reads by the argument while that is
    still valid.  (core.copy_propagate only rewrites variables of kind 'local'; the inliner keeps kind
    'param' on renamed parameters.)  Likewise the reads of a helper's return temporary (`fd = $ret2` after
    `$ret2 = ev->data.ptr`) are wrapped in `load` nodes so that the value the helper returned is propagated."""
    from ..core import copy_propagate, subst
    g = Inliner(prog, **kw).inline(f)
    own = {p['name'] for p in f.params}
    n = 0
    for blk in g.blocks.values():
        for x in walk(blk.events):
            if x.get('k') == 'var' and x.get('vk') == 'param' and x['name'] not in own and '@' in x['name']:
                x['vk'] = 'local'
                n += 1
        if blk.term and blk.term.get('cond') is not None:
            for x in walk(blk.term['cond']):
                if x.get('k') == 'var' and x.get('vk') == 'param' and x['name'] not in own and '@' in x['name']:
                    x['vk'] = 'local'
                    n += 1
    # reads of return temporaries are bare variable nodes; copy propagation replaces `load` nodes only
    def wrap(nd):
        if nd.get('k') == 'load' and isinstance(nd.get('e'), dict) and nd['e'].get('k') == 'var':
            return dict(nd)
        if nd.get('k') == 'var' and nd['name'].startswith('$ret'):
            cnt[0] += 1
            return {'k': 'load', 'e': dict(nd)}
        return None
    cnt = [0]
    for blk in g.blocks.values():
        for e in blk.events:
            for key in ('rhs', 'args', 'fnexpr', 'value', 'init'):
                if key in e:
                    e[key] = subst(e[key], wrap)
        if blk.term and blk.term.get('cond') is not None:
            blk.term = dict(blk.term, cond=subst(blk.term['cond'], wrap))
    if n or cnt[0]:
        try:
            copy_propagate(g)
        except AnalysisBroken:
            pass
    # iteration 4: table-driven code.  A local counter that only ever holds constants (`for (i = 0; i < 3; i++)`) is eliminated by
    # partitioning the blocks per value of the counter (the loop is unrolled), elements of constant tables selected by a
    # constant index are the constants of the initialiser, and a local array that is only ever indexed by constants is a set of
    # scalar locals.  All three are refinements: every path of the result is a path of the source with the same events.
    nu = unroll_counters(g)
    if nu:
        # a helper parameter that received the counter (`run_band(st, fd, i)` with `switch (idx)` inside) is a constant local now
        from ..core import partition_flags
        try:
            partition_flags(g)
        except AnalysisBroken:
            pass
    nu += fold_const_tables(prog, g, f)
    nu += scalarise_arrays(g)
    if nu:
        try:
            copy_propagate(g)
        except AnalysisBroken:
            pass
    nf = fold_constant_branches(g)
    if nf:
        drop_unreachable(g)
    # iteration 2: decisions written as conditional expressions become branches, cached addresses become the
    # access path they denote (both are pure refinements: every path of the result is a path of the source)
    nc = expand_conditionals(g)
    na = addr_propagate(g)
    if na and nu and fold_const_tables(prog, g, f):
        # `b = &table[k]; switch (b->which)`: the record of a const table reached through a cached address
        if fold_constant_branches(g):
            drop_unreachable(g)
    if nf or nc or na or nu:
        try:
            # to a fixpoint: `$ret = fd->handler_in` (one definition left after a switch was folded); `handler = $ret`
            for _ in range(4):
                if not copy_propagate(g):
                    break
        except AnalysisBroken:
            pass
    if nc:
        from ..analyses import prune_infeasible
        prune_infeasible(g)
    drop_unreachable(g)
    return g


def _all_exprs(g):
    """every expression tree of g (events and branch conditions)"""
    for blk in g.blocks.values():
        for e in blk.events:
            yield e
        if blk.term and blk.term.get('cond') is not None:
            yield blk.term['cond']


def _counter_candidates(g, max_bound=16):
    """locals (address not taken) whose every definition is a statement `v = K`, `v++`, `v--`, `v += K`, `v -= K`, `v = v +- K`
    (K an integer literal), that are never modified inside an expression, and that some branch compares with a small integer
    literal (the bound of a counted loop over a fixed-size table)"""
    taken = _addr_taken(g)
    inits, steps, bad = {}, {}, set()

    def self_step(name, r):
        r = strip(r)
        if isinstance(r, dict) and r.get('k') == 'bin' and r.get('op') in ('+', '-'):
            if _is_read(r['l'] if isinstance(r['l'], dict) else {}, name) and const_value(r['r']) is not None:
                return True
            if r['op'] == '+' and _is_read(r['r'] if isinstance(r['r'], dict) else {}, name) and const_value(r['l']) is not None:
                return True
        return False
    for e in g.events():
        if e['ev'] == 'store':
            l = strip(e['lhs'])
            if l.get('k') == 'var' and l.get('vk') == 'local':
                nm, op = l['name'], e.get('op')
                if e.get('used'):
                    bad.add(nm)
                elif op == '=' and 'rhs' in e and isinstance(strip(e['rhs']), dict) and strip(e['rhs']).get('k') == 'int':
                    inits.setdefault(nm, []).append(e)
                elif op in ('++', '--') and 'rhs' not in e:
                    steps.setdefault(nm, []).append(e)
                elif op in ('+=', '-=') and 'rhs' in e and isinstance(strip(e['rhs']), dict) and strip(e['rhs']).get('k') == 'int':
                    steps.setdefault(nm, []).append(e)
                elif op == '=' and 'rhs' in e and self_step(nm, e['rhs']):
                    steps.setdefault(nm, []).append(e)
                else:
                    bad.add(nm)
    for x in _all_exprs(g):
        for nd in walk(x):
            if nd.get('k') in ('incdec', 'assign'):
                for y in walk(nd):
                    if y.get('k') == 'var':
                        bad.add(y['name'])
    bounded = set()
    for blk in g.blocks.values():
        c = blk.term.get('cond') if blk.term else None
        if c is None or len(blk.succ) < 2:
            continue
        for nd in walk(c):
            if nd.get('k') == 'bin' and nd.get('op') in ('<', '<=', '>', '>=', '!=', '=='):
                for a, b in ((nd['l'], nd['r']), (nd['r'], nd['l'])):
                    a, b = strip(a), strip(b)
                    if isinstance(a, dict) and a.get('k') == 'var' and isinstance(b, dict) and b.get('k') == 'int' and abs(b['v']) <= max_bound:
                        bounded.add(a['name'])
    return sorted(n for n in steps if n in inits and n not in bad and n not in taken and n in bounded), steps


def unroll_counters(g, cap=900):
    """Loop unrolling by value partitioning: for a counter local (see _counter_candidates) the blocks are split per value of the
    counter with the core's flag partitioning, which folds `i < 3`, `table[i]`'s index and `i = i + 1` for each known value; the
    counter is forgotten where it is dead, so only the counted loop is duplicated.  A loop whose trip count is not a constant
    exceeds the block cap and is left alone (everything is put back)."""
    from ..core import _partition_one
    done = 0
    tried = set()
    for _ in range(6):
        # partitioning copies the events: the candidates are looked up afresh for every counter
        names, steps = _counter_candidates(g)
        names = [n_ for n_ in names if n_ not in tried]
        if not names:
            break
        nm = names[0]
        tried.add(nm)
        saved_blocks = {b: (list(x.events), list(x.succ), x.term, x.noreturn) for b, x in g.blocks.items()}
        saved = (g.entry, g.exit)
        olds = []
        for e in steps[nm]:
            olds.append((e, e.get('op'), e.get('rhs'), 'rhs' in e))
            var = dict(strip(e['lhs']))
            rd = {'k': 'load', 'e': var}
            if e['op'] in ('++', '--'):
                e['rhs'] = {'k': 'bin', 'op': '+' if e['op'] == '++' else '-', 'l': rd, 'r': {'k': 'int', 'v': 1}, 'type': var.get('type', 'int')}
                e['op'] = '='
            elif e['op'] in ('+=', '-='):
                e['rhs'] = {'k': 'bin', 'op': e['op'][0], 'l': rd, 'r': e['rhs'], 'type': var.get('type', 'int')}
                e['op'] = '='
        ok = False
        try:
            ok = _partition_one(g, nm, cap)
        except AnalysisBroken:
            ok = False
        if ok:
            # a step reached with the value unknown was turned into a two-way split on its right-hand side: not a counter
            # with constant values
            def sets_counter(b_):
                ev_ = g.blocks[b_].events if b_ in g.blocks else []
                return bool(ev_) and ev_[0]['ev'] == 'store' and strip(ev_[0]['lhs']).get('k') == 'var' and strip(ev_[0]['lhs'])['name'] == nm
            if any(b.term and b.term.get('cls') == 'FlagSplit' and any(s_ is not None and sets_counter(s_) for s_ in b.succ)
                   for b in g.blocks.values()):
                ok = False
        if ok and any(strip(e['lhs']).get('k') == 'var' and strip(e['lhs'])['name'] == nm and strip(e['rhs']).get('k') != 'int'
                      for e in g.events() if e['ev'] == 'store' and 'rhs' in e):
            ok = False
        if ok and any(strip(e['lhs']).get('k') == 'var' and strip(e['lhs'])['name'] == nm and strip(e['rhs'])['v'] < 0
                      and any(t in str(strip(e['lhs']).get('type', '')) for t in ('unsigned', 'uint', 'size_t'))
                      for e in g.events() if e['ev'] == 'store' and 'rhs' in e):
            ok = False      # an unsigned counter stepped below zero wraps around: the integer model is not its value
        if not ok:
            for (e, op, rhs, had) in olds:
                e['op'] = op
                if had:
                    e['rhs'] = rhs
                else:
                    e.pop('rhs', None)
            _restore(g, saved_blocks, saved)
            _renumber(g)
            continue
        done += 1
    return done


def fold_const_tables(prog, g, root):
    """`T[k]` with k an integer literal and T a const-qualified array of integers with an initialiser list (file scope, or a
    local of the function) whose k-th element is an integer literal is that literal: the table cannot be written, so this is
    what the read yields"""
    from ..core import subst
    statics = {}
    for e in g.events():
        if e['ev'] == 'decl' and isinstance(e.get('init'), dict) and e['init'].get('k') == 'init' \
                and str(e.get('type', '')).startswith('const ') and '*' not in str(e.get('type', '')):
            statics[e['name']] = e['init'].get('elems')
    unit = prog.unit_of(root)
    n = [0]

    def table(v, origin):
        if v.get('vk') in ('local', 'param'):
            return statics.get(v['name']) if v.get('vk') == 'local' else None
        if v['name'] in statics:
            return statics[v['name']]
        u = unit
        if origin and origin in prog.funcs:
            u = prog.unit_of(prog.funcs[origin]) or unit
        gl = prog.global_for(u, v['name']) if u else prog.globals.get(v['name'])
        if gl and not gl.get('extern_decl') and str(gl.get('type', '')).startswith('const ') and '*' not in str(gl.get('type', '')) and isinstance(gl.get('init'), dict) \
                and gl['init'].get('k') == 'init':
            return gl['init'].get('elems')
        return None

    def rewriter(origin):
        def r(nd):
            if nd.get('k') == 'load' and isinstance(nd.get('e'), dict) and nd['e'].get('k') == 'index':
                ix = nd['e']
                b, i = strip(ix.get('base')), strip(ix.get('idx'))
                if isinstance(b, dict) and b.get('k') == 'var' and isinstance(i, dict) and i.get('k') == 'int':
                    el = table(b, origin)
                    if el and 0 <= i['v'] < len(el) and isinstance(el[i['v']], dict) and el[i['v']].get('k') == 'int':
                        n[0] += 1
                        return dict(el[i['v']])
            if nd.get('k') == 'load' and isinstance(nd.get('e'), dict) and nd['e'].get('k') == 'member' and not nd['e'].get('arrow'):
                # T[k].field of a const table of records
                ix = strip(nd['e'].get('base'))
                if isinstance(ix, dict) and ix.get('k') == 'index':
                    b, i = strip(ix.get('base')), strip(ix.get('idx'))
                    if isinstance(b, dict) and b.get('k') == 'var' and isinstance(i, dict) and i.get('k') == 'int':
                        el = table(b, origin)
                        if el and 0 <= i['v'] < len(el) and isinstance(el[i['v']], dict) and el[i['v']].get('k') == 'init':
                            fv = (el[i['v']].get('fields') or {}).get(nd['e'].get('field'))
                            if isinstance(fv, dict) and fv.get('k') == 'int':
                                n[0] += 1
                                return dict(fv)
            return None
        return lambda x: subst(x, r)
    from ..core import fold
    for blk in g.blocks.values():
        keep = []
        for e in blk.events:
            m = n[0]
            if e['ev'] == 'load':
                y = rewriter(e.get('fn'))({'k': 'load', 'e': e['e']})
                if n[0] != m and isinstance(y, dict) and y.get('k') == 'int':
                    continue        # the separate read event of a table element that is a constant now
                n[0] = m
                e['e'] = rewriter(e.get('fn'))(e['e'])
            else:
                _rewrite_event(e, rewriter(e.get('fn')))
            if n[0] != m:
                for key in _EXPR_KEYS:
                    if key in e:
                        e[key] = fold(e[key])
            keep.append(e)
        blk.events[:] = keep
        if blk.term and blk.term.get('cond') is not None:
            m = n[0]
            c = rewriter(None)(blk.term['cond'])
            if n[0] != m:
                blk.term = dict(blk.term, cond=fold(c))
    if n[0]:
        _renumber(g)
    return n[0]


def scalarise_arrays(g):
    """a local array (not static) every occurrence of which is `A[k]` with k an integer literal inside the bound is replaced by the
    scalar locals `A$k` (scalar replacement of aggregates), so that `slot[1] = &fd->handler_in; ... (*slot[1])(...)` is seen by
    address / copy propagation like `p = &fd->handler_in; (*p)(...)`"""
    from ..core import subst
    arrays = {}
    for e in g.events():
        if e['ev'] == 'decl' and 'bound' in e and not e.get('static') and isinstance(e.get('bound'), int):
            arrays[e['name']] = e
    if not arrays:
        return 0
    total, good = {}, {}
    for x in _all_exprs(g):
        for nd in walk(x):
            if nd.get('k') == 'var' and nd.get('name') in arrays:
                total[nd['name']] = total.get(nd['name'], 0) + 1
            if nd.get('k') == 'index':
                b, i = nd.get('base'), strip(nd.get('idx'))
                if isinstance(b, dict) and b.get('k') == 'var' and b.get('name') in arrays and isinstance(i, dict) and i.get('k') == 'int' \
                        and 0 <= i['v'] < arrays[b['name']]['bound']:
                    good[b['name']] = good.get(b['name'], 0) + 1
    names = {a for a in arrays if total.get(a) and total.get(a) == good.get(a)
             and not (isinstance(arrays[a].get('init'), dict) and arrays[a]['init'].get('k') != 'init')}
    if not names:
        return 0
    n = [0]

    def r(nd):
        if nd.get('k') == 'index' and isinstance(nd.get('base'), dict) and nd['base'].get('k') == 'var' and nd['base'].get('name') in names:
            n[0] += 1
            out = {'k': 'var', 'name': '%s$%d' % (nd['base']['name'], strip(nd['idx'])['v']), 'vk': 'local'}
            if 'type' in nd:
                out['type'] = nd['type']
            return out
        return None
    for blk in g.blocks.values():
        out = []
        for e in blk.events:
            if e['ev'] == 'load':
                e['e'] = subst(e['e'], r)
            else:
                for key in _EXPR_KEYS:
                    if key in e:
                        e[key] = subst(e[key], r)
                if e['ev'] == 'store':
                    e['lhs'] = subst(e['lhs'], r)
            out.append(e)
            if e['ev'] == 'decl' and e.get('name') in names and isinstance(e.get('init'), dict) and e['init'].get('k') == 'init':
                # initialiser list: one store per element
                for k, el in enumerate(e['init'].get('elems') or []):
                    out.append({'ev': 'store', 'op': '=', 'lhs': {'k': 'var', 'name': '%s$%d' % (e['name'], k), 'vk': 'local'},
                                'rhs': subst(el, r), 'loc': e.get('loc', ''), 'used': False, 'from_decl': True,
                                'fn': e.get('fn'), 'chain': e.get('chain', [])})
                    n[0] += 1
        blk.events[:] = out
        if blk.term and blk.term.get('cond') is not None:
            blk.term = dict(blk.term, cond=subst(blk.term['cond'], r))
    _renumber(g)
    return n[0]


def fold_constant_branches(g):
    """a branch whose condition is a constant after parameter substitution (`helper(..., 1)` with `if (flag)`
    inside) has one successor"""
    from ..core import fold
    n = 0
    for blk in g.blocks.values():
        if blk.term and blk.term.get('cond') is not None and blk.term.get('cls') == 'SwitchStmt' and len(blk.succ) >= 2:
            # `switch (band)` in a helper called with a constant
            c = strip(fold(blk.term['cond']))
            cases = blk.term.get('cases', [])
            if isinstance(c, dict) and c.get('k') == 'int' and len(cases) == len(blk.succ):
                pick = [s_ for s_, cv in zip(blk.succ, cases) if cv == c['v']] or [s_ for s_, cv in zip(blk.succ, cases) if cv == 'default']
                if pick:
                    blk.succ = [pick[0]]
                    blk.term = dict(blk.term, cls='Pruned')
                    blk.term.pop('cond', None)
                    n += 1
            continue
        if blk.term and blk.term.get('cond') is not None and len(blk.succ) == 2 and blk.term.get('cls') not in ('SwitchStmt', 'MethodDispatch'):
            c = strip(fold(blk.term['cond']))
            if isinstance(c, dict) and c.get('k') in ('int', 'null'):
                v = c['v'] if c.get('k') == 'int' else 0
                blk.succ = [blk.succ[0] if v else blk.succ[1]]
                blk.term = dict(blk.term, cls='Pruned', pruned=('false' if v else 'true'))
                blk.term.pop('cond', None)
                n += 1
    if n:
        g._preds = None
    return n


def _renumber(g):
    g._preds = None
    for b in g.blocks.values():
        for i, e in enumerate(b.events):
            e['_b'] = b.id
            e['_i'] = i


def drop_unreachable(g):
    keep = set(g.reachable_blocks()) | {g.exit}
    for b in [b for b in g.blocks if b not in keep]:
        del g.blocks[b]
    _renumber(g)


def _addr_taken(g):
    out = set()
    for blk in g.blocks.values():
        for x in walk(blk.events):
            if x.get('k') == 'addr':
                v = strip(x['e'])
                if isinstance(v, dict) and v.get('k') == 'var':
                    out.add(v['name'])
    return out


def _is_read(nd, name):
    return nd.get('k') == 'load' and isinstance(nd.get('e'), dict) and nd['e'].get('k') == 'var' and nd['e']['name'] == name


_EXPR_KEYS = ('rhs', 'args', 'fnexpr', 'value', 'init')


def _rewrite_event(e, fn):
    """apply the expression rewriter fn to every expression an event reads (not to a plain-variable store target)"""
    if e['ev'] == 'load':
        e['e'] = fn(e['e'])
        return
    for key in _EXPR_KEYS:
        if key in e:
            e[key] = fn(e[key])
    if e['ev'] == 'store' and strip(e['lhs']).get('k') != 'var':
        e['lhs'] = fn(e['lhs'])


def expand_conditionals(g, cap=900):
    """`X = c ? a : b` becomes `if (c) X = a; else X = b;`; when X is a local whose address is not taken the two arms
    stay separate paths for as long as that value of X is read (`h = (bits & M) ? fd->handler : NULL; if (h) h(c);`
    is `if (bits & M) { h = fd->handler; if (h) h(c); } else { h = NULL; if (h) ... }`).
    Done with the core's flag partitioning: the condition is stored into a fresh flag `$selN`, the store selects on
    the flag, and every read of X that only this store reaches is wrapped in `$selN ? X : X`, which keeps the flag
    live; partitioning on the flag then duplicates exactly that region and folds the selections away."""
    from ..core import _partition_one, _truth, _is_boolean_expr, subst, forward
    done = 0
    taken = _addr_taken(g)
    for _ in range(12):
        tgt = None
        for blk in g.blocks.values():
            for i, e in enumerate(blk.events):
                if e['ev'] == 'store' and e.get('op') == '=' and 'rhs' in e and not e.get('_noexp'):
                    r = strip(e['rhs'])
                    if isinstance(r, dict) and r.get('k') == 'cond' and all(k in r for k in ('c', 'a', 'b')):
                        tgt = (blk, i, e, r)
                        break
            if tgt:
                break
        if not tgt:
            break
        blk, i, e, r = tgt
        k = g.__dict__.get('_h03_nsel', 0) + 1
        g.__dict__['_h03_nsel'] = k
        sel = '$sel%d' % k
        selvar = {'k': 'var', 'name': sel, 'vk': 'local', 'type': 'int'}
        rd = lambda: {'k': 'load', 'e': dict(selvar)}
        saved_rhs = e['rhs']
        saved_blocks = {b: (list(x.events), list(x.succ), x.term, x.noreturn) for b, x in g.blocks.items()}
        saved = (g.entry, g.exit)
        c = r['c'] if _is_boolean_expr(r['c']) else _truth(r['c'])
        l = strip(e['lhs'])
        guards = []
        if l.get('k') == 'var' and l.get('vk') == 'local' and l['name'] not in taken:
            v = l['name']

            def tr(x, S, v=v):
                return frozenset({id(x)}) if redefines(x, v) else S
            _, ev_in = forward(g, frozenset(), tr, lambda a, b: a | b)
            only = frozenset({id(e)})

            def guard(x, v=v):
                return subst(x, lambda nd: {'k': 'cond', 'c': rd(), 'a': dict(nd), 'b': dict(nd), '_guard': True} if _is_read(nd, v) else None)
            for b2, blk2 in g.blocks.items():
                for j, e2 in enumerate(blk2.events):
                    if e2 is not e and ev_in.get((b2, j)) == only:
                        guards.append((e2, {key: e2[key] for key in _EXPR_KEYS + ('lhs', 'e') if key in e2}))
                        _rewrite_event(e2, guard)
                if blk2.term and blk2.term.get('cond') is not None and ev_in.get((b2, len(blk2.events))) == only:
                    blk2.term = dict(blk2.term, cond=guard(blk2.term['cond']))
        e['rhs'] = {'k': 'cond', 'c': rd(), 'a': r['a'], 'b': r['b']}
        blk.events.insert(i, {'ev': 'store', 'lhs': dict(selvar), 'op': '=', 'rhs': c, 'loc': e.get('loc', '')})
        _renumber(g)
        ok = False
        try:
            ok = _partition_one(g, sel, cap)
        except AnalysisBroken:
            ok = False
        if not ok:
            # too large: put everything back and leave this store alone
            for (e2, old) in guards:
                e2.update(old)
            _restore(g, saved_blocks, saved)
            e['rhs'] = saved_rhs
            e['_noexp'] = True
            _renumber(g)
            continue
        done += 1

        # selections that partitioning could not decide are reads of the variable itself
        def unguard(nd):
            if nd.get('k') == 'cond' and nd.get('_guard'):
                return subst(nd['a'], unguard)
            return None
        for blk2 in g.blocks.values():
            for e2 in blk2.events:
                _rewrite_event(e2, lambda x: subst(x, unguard))
            if blk2.term and blk2.term.get('cond') is not None:
                blk2.term = dict(blk2.term, cond=subst(blk2.term['cond'], unguard))
    return done


def _restore(g, saved_blocks, saved):
    from ..core import Block
    g.blocks = {b: Block(b, evs, succ, term, nr) for b, (evs, succ, term, nr) in saved_blocks.items()}
    g.entry, g.exit = saved


def _addr_reads(x):
    """what the value of an address expression depends on: variables, and memory read on the way to the object"""
    keys = set()
    for nd in walk(x):
        k = nd.get('k')
        if k == 'var':
            keys.add(('var', nd['name']))
        elif k == 'load':
            t = nd.get('e')
            while isinstance(t, dict) and t.get('k') in ('load', 'cast') and 'e' in t:
                t = t['e']
            if isinstance(t, dict) and t.get('k') == 'member':
                keys.add((t.get('record'), t['field']))
            elif isinstance(t, dict) and t.get('k') in ('deref', 'index'):
                keys.add(('mem', '*'))
    return frozenset(keys)


def addr_propagate(g):
    """`p = &OBJ->field` / `p = &arr[i]` held in a local whose own address is not taken: reads of p are replaced by the
    address expression while it still denotes the same location (p and every variable the expression reads unchanged,
    no store to a pointer field it reads, no call into unknown code when it reads memory), then `(&X)->f` is `X.f` and
    `*(&X)` is `X`.  Afterwards a list node, a readiness byte or a kernel entry reached through a cached address is
    spelled like a direct access."""
    import json
    from ..core import forward, simplify, subst, _pure_path, PURE_CALLS
    taken = _addr_taken(g)

    def defn(e):
        if e['ev'] == 'store' and e.get('op') == '=' and 'rhs' in e:
            l = strip(e['lhs'])
            if l.get('k') == 'var' and l.get('vk') == 'local' and l['name'] not in taken:
                r = strip(e['rhs'])
                if isinstance(r, dict) and r.get('k') == 'addr' and isinstance(strip(r['e']), dict) \
                        and strip(r['e']).get('k') in ('member', 'index') and _pure_path(r):
                    reads = _addr_reads(r)
                    if ('var', l['name']) not in reads and sum(1 for _ in walk(r)) <= 40:
                        return l['name'], r, reads
        return None
    if not any(defn(e) for e in g.events()):
        return _deref_addr(g)

    def transfer(e, S):
        kills = set()
        if e['ev'] == 'store':
            kills.update(lvalue_steps(e['lhs']))
            l = strip(e['lhs'])
            if l.get('k') == 'var':
                kills.add(('var', l['name']))
            if l.get('k') in ('deref', 'index') and not lvalue_steps(e['lhs']):
                kills.add(('mem', '*'))
        elif e['ev'] == 'decl':
            kills.add(('var', e['name']))
        elif e['ev'] == 'call':
            for a in e.get('args', []):
                a = strip(a)
                if isinstance(a, dict) and a.get('k') == 'addr':
                    v = strip(a['e'])
                    if isinstance(v, dict) and v.get('k') == 'var':
                        kills.add(('var', v['name']))
            if e.get('callee') in LIST_PRIMS:
                if e['callee'] != 'iv_list_empty':
                    S = frozenset(x for x in S if not any(k[0] == 'iv_list_head' for k in x[2]))
            elif 'fnexpr' in e or (e.get('callee') and e['callee'] not in PURE_CALLS):
                S = frozenset(x for x in S if all(k[0] == 'var' for k in x[2]))
        if kills:
            S = frozenset(x for x in S if not (x[2] & kills) and ('var', x[0]) not in kills)
        d = defn(e)
        if d:
            S = frozenset(x for x in S if x[0] != d[0]) | {(d[0], json.dumps(d[1], sort_keys=True), d[2])}
        return S
    _, ev_in = forward(g, frozenset(), transfer, lambda a, b: a & b)
    n = [0]

    def rewriter(S):
        avail = {v: ex for (v, ex, _) in S}

        def r(nd):
            if nd.get('k') == 'load' and isinstance(nd.get('e'), dict) and nd['e'].get('k') == 'var' \
                    and nd['e'].get('vk') == 'local' and nd['e']['name'] in avail:
                n[0] += 1
                out = json.loads(avail[nd['e']['name']])
                out['_was'] = nd['e']['name']
                return out
            return None

        def fn(x):
            m = n[0]
            y = subst(x, r)
            return simplify(y) if n[0] != m else x
        return fn
    for b, blk in g.blocks.items():
        for i, e in enumerate(blk.events):
            S = ev_in.get((b, i))
            if S:
                _rewrite_event(e, rewriter(S))
        S = ev_in.get((b, len(blk.events)))
        if S and blk.term and blk.term.get('cond') is not None:
            blk.term = dict(blk.term, cond=rewriter(S)(blk.term['cond']))
    return n[0] + _deref_addr(g)


def _deref_addr(g):
    """an out-parameter that received `&local`: `*&local` is `local`, `(&local)->f` is `local.f` (also behind the load
    node the substituted parameter read leaves)"""
    from ..core import subst
    n = [0]

    def r(nd):
        if nd.get('k') == 'deref' and isinstance(strip(nd.get('e')), dict) and strip(nd['e']).get('k') == 'addr':
            n[0] += 1
            return subst(strip(nd['e'])['e'], r)
        if nd.get('k') == 'member' and nd.get('arrow') and isinstance(strip(nd.get('base')), dict) and strip(nd['base']).get('k') == 'addr' \
                and isinstance(nd['base'], dict) and nd['base'].get('k') != 'cast':
            n[0] += 1
            return dict(nd, arrow=False, base=subst(strip(nd['base'])['e'], r))
        return None
    for blk in g.blocks.values():
        for e in blk.events:
            _rewrite_event(e, lambda x: subst(x, r))
        if blk.term and blk.term.get('cond') is not None:
            m = n[0]
            c = subst(blk.term['cond'], r)
            if n[0] != m:
                blk.term = dict(blk.term, cond=c)
    return n[0]


LIST_PRIMS = ('iv_list_add', 'iv_list_add_tail', 'iv_list_del', 'iv_list_del_init', 'INIT_IV_LIST_HEAD', 'iv_list_empty')


def inlined(prog, f):
    """inline(prog, f), cached on the program object (roles.inlined keys its cache by id(prog), which is
    reused when several programs are loaded in one process)"""
    cache = prog.__dict__.setdefault('_h03_inlined', {})
    if f.q not in cache:
        cache[f.q] = inline(prog, f)
    return cache[f.q]


def normalised(prog, f):
    """f alone (nothing inlined) with the normalisations of `inline` (cached addresses, conditional expressions)"""
    cache = prog.__dict__.setdefault('_h03_norm', {})
    if f.q not in cache:
        cache[f.q] = inline(prog, f, stop=lambda t: True)
    return cache[f.q]


def _mentions(f, keys):
    for b in f.blocks.values():
        for x in walk(b.events):
            if x.get('k') == 'member' and (x.get('record'), x.get('field')) in keys:
                return True
    return False


def functions_with(prog, pred, keys):
    """functions with an event satisfying pred, judged on their normalised form (a list node or a field reached
    through a cached address counts); only functions that mention one of the (record, field) keys are looked at"""
    out = []
    for f in sorted(prog.all_funcs(), key=lambda f: f.q):
        if f.blocks and _mentions(f, keys) and any(pred(e) for e in normalised(prog, f).events()):
            out.append(f)
    return out


def dispatch_contexts(prog):
    """[(root, inlined root, [handler call sites])]: every smallest root context that contains
    a call through a band handler of a descriptor.  Candidates are all functions that mention
    a handler field (the pointer may reach the call through a local or a helper parameter)."""
    rts = root_map(prog)
    need = {}
    for f in sorted(prog.all_funcs(), key=lambda f: f.q):
        if f.blocks and _mentions_handler(f):
            need.update(nearest_roots(prog, f, rts))
    out = []
    for q in sorted(need):
        g = inlined(prog, need[q])
        sites = [e for e in g.events() if handler_field(e) or stale_handler(g, e)]
        if sites:
            out.append((need[q], g, sites))
    return out


def list_member_arg(e, i=0):
    """(record, field), canon of the owning object for an argument of the form &OBJ->field"""
    a = strip(e['args'][i]) if len(e.get('args', [])) > i else None
    if isinstance(a, dict) and a.get('k') == 'addr':
        m = strip(a['e'])
        if isinstance(m, dict) and m.get('k') == 'member':
            return (m.get('record'), m['field']), canon(m['base'])
    return None, None


def is_link(e, key=(FD, 'list_active')):
    return is_call(e, ('iv_list_add', 'iv_list_add_tail')) and list_member_arg(e)[0] == key


def is_unlink(e, key=(FD, 'list_active')):
    return is_call(e, ('iv_list_del', 'iv_list_del_init')) and list_member_arg(e)[0] == key


def is_unlink_call(e):
    return is_call(e, ('iv_list_del', 'iv_list_del_init'))


def container_node(e, key):
    """for `V = container_of(N, record, field)` with (record, field) == key: (canon of N, variables N reads)"""
    if e['ev'] != 'store' or e.get('op') != '=' or 'rhs' not in e:
        return None
    r = strip(e['rhs'])
    if isinstance(r, dict) and r.get('k') == 'container_of' and (r.get('record'), r.get('member')) == key:
        return (canon(r['e']), frozenset(x['name'] for x in walk(r['e']) if x.get('k') == 'var'))
    return None


def may_change_lists(e, names=frozenset()):
    """the event may change which node a list-node expression denotes (any list primitive, any store to a
    list pointer or to a plain variable, any call into unknown code)"""
    if e['ev'] == 'store':
        if any(st[0] == 'iv_list_head' for st in lvalue_steps(e['lhs'])):
            return True
        l = strip(e['lhs'])
        if isinstance(l, dict) and l.get('k') == 'var':
            return l['name'] in names
        return isinstance(l, dict) and l.get('k') in ('deref', 'index')
    if e['ev'] == 'decl':
        return e.get('name') in names
    if e['ev'] == 'call':
        return e.get('callee') != 'iv_list_empty'
    return False


def writes_field(e, rec, field):
    return e['ev'] == 'store' and (rec, field) in lvalue_steps(e['lhs'])


def redefines(e, name):
    if e['ev'] == 'decl':
        return e.get('name') == name
    if e['ev'] == 'store':
        l = strip(e['lhs'])
        return isinstance(l, dict) and l.get('k') == 'var' and l['name'] == name
    return False


# ---------------------------------------------------------------------------------------
# branch facts with expressions
# ---------------------------------------------------------------------------------------

def cond_table(g):
    """{(op, lhs canon, rhs canon): (lhs expr, rhs expr)} of every conditional edge of g"""
    tab = {}
    for blk in g.blocks.values():
        if not blk.term or len(blk.succ) != 2 or blk.term.get('cond') is None:
            continue
        if blk.term.get('cls') in ('SwitchStmt', 'MethodDispatch'):
            continue
        for pol in (True, False):
            for (op, lc, rc, l, r) in norm_cond(blk.term['cond'], pol):
                if op != 'const':
                    tab.setdefault((op, lc, rc), (l, r))
    return tab


def facts(g):
    """at(event) -> [(op, lhs expr, rhs expr)]: branch facts that hold on every path to the event
    and that nothing executed since (store to a location they read, user callback) may have
    invalidated (`holding` with callbacks killing everything read through memory)."""
    hd = holding(g, user_call_kills=True)
    tab = cond_table(g)

    def at(e):
        out = []
        for a in hd.get((e['_b'], e['_i']), frozenset()):
            lr = tab.get((a[0], a[1], a[2]))
            if lr is not None:
                out.append((a[0], lr[0], lr[1]))
        return out
    return at


_CMP = {'==': lambda a, b: a == b, '!=': lambda a, b: a != b, '<': lambda a, b: a < b, '>': lambda a, b: a > b,
        '<=': lambda a, b: a <= b, '>=': lambda a, b: a >= b}
_ARITH = {'&': lambda a, b: a & b, '|': lambda a, b: a | b, '^': lambda a, b: a ^ b, '+': lambda a, b: a + b,
          '-': lambda a, b: a - b, '*': lambda a, b: a * b, '<<': lambda a, b: a << b if 0 <= b < 32 else None,
          '>>': lambda a, b: a >> b if 0 <= b < 32 else None}


def ev3(x, leaf):
    """Value of an expression when the locations `leaf` knows have the values it returns;
    None = depends on something else."""
    x = strip(x)
    if not isinstance(x, dict):
        return None
    k = x.get('k')
    if k == 'int':
        return x['v']
    if k == 'null':
        return 0
    if k == 'paren':
        return ev3(x.get('e'), leaf)
    v = leaf(x)
    if v is not None:
        return v
    if k == 'un':
        a = ev3(x['e'], leaf)
        if a is None:
            return None
        return {'!': int(not a), '~': ~a, '-': -a, '+': a}.get(x['op'])
    if k == 'bin':
        op = x['op']
        a, b = ev3(x['l'], leaf), ev3(x['r'], leaf)
        if op == '&&':
            if a == 0 or b == 0:
                return 0
            return None if a is None or b is None else 1
        if op == '||':
            if (a is not None and a != 0) or (b is not None and b != 0):
                return 1
            return None if a is None or b is None else 0
        if op == '&' and (a == 0 or b == 0):
            return 0
        if a is None or b is None:
            return None
        if op in _CMP:
            return int(_CMP[op](a, b))
        if op in _ARITH:
            return _ARITH[op](a, b)
        return None
    if k == 'cond':
        c = ev3(x['c'], leaf)
        if c is None:
            a, b = ev3(x['a'], leaf), ev3(x['b'], leaf)
            return a if a == b else None
        return ev3(x['a'] if c else x['b'], leaf)
    return None


def refuted(atoms, leaf):
    """some fact that holds is false under this valuation (so the valuation is impossible here)"""
    for (op, l, r) in atoms:
        a, b = ev3(l, leaf), ev3(r, leaf)
        if a is None or b is None or op not in _CMP:
            continue
        if not _CMP[op](a, b):
            return True
    return False


def field_leaf(obj, values):
    """leaf valuation: OBJ->field has values[field] for the object denoted by canon `obj`"""
    def leaf(x):
        if x.get('k') == 'member' and x.get('record') in FD_RECORDS and x.get('field') in values \
                and canon(x['base']) == obj:
            return values[x['field']]
        return None
    return leaf


# ---------------------------------------------------------------------------------------
# kernel tokens
# ---------------------------------------------------------------------------------------

def kernel_entry_ptr(x):
    """x is the user-data pointer of a kernel event entry (epoll_event.data.ptr)"""
    m = strip(x)
    return isinstance(m, dict) and m.get('k') == 'member' and (m.get('record'), m.get('field')) == ('epoll_data', 'ptr')


def abstract_token(x):
    """A value stored as kernel user data with the per-thread state pointer abstracted:
    ('state', ()) the state pointer itself, ('state', ((rec, field), ...)) the address of a member
    path inside the state, ('fd',) a descriptor, ('expr', text) anything else."""
    x = strip(x)
    if not isinstance(x, dict):
        return ('expr', str(x))
    if x.get('k') == 'var' and x.get('ptr'):
        if x.get('record') == 'iv_state':
            return ('state', ())
        if x.get('record') in FD_RECORDS:
            return ('fd',)
    if x.get('k') == 'addr':
        steps = []
        m = strip(x['e'])
        while isinstance(m, dict) and m.get('k') == 'member':
            steps.append((m.get('record'), m['field']))
            b = strip(m['base'])
            if m['arrow']:
                if isinstance(b, dict) and b.get('k') == 'var' and b.get('record') == 'iv_state' and b.get('ptr'):
                    return ('state', tuple(reversed(steps)))
                break
            m = b
    return ('expr', canon(x))


def stored_tokens(prog):
    """{abstract token: [functions that decide it]} over every store to the user-data pointer of a kernel
    entry; a value that is an untyped parameter of the storing function is followed to the arguments of its
    callers (a shared `register this token` helper)."""
    def resolve(f, x, depth):
        v = strip(x)
        if isinstance(v, dict) and v.get('k') == 'var' and v.get('vk') == 'param' and abstract_token(v)[0] == 'expr' and depth < 4:
            idx = [i for i, p in enumerate(f.params) if p['name'] == v['name']]
            callers = []
            for (c, e) in prog.callers_of(f.name):
                u = prog.unit_of(c)
                t = prog.resolve(u, e['callee']) if u else None
                if t is None or t.q == f.q:
                    callers.append((c, e))
            if idx and callers:
                for (c, e) in callers:
                    if len(e.get('args', [])) > idx[0]:
                        yield from resolve(c, e['args'][idx[0]], depth + 1)
                return
        yield (abstract_token(x), f)
    toks = {}
    for f in sorted(prog.all_funcs(), key=lambda f: f.q):
        for e in f.events():
            if e['ev'] == 'store' and e.get('op') == '=' and 'rhs' in e and kernel_entry_ptr(e['lhs']):
                for (t, fn) in resolve(f, e['rhs'], 0):
                    toks.setdefault(t, []).append(fn)
            elif e['ev'] in ('decl', 'store'):
                # a kernel entry built by an initialiser list / compound literal: { .events = M, .data = { .ptr = X } }
                for x in init_user_data(e.get('init') if e['ev'] == 'decl' else e.get('rhs')):
                    for (t, fn) in resolve(f, x, 0):
                        toks.setdefault(t, []).append(fn)
    return toks


def init_user_data(x):
    """user-data pointer expressions of the epoll_event initialiser lists inside x"""
    for nd in walk(x) if isinstance(x, (dict, list)) else ():
        if nd.get('k') == 'init' and nd.get('record') == 'epoll_event':
            d = (nd.get('fields') or {}).get('data')
            if d is None and len(nd.get('elems') or []) > 1:
                d = nd['elems'][1]
            if isinstance(d, dict) and d.get('k') == 'init':
                if 'ptr' in (d.get('fields') or {}):
                    yield d['fields']['ptr']
                elif d.get('elems') and not d.get('fields'):
                    yield d['elems'][0]


def token_name(tok):
    if tok[0] == 'state':
        return 'state' if not tok[1] else '&state->' + '.'.join(f for _, f in tok[1])
    return tok[-1]


# ---------------------------------------------------------------------------------------
# success of the kernel wait
# ---------------------------------------------------------------------------------------

def wait_succeeded(g):
    """{(block, index): (variables that hold the result of the last kernel wait, proven)}: proven = since the
    last kernel wait a branch was taken whose condition is false when that wait returned -1.  Formulated on the
    edges passed (not on facts still holding) because an inner declaration may shadow the result variable."""
    def derived(rhs, vars_):
        r = strip(rhs)
        if isinstance(r, dict) and r.get('k') == 'call' and r.get('callee') in WAITS:
            return 'wait'
        if isinstance(r, dict) and r.get('k') == 'var' and r['name'] in vars_:
            return 'copy'
        return None

    def tr(e, S):
        vars_, proven = S
        if e['ev'] == 'call' and e.get('callee') in WAITS:
            return (frozenset(), False)
        if e['ev'] == 'store':
            l = strip(e['lhs'])
            if isinstance(l, dict) and l.get('k') == 'var':
                d = derived(e.get('rhs'), vars_) if e.get('op') == '=' and 'rhs' in e else None
                if d == 'wait':
                    return (frozenset({l['name']}), False)
                if d == 'copy':
                    return (vars_ | {l['name']}, proven)
                return (vars_ - {l['name']}, proven)
        elif e['ev'] == 'decl':
            return (vars_ - {e.get('name')}, proven)
        return S

    # loop counters: locals that only ever receive non-negative constants and increments
    cnt, notcnt = set(), set()
    for e in g.events():
        if e['ev'] == 'store':
            l = strip(e['lhs'])
            if isinstance(l, dict) and l.get('k') == 'var':
                c = const_value(e['rhs']) if 'rhs' in e else None
                if (e.get('op') == '=' and c is not None and c >= 0) or e.get('op') == '++' or (e.get('op') == '+=' and c is not None and c > 0):
                    cnt.add(l['name'])
                else:
                    notcnt.add(l['name'])
        for x in walk(e):
            if x.get('k') == 'addr':
                v = strip(x['e'])
                if isinstance(v, dict) and v.get('k') == 'var':
                    notcnt.add(v['name'])
            if x.get('k') in ('incdec', 'assign'):
                v = strip(x.get('e') or x.get('l'))
                if isinstance(v, dict) and v.get('k') == 'var':
                    notcnt.add(v['name'])
    cnt -= notcnt

    def edge(blk, si, S):
        vars_, proven = S
        if proven or not vars_ or not blk.term or blk.term.get('cond') is None or len(blk.succ) != 2:
            return S
        if blk.term.get('cls') in ('SwitchStmt', 'MethodDispatch'):
            return S
        atoms = [(op, l, r) for (op, lc, rc, l, r) in norm_cond(blk.term['cond'], si == 0) if op != 'const']
        # only conditions about the wait result count; a non-negative counter compared with it is tried with samples
        atoms = [a for a in atoms if any(x.get('k') == 'var' and x['name'] in vars_ for x in walk([a[1], a[2]]))]
        ok = bool(atoms)
        for sample in (0, 1, 2, 2 ** 31 - 1):
            leaf = lambda x, sample=sample: (-1 if x['name'] in vars_ else sample if x['name'] in cnt else None) if x.get('k') == 'var' else None
            if not refuted(atoms, leaf):
                ok = False
        return (vars_, True) if ok else S

    def join(a, b):
        return (a[0] & b[0], a[1] and b[1])
    from ..core import forward
    _, ev_in = forward(g, (frozenset(), False), tr, join, edge=edge)
    return ev_in


# ---------------------------------------------------------------------------------------
# user code between the kernel wait and the use of what it reported (R-C03g)
# ---------------------------------------------------------------------------------------

def user_code_summary(prog):
    """{q} of the functions that may run user code: they contain a call through a handler field of a library object
    (analyses.CALLBACK_FIELDS: descriptor, task, timer, event, ... handlers), or they call -- directly or through a poll
    method slot -- a function that does.  Fixpoint over the call graph; no function name is looked at."""
    c = prog.__dict__.get('_h03_usercode')
    if c is not None:
        return c
    from ..analyses import callback_kind
    funcs = [f for f in prog.all_funcs() if f.blocks]
    may = set()
    calls = {}
    for f in funcs:
        u = prog.unit_of(f)
        out = set()
        for e in f.events():
            if e['ev'] != 'call':
                continue
            if 'fnexpr' in e:
                ck = callback_kind(e)
                if ck and ck[0] == 'callback':
                    may.add(f.q)
                elif ck and ck[0] == 'method':
                    out |= {t.q for t in prog.slot_targets(ck[1])}
            elif e.get('callee'):
                t = prog.resolve(u, e['callee'])
                if t is not None:
                    out.add(t.q)
        calls[f.q] = out
    changed = True
    while changed:
        changed = False
        for q, out in calls.items():
            if q not in may and out & may:
                may.add(q)
                changed = True
    prog.__dict__['_h03_usercode'] = may
    return may


def user_code_event(prog, e):
    """what user code the call event may run (None: none): a call through a handler field of a library object, a call of a
    function (still a call after inlining) or of a poll-method slot that may reach one"""
    if e['ev'] != 'call':
        return None
    from ..analyses import callback_kind
    may = user_code_summary(prog)
    if 'fnexpr' in e:
        ck = callback_kind(e)
        if ck and ck[0] == 'callback':
            return '%s handler' % ck[1]
        if ck and ck[0] == 'method' and any(t.q in may for t in prog.slot_targets(ck[1])):
            return 'method slot %s' % ck[1]
        return None
    name = e.get('callee')
    if name and any(f.name == name and f.q in may for f in prog.all_funcs()):
        return '%s()' % name
    return None


def user_code_since_wait(prog, g):
    """{(block, index): '' | description of user code that may have run since the last kernel wait (may-analysis)}"""
    from ..core import forward
    names = {f.name for f in prog.all_funcs() if f.q in user_code_summary(prog)}

    def tr(e, s):
        if e['ev'] != 'call':
            return s
        if e.get('callee') in WAITS:
            return ''
        if 'fnexpr' not in e and e.get('callee') not in names:
            return s
        u = user_code_event(prog, e)
        if u:
            from ..core import relpath
            return '%s at %s' % (u, relpath(e.get('loc')) if e.get('loc') else '?')
        return s
    _, ev_in = forward(g, '', tr, lambda a, b: a or b)
    return ev_in


# ---------------------------------------------------------------------------------------
# which descriptor variables denote an object that has left the active batch
# ---------------------------------------------------------------------------------------

def _plain_var(x):
    x = strip(x)
    return x['name'] if isinstance(x, dict) and x.get('k') == 'var' else None


def left_batch(g, key=(FD, 'list_active')):
    """{(block, index): frozenset of variable names}: must-analysis of "since its last definition the
    object this pointer variable denotes was unlinked from the batch (and not linked again)".
    The fact follows the value through plain copies (`fd = $ret1`, `cur@2 = fd`: a helper that pops the
    head and returns it, a helper that receives it) and holds vacuously for a NULL pointer; an unlink through
    the list node N counts for V when V == container_of(N, list_active) and no list operation lies in between."""
    locals_ = set()
    for e_ in g.events():
        for x in walk(e_):
            if x.get('k') == 'var' and x.get('vk') in ('local', 'param'):
                locals_.add(x['name'])

    def drop_var(S, v):
        return frozenset(it for it in S if not ((it[0] in ('U', 'UL') and it[1] == v) or (it[0] == 'N' and (it[1] == v or v in it[3]))))

    def tr(e, S):
        if e['ev'] == 'decl':
            return drop_var(S, e.get('name'))
        if e['ev'] == 'store':
            v = _plain_var(e['lhs'])
            if v is not None:
                before = S
                S = drop_var(S, v)
                if e.get('op') == '=' and 'rhs' in e:
                    node = container_node(e, key)
                    w = _plain_var(e['rhs'])
                    if node is not None and any(('UL', nm) in before for nm in node[1]) and _plain_var(strip(e['rhs'])['e']) is not None:
                        S = S | {('U', v)}
                    elif node is not None:
                        S = S | {('N', v, node[0], node[1])}
                    elif is_null_value(e['rhs']):
                        S = S | {('U', v)}
                    elif w is not None and ('U', w) in before and w != v:
                        S = S | {('U', v)}
                    elif w is not None and ('UL', w) in before and w != v:
                        S = S | {('UL', v)}         # the unlinked node handed on (`$ret1 = n@1`: a pop helper that returns the node)
                return S
            if any(it[0] == 'N' for it in S) and may_change_lists(e):
                return frozenset(it for it in S if it[0] != 'N')
            return S
        if is_unlink_call(e):
            k, o = list_member_arg(e)
            add = set()
            if k == key:
                m = strip(strip(e['args'][0])['e'])
                v = _plain_var(m['base'])
                if v is not None:
                    add.add(('U', v))
            a0 = canon(e['args'][0])
            for it in S:
                if it[0] == 'N' and it[2] == a0:
                    add.add(('U', it[1]))
            # the node a pointer local holds was unlinked: an object computed from that local afterwards is that node's
            # owner (`n = head->next; unlink(n); fd = container_of(n, ...)`)
            from ..core import names_of
            a = e['args'][0] if e.get('args') else None
            for nm in (names_of(a) if isinstance(a, dict) else ()):
                if nm in locals_:
                    add.add(('UL', nm))
            return frozenset(it for it in S if it[0] != 'N') | add
        if is_link(e):
            k, o = list_member_arg(e)
            m = strip(strip(e['args'][0])['e'])
            v = _plain_var(m['base'])
            return frozenset(it for it in S if it[0] not in ('N', 'UL') and not (it[0] == 'U' and (v is None or it[1] == v)))
        if e['ev'] == 'call' and any(it[0] == 'N' for it in S) and may_change_lists(e):
            return frozenset(it for it in S if it[0] != 'N')
        return S
    def edge(blk, si, S):
        # on a branch that established V == NULL the fact holds vacuously for V (nothing is called through it);
        # `fd = c ? container_of(n) : NULL; if (fd != NULL) unlink(n); return fd;`
        for (op, l, r) in _edge_atoms(blk, si):
            v = _plain_var(l)
            if op == '==' and v is not None and is_null_value(r):
                S = S | {('U', v)}
        return S
    from ..core import forward
    _, ev_in = forward(g, frozenset(), tr, lambda a, b: a & b, edge=edge)
    # '@node:N': the node the pointer variable N holds was unlinked since N was defined (for an owner that is never stored
    # in a variable: `dispatch_one(st, container_of(pop_node(&batch), ...))`, see owner_node)
    return {k: frozenset(it[1] for it in S if it[0] == 'U') | frozenset('@node:' + it[1] for it in S if it[0] == 'UL')
            for k, S in ev_in.items()}


def owner_node(x, key=(FD, 'list_active')):
    """N when x is container_of(N, record, field) of the batch node held in the plain pointer variable N"""
    x = strip(x)
    if isinstance(x, dict) and x.get('k') == 'container_of' and (x.get('record'), x.get('member')) == key:
        return _plain_var(x['e'])
    return None


def is_null_value(x):
    x = strip(x)
    return isinstance(x, dict) and (x.get('k') == 'null' or (x.get('k') == 'int' and x['v'] == 0))


def const_value(x):
    """integer a right-hand side certainly evaluates to: a literal, or a chained assignment of one"""
    x = strip(x)
    while isinstance(x, dict) and x.get('k') in ('assign', 'paren'):
        if x.get('k') == 'assign':
            if x.get('op') != '=':
                return None
            x = strip(x['r'])
        else:
            x = strip(x['e'])
    if isinstance(x, dict) and x.get('k') == 'int':
        return x['v']
    if isinstance(x, dict) and x.get('k') == 'null':
        return 0
    return None


# ---------------------------------------------------------------------------------------
# stale-after-callback (local variant of analyses.stale_after_callback: the marker test is recognised
# with either operand order)
# ---------------------------------------------------------------------------------------

def stale_after_callback(fn, is_callback, also=()):
    """`also`: further variables known (by their use) to denote user objects: e.g. the return temporary of an inlined pop
    helper, which carries no record annotation"""
    from ..analyses import USER_OBJECT_RECORDS, derefs_by_event
    from ..core import forward
    objvars = {n: FD for n in also}
    for e in fn.events():
        for x in walk(e):
            if x.get('k') == 'var' and x.get('vk') in ('local', 'param') and x.get('ptr') \
                    and x.get('record') in USER_OBJECT_RECORDS:
                objvars[x['name']] = x['record']
        if e['ev'] == 'decl' and e.get('ptr') and e.get('record') in USER_OBJECT_RECORDS:
            objvars[e['name']] = e['record']
    for p in fn.params:
        if p.get('ptr') and p.get('record') in USER_OBJECT_RECORDS:
            objvars[p['name']] = p['record']
    markers = {}      # canon(M) -> var for every `M = v` the function executes
    for e in fn.events():
        if e['ev'] == 'store' and e.get('op') == '=' and 'rhs' in e:
            r, l = strip(e['rhs']), strip(e['lhs'])
            if isinstance(r, dict) and r.get('k') == 'var' and r['name'] in objvars and l.get('k') == 'member':
                markers[canon(e['lhs'])] = r['name']
            if owner_node(r) in objvars and l.get('k') == 'member':
                markers[canon(e['lhs'])] = owner_node(r)      # `M = container_of(N, ...)`: the object is denoted through its node N
            if isinstance(r, dict) and r.get('k') == 'addr':
                v = strip(r['e'])
                if isinstance(v, dict) and v.get('k') == 'var' and v['name'] in objvars:
                    markers[v['name']] = v['name']

    def derefs(e):
        """analyses.derefs_by_event, plus the dereferences of an object that is denoted by the owner expression of a node
        variable (`container_of(N, iv_fd_, list_active)->field` is a use of the object N stands for)"""
        out = list(derefs_by_event(e))
        cands = []
        if e['ev'] == 'load':
            cands.append(e['e'])
        elif e['ev'] == 'store':
            cands.append(e['lhs'])
        elif e['ev'] in ('call', 'enter'):
            for a in e.get('args', []):
                a2 = strip(a)
                cands.append(a2['e'] if isinstance(a2, dict) and a2.get('k') == 'addr' else None)
            if e['ev'] == 'call' and 'fnexpr' in e:
                cands.append(strip(e['fnexpr']))
        for x in cands:
            y = x
            while isinstance(y, dict):
                y = strip(y)
                if not isinstance(y, dict):
                    break
                if y.get('k') == 'member':
                    if y['arrow']:
                        n_ = owner_node(y['base'])
                        if n_ is not None:
                            out.append(({'k': 'var', 'name': n_}, canon(x)))
                        break
                    y = y['base']
                elif y.get('k') in ('index',):
                    y = y['base']
                elif y.get('k') in ('addr', 'deref'):
                    y = y['e']
                else:
                    break
        return out

    def transfer(e, S):
        if e['ev'] == 'store':
            l = strip(e['lhs'])
            if l.get('k') == 'var' and any(x[0] == l['name'] for x in S):
                S = frozenset(x for x in S if x[0] != l['name'])
        elif e['ev'] == 'decl':
            if any(x[0] == e['name'] for x in S):
                S = frozenset(x for x in S if x[0] != e['name'])
        elif e['ev'] == 'call':
            if is_callback(e):
                S = S | frozenset((v, e.get('loc')) for v in objvars)
        return S

    def edge(blk, si, S):
        if not S or not blk.term or blk.term.get('cond') is None or len(blk.succ) != 2:
            return S
        if blk.term.get('cls') in ('SwitchStmt', 'MethodDispatch'):
            return S
        for (op, lc, rc, l, r) in norm_cond(blk.term['cond'], si == 0):
            v = None
            if op == '!=' and rc == '0' and lc in markers:
                v = markers[lc]
            elif op == '==' and lc in markers and rc == markers[lc]:
                v = markers[lc]
            elif op == '==' and rc in markers and lc == markers[rc]:
                v = markers[rc]
            if v is not None:
                S = frozenset(x for x in S if x[0] != v)
        return S

    _, ev_in = forward(fn, frozenset(), transfer, lambda a, b: a | b, edge=edge)
    reports = []
    for b, blk in fn.blocks.items():
        for i, e in enumerate(blk.events):
            S = ev_in.get((b, i))
            if not S:
                continue
            names = {x[0]: x[1] for x in S}
            for (v, acc) in derefs(e):
                if v['name'] in names:
                    reports.append((e, v['name'], acc, names[v['name']]))
    return reports, objvars, markers


# ---------------------------------------------------------------------------------------
# R-C03e: what keeps a pointer to a descriptor outside the library's lists (the kernel's interest set, the array
# that parallels the pollfd array), and whether unregister undoes it before it returns.  Self-contained: only the
# descriptor kinds are looked at (a holder of another object kind cannot break these obligations).
# ---------------------------------------------------------------------------------------

KERNEL_UPDATES = ('epoll_ctl',)        # kernel API that changes the interest set


def fd_pointer(x):
    """x is a pointer to a descriptor (typed variable, or the container_of that yields one)"""
    x = strip(x)
    if isinstance(x, dict) and x.get('k') == 'var' and x.get('ptr') and x.get('record') in FD_RECORDS:
        return True
    return isinstance(x, dict) and x.get('k') == 'container_of' and x.get('record') in FD_RECORDS


def object_vars(g, root):
    """names under which the object passed to `root` in its descriptor parameter is known in the inlined root:
    the parameter, and locals whose every definition is a (cast) copy of such a name"""
    names = {p['name'] for p in root.params if p.get('ptr') and p.get('record') in FD_RECORDS}
    defs = {}
    for e in g.events():
        if e['ev'] == 'store':
            l = strip(e['lhs'])
            if isinstance(l, dict) and l.get('k') == 'var':
                r = strip(e['rhs']) if e.get('op') == '=' and 'rhs' in e else None
                defs.setdefault(l['name'], []).append(r['name'] if isinstance(r, dict) and r.get('k') == 'var' else None)
    changed = True
    while changed:
        changed = False
        for v, srcs in defs.items():
            if v not in names and srcs and all(s_ in names for s_ in srcs):
                names.add(v)
                changed = True
    return names


def _root_name(x):
    from ..core import root_var
    rv = root_var(x)
    return rv['name'] if rv is not None else None


def table_functions(prog, table):
    """{slot: Func} of a poll method table"""
    out = {}
    for slot, v in sorted(prog.method_tables().get(table, {}).items()):
        if v and v[0] != 'str':
            f = prog.resolve(v[0], v[1])
            if f is not None and f.blocks:
                out[slot] = f
    return out


def kernel_tables(prog):
    """poll methods that hand a descriptor pointer to the kernel as user data (the store is found by the type of the
    stored value, followed through untyped `void *token` parameters of registration helpers)"""
    from .. import generic
    fns = stored_tokens(prog).get(('fd',), [])
    if not fns:
        return []
    mpriv = generic._method_private(prog)
    out = []
    for t in sorted(prog.method_tables()):
        if any(fn.q not in mpriv or t in mpriv[fn.q] for fn in fns):
            out.append(t)
    return out


def unknown_code(prog):
    """predicate on call events: the callee may write fields of library objects (indirect call, or a function of the
    library itself that is still a call after inlining; list primitives and external/libc/kernel functions cannot)"""
    from ..core import PRIMITIVES
    own = {f.name for f in prog.all_funcs() if f.blocks} - set(PRIMITIVES) - set(LIST_PRIMS)
    return lambda e: 'fnexpr' in e or e.get('callee') in own


def exit_points(g):
    from ..analyses import exits_of
    pts = [(pb, pi) for (pb, pi, _) in exits_of(g)]
    pts.append((g.exit, 0))
    return pts


def _edge_atoms(blk, si):
    if not blk.term or blk.term.get('cond') is None or len(blk.succ) != 2 or blk.term.get('cls') in ('SwitchStmt', 'MethodDispatch'):
        return []
    return [(op, l, r) for (op, lc, rc, l, r) in norm_cond(blk.term['cond'], si == 0) if op != 'const']


def kernel_synced(g, objs, unknown_call):
    """May-set of (told, link) at every return of g.  told: since the last store to wanted_bands of the object the
    kernel was told (a kernel update call), or a branch was taken whose condition excludes registered_bands !=
    wanted_bands for the object (nothing to tell).  link: whether the object is queued for a deferred update (only used to
    discard paths that contradict it: queued, then found not queued).  unknown_call(e): the call may run code that writes
    descriptor fields (a user callback, a library function that was not inlined)."""
    from ..core import forward
    from ..analyses import list_empty_test
    key = (FD, 'list_notify')

    BF = ('registered_bands', 'wanted_bands')

    def band_field(x):
        """(field, base canon) when x reads registered_bands / wanted_bands of the object"""
        x = strip(x)
        if isinstance(x, dict) and x.get('k') == 'member' and x.get('record') in FD_RECORDS and x.get('field') in BF \
                and _root_name(x['base']) in objs:
            return (x['field'], canon(x['base']))
        return None

    def same_bands(atoms, copies):
        cp = {v: (f, b) for (v, f, b) in copies}
        bases = {b for (_, _, b) in copies}
        for (op, l, r) in atoms:
            for x in walk([l, r]):
                bf = band_field(x)
                if bf:
                    bases.add(bf[1])
        for b in bases:
            def leaf_for(rb, wb, b=b):
                vals = {'registered_bands': rb, 'wanted_bands': wb}
                fl = field_leaf(b, vals)

                def leaf(x):
                    if x.get('k') == 'var' and x['name'] in cp and cp[x['name']][1] == b:
                        return vals[cp[x['name']][0]]
                    return fl(x)
                return leaf
            if all(refuted(atoms, leaf_for(rb, wb)) for rb in range(8) for wb in range(8) if rb != wb):
                return True
        return False

    def tr(e, S):
        if e['ev'] == 'call' and e.get('callee') in KERNEL_UPDATES:
            return frozenset((True, l_, c_) for (_, l_, c_) in S)
        if e['ev'] == 'store':
            steps = lvalue_steps(e['lhs'])
            l = strip(e['lhs'])
            if isinstance(l, dict) and l.get('k') == 'var':
                # a local that holds a copy of one of the two fields (valid until the field or the local is written)
                bf = band_field(e['rhs']) if e.get('op') == '=' and 'rhs' in e else None
                out = set()
                for (t_, l_, c_) in S:
                    c2 = frozenset(x for x in c_ if x[0] != l['name'] and x[2] != l['name'])
                    if bf:
                        c2 = c2 | {(l['name'], bf[0], bf[1])}
                    out.add((t_, l_, c2))
                return frozenset(out)
            hit = [f for f in BF if (FD, f) in steps]
            if hit:
                return frozenset((t_ and 'wanted_bands' not in hit, l_, frozenset(x for x in c_ if x[1] not in hit)) for (t_, l_, c_) in S)
            return S
        if e['ev'] == 'decl':
            return frozenset((t_, l_, frozenset(x for x in c_ if x[0] != e.get('name') and x[2] != e.get('name'))) for (t_, l_, c_) in S)
        if is_link(e, key):
            return frozenset((t_, 'L', c_) for (t_, _, c_) in S)
        if is_unlink(e, key):
            return frozenset((t_, 'N', c_) for (t_, _, c_) in S)
        if e['ev'] == 'call' and unknown_call(e):
            # unknown code may write the fields: copies die
            return frozenset((t_, l_, frozenset()) for (t_, l_, c_) in S)
        return S

    def edge(blk, si, S):
        atoms = _edge_atoms(blk, si)
        if atoms:
            S = frozenset(((True if same_bands(atoms, c_) else t_), l_, c_) for (t_, l_, c_) in S)
        if blk.term and blk.term.get('cond') is not None and len(blk.succ) == 2:
            for at in norm_cond(blk.term['cond'], si == 0):
                t = list_empty_test(at, member_key=key)
                if t == 'empty':
                    S = frozenset((t_, 'N', c_) for (t_, l_, c_) in S if l_ != 'L')
                elif t == 'nonempty':
                    S = frozenset((t_, 'L', c_) for (t_, l_, c_) in S if l_ != 'N')
        return S if S else None
    _, ev_in = forward(g, frozenset({(False, 'U', frozenset())}), tr, lambda a, b: a | b, edge=edge)
    sts = set()
    for p in exit_points(g):
        sts |= {(t_, l_) for (t_, l_, c_) in ev_in.get(p, ())}
    return sts


def slot_stores(g):
    """stores of a descriptor pointer into an element of an array / a heap block (whatever the spelling: a[i], *(a + i), *p)"""
    out = []
    for e in g.events():
        if e['ev'] == 'store' and e.get('op') == '=' and 'rhs' in e and fd_pointer(e['rhs']):
            l = strip(e['lhs'])
            if isinstance(l, dict) and l.get('k') in ('index', 'deref'):
                out.append(e)
    return out


def slot_index_fields(g, stores):
    """(record, field) of the scalar field(s) of the descriptor from which the slot address is computed
    (`arr[fd->idx] = fd`; `i = n++; fd->idx = i; arr[i] = fd`)"""
    keys = set()

    def fd_field(y):
        if y.get('k') == 'member' and not y.get('trecord') and not y.get('tptr'):
            x = y
            while isinstance(x, dict) and x.get('k') == 'member' and not x['arrow']:
                x = strip(x['base'])
            if isinstance(x, dict) and x.get('k') == 'member' and fd_pointer(x['base']):
                return (y.get('record'), y['field'])
        return None
    for e in stores:
        l = strip(e['lhs'])
        addr = [l['base'], l['idx']] if l.get('k') == 'index' else [l['e']]
        locs = set()
        for y in walk(addr):
            k = fd_field(y)
            if k:
                keys.add(k)
            if y.get('k') == 'var' and y.get('vk') in ('local', 'param') and not y.get('ptr'):
                locs.add(y['name'])
        for e2 in g.events():
            if e2['ev'] == 'store' and e2.get('op') == '=' and 'rhs' in e2:
                k = fd_field(strip(e2['lhs'])) if isinstance(strip(e2['lhs']), dict) else None
                r = strip(e2['rhs'])
                if k and isinstance(r, dict) and r.get('k') == 'var' and r['name'] in locs:
                    keys.add(k)
    return keys


def index_is(g, objs, idxkeys, free):
    """{point: bool} must-analysis: the index field of the object holds `free` (stored, or implied by a branch taken) and
    no store that may alias it wrote anything else since"""
    from ..core import forward
    samples = [v for v in (-2, -1, 0, 1, 2, 1000, 2 ** 31 - 1) if v != free]

    def leaf_for(b, val):
        def leaf(x):
            if x.get('k') == 'member' and (x.get('record'), x.get('field')) in idxkeys and canon(_obj_base(x)) == b:
                return val
            return None
        return leaf

    def tr(e, s):
        if e['ev'] == 'store' and any(k in idxkeys for k in lvalue_steps(e['lhs'])):
            v = const_value(e['rhs']) if e.get('op') == '=' and 'rhs' in e else None
            if _root_name(e['lhs']) in objs:
                return v == free
            return s if v == free else False
        return s

    def edge(blk, si, s):
        atoms = _edge_atoms(blk, si)
        bases = set()
        for (op, l, r) in atoms:
            for x in walk([l, r]):
                if x.get('k') == 'member' and (x.get('record'), x.get('field')) in idxkeys and _root_name(x) in objs:
                    bases.add(canon(_obj_base(x)))
        for b in bases:
            if all(refuted(atoms, leaf_for(b, v)) for v in samples) and not refuted(atoms, leaf_for(b, free)):
                return True
        return s
    _, ev_in = forward(g, False, tr, lambda a, b: a and b, edge=edge)
    return ev_in


def _obj_base(x):
    """base expression of the object a (possibly nested: fd->u.index) field access belongs to"""
    while isinstance(x, dict) and x.get('k') == 'member' and not x['arrow']:
        x = strip(x['base'])
    return x['base'] if isinstance(x, dict) and x.get('k') == 'member' else x


# ---------------------------------------------------------------------------------------
# R-C03c (iteration 3): INIT-COMPLETE for the descriptor kind, decided per path and per object.
# Local re-formulation of generic.init_complete (shared file): same instances (`iv_fd_.<field path> [method]`), same texts.
#   * object identity: the descriptor being registered is the root's descriptor parameter and every variable that can only
#     hold a (cast) copy of it (typed local, renamed parameter of an inlined helper, argument temporary); writes and reads
#     are attributed to *that object*, not to a variable name -- and a write to another descriptor does not count;
#   * success per path: a field must have been written on every path of the registration function that leaves the descriptor
#     live (its `registered` flag -- what iv_fd_registered() reports -- not provably zero at the return); return statements,
#     result variables, merged entry points with a mode flag and goto-cleanup shapes do not matter.
# ---------------------------------------------------------------------------------------

def alias_roots(g):
    """{variable: root variable} for the pointer variables of g that can only hold the value of a never-assigned variable
    (a parameter): every definition of the variable is one plain (cast) copy of the root or of another such variable.
    Holds at every point at which the variable is defined at all, loops included (the root never changes)."""
    defs = {}
    for e in g.events():
        if e['ev'] == 'store':
            l = strip(e['lhs'])
            if isinstance(l, dict) and l.get('k') == 'var':
                r = strip(e['rhs']) if e.get('op') == '=' and 'rhs' in e else None
                src = r['name'] if isinstance(r, dict) and r.get('k') == 'var' else None
                defs.setdefault(l['name'], set()).add((e.get('loc'), src))
    taken = _addr_taken(g)
    root = {}
    changed = True
    while changed:
        changed = False
        for v, ds in defs.items():
            if v in root or v in taken or len(ds) != 1:
                continue
            (_, w) = next(iter(ds))
            if w is None or w in taken or w == v:
                continue
            if w not in defs:
                root[v] = w
                changed = True
            elif w in root:
                root[v] = root[w]
                changed = True
    return root


def object_accesses(e, rec, amap):
    """generic.field_accesses with every variable replaced by the object it must denote"""
    from ..generic import field_accesses
    return [(k, amap.get(v, v), p) for (k, v, p) in field_accesses(e, rec)]


def _registered_atom(at, amap, obj):
    """'0' / 'nz' when the branch atom says that OBJ->registered is zero / non-zero"""
    (op, lc, rc, l, r) = at
    m = strip(l)
    if op not in ('==', '!=') or rc != '0' or not isinstance(m, dict) or m.get('k') != 'member':
        return None
    if (m.get('record'), m.get('field')) != (FD, 'registered') or not m.get('arrow'):
        return None
    b = strip(m['base'])
    if not (isinstance(b, dict) and b.get('k') == 'var' and amap.get(b['name'], b['name']) == obj):
        return None
    return '0' if op == '==' else 'nz'


def written_when_live(g, rec, amap, obj, track_live=True):
    """(field paths of OBJ written on every path of g that ends with OBJ live, number of such path classes at the returns).
    Path classes: what is known of OBJ->registered ('0', 'nz', '?': stores of constants, branch outcomes); a class that ends
    with the flag provably zero is a path on which registration did not happen (track_live=False: every path counts)."""
    def norm(pairs):
        out = {}
        for (lv, w) in pairs:
            out[lv] = w if lv not in out else (out[lv] & w)
        return frozenset(out.items())

    def tr(e, S):
        out = []
        for (lv, w) in S:
            for (k, v, p) in object_accesses(e, rec, amap):
                if k == 'w' and v == obj:
                    w = w | {p}
            if track_live and e['ev'] == 'store' and (FD, 'registered') in lvalue_steps(e['lhs']):
                m = strip(e['lhs'])
                b = strip(m['base']) if isinstance(m, dict) and m.get('k') == 'member' and m.get('arrow') else None
                mine = isinstance(b, dict) and b.get('k') == 'var' and amap.get(b['name'], b['name']) == obj
                c = const_value(e['rhs']) if e.get('op') == '=' and 'rhs' in e else None
                if mine and c is not None:
                    lv = '0' if c == 0 else 'nz'
                else:
                    lv = '?'            # computed value, or a store through a pointer that may alias the object
            out.append((lv, w))
        return norm(out)

    def edge(blk, si, S):
        if not track_live or not blk.term or blk.term.get('cond') is None or len(blk.succ) != 2 \
                or blk.term.get('cls') in ('SwitchStmt', 'MethodDispatch'):
            return S
        says = {t for t in (_registered_atom(a, amap, obj) for a in norm_cond(blk.term['cond'], si == 0)) if t}
        if not says:
            return S
        if len(says) == 2:
            return None
        t = says.pop()
        out = [(t, w) for (lv, w) in S if lv in ('?', t)]
        return norm(out) if out else None

    from ..core import forward
    _, ev_in = forward(g, frozenset({('?', frozenset())}), tr, lambda a, b: norm(list(a) + list(b)), edge=edge)
    ends = []
    for pt in exit_points(g):
        ends += list(ev_in.get(pt) or ())
    result, n = None, 0
    for (lv, w) in ends:
        if track_live and lv == '0':
            continue
        n += 1
        result = w if result is None else (result & w)
    return (result or frozenset()), n


def reads_before_write(g, rec, amap):
    """{field path: [(object name, event)]}: reads of a field of a `rec` object in g that are not preceded, on some path from
    g's entry, by a write of that field of the same object (generic.read_before_write with object identity)."""
    from ..generic import _covers
    from ..core import forward

    def tr(e, S):
        for (k, v, p) in object_accesses(e, rec, amap):
            if k == 'w':
                S = S | {(v, p)}
        if e['ev'] == 'store':
            l = strip(e['lhs'])
            if isinstance(l, dict) and l.get('k') == 'var' and l['name'] not in amap:
                S = frozenset(x for x in S if x[0] != l['name'])
        return S
    _, ev_in = forward(g, frozenset(), tr, lambda a, b: a & b)
    out = {}
    for b, blk in g.blocks.items():
        for i, e in enumerate(blk.events):
            S = ev_in.get((b, i))
            if S is None:
                continue
            for (k, v, p) in object_accesses(e, rec, amap):
                if k == 'r' and not _covers(S, v, p):
                    out.setdefault(p, []).append((v, e))
    return out


def only_from_registration(prog, f, regs, rts):
    """f is a helper every call chain to which starts in a registration function (through static helpers whose address is
    not taken): its reads are seen, in context, by the analysis of the inlined registration functions."""
    if f.q in rts:
        return False
    nr = nearest_roots(prog, f, rts)
    return bool(nr) and all(r.name in regs for r in nr.values())


def init_complete(ctx, rid):
    from .. import generic as G
    from ..core import relpath
    prog = ctx.prog
    K = [k for k in G.OBJECT_KINDS if k['rec'] == FD]
    if not K:
        raise AnalysisBroken('object kind %s unknown' % FD)
    K = K[0]
    rec = FD
    if rec not in prog.records or 'fields' not in prog.records[rec]:
        raise AnalysisBroken('record %s not found' % rec)
    regs = [r for r in K['reg'] if prog.has_fn(r)]
    if not regs:
        raise AnalysisBroken('register function of %s not found' % rec)
    fields = {f['name']: f for f in prog.records[rec]['fields']}
    private = [f for f in fields if f not in K['user'] and fields[f].get('record') not in G.KIND_RECORDS]
    mpriv = G._method_private(prog)
    rts = root_map(prog)
    skip = set(regs) | ({K['init']} if K['init'] else set())
    # reads anywhere else in the library (per function, out of context): what a library function may read of a live descriptor
    elsewhere = []
    for f in prog.all_funcs():
        if f.name in skip or not f.blocks:
            continue
        rb = reads_before_write(f, rec, alias_roots(f))
        if rb:
            elsewhere.append((f, rb, only_from_registration(prog, f, regs, rts)))
    n = 0
    for table in sorted(prog.method_tables()):
        def obj_of(root, g):
            ps = [p['name'] for p in root.params if p.get('ptr') and p.get('record') in FD_RECORDS]
            if len(ps) != 1:
                raise AnalysisBroken('%s: no single descriptor parameter' % root.name)
            am = alias_roots(g)
            if ps[0] in am:
                raise AnalysisBroken('%s: descriptor parameter is reassigned' % root.name)
            return am, ps[0]
        w_init = frozenset()
        if K['init'] and prog.has_fn(K['init']):
            fi = prog.fn(K['init'])
            gi = inline(prog, fi, method_table=table, expand_methods=True)
            am, obj = obj_of(fi, gi)
            w_init, _ = written_when_live(gi, rec, am, obj, track_live=False)
        w_reg = None
        rreaders, readers = {}, {}
        for r in regs:
            fr = prog.fn(r)
            g = inline(prog, fr, method_table=table, expand_methods=True)
            am, obj = obj_of(fr, g)
            w, nlive = written_when_live(g, rec, am, obj)
            if nlive == 0:
                raise AnalysisBroken('%s has no path that leaves the descriptor registered' % r)
            w_reg = w if w_reg is None else (w_reg & w)
            for fld, evs in reads_before_write(g, rec, am).items():
                for (v, e) in evs:
                    # the object being registered: read before registration wrote it; another (live) descriptor: a library read
                    (rreaders if v == obj else readers).setdefault(fld, []).append((r, e))
        for (f, rb, covered) in elsewhere:
            if f.q in mpriv and table not in mpriv[f.q]:
                continue
            if covered:
                continue
            for fld, evs in rb.items():
                readers.setdefault(fld, []).extend((f.q, e) for (v, e) in evs)
        w_init = frozenset(('*', p) for p in w_init)
        w_all = w_init | frozenset(('*', p) for p in w_reg)
        for fld in sorted(set(readers) | set(rreaders)):
            topf = fld.split('.')[0]
            if topf not in private:
                continue
            rd, rr = readers.get(fld, []), rreaders.get(fld, [])
            ok, why = True, ''
            if rr and not G._covers(w_init, '*', fld):
                ok = False
                why = 'read by %s before any write; %s does not initialise it' % (rr[0][0], K['init'] or 'no INIT function')
            if rd and not G._covers(w_all, '*', fld):
                ok = False
                why = 'read by %s (%s) but not written on every path of %s that leaves the descriptor registered, nor by %s' % (
                    rd[0][0], relpath(rd[0][1]['loc']), '/'.join(regs), K['init'] or 'an INIT function')
            inst = '%s.%s [%s]' % (rec, fld, table.replace('iv_fd_poll_method_', ''))
            loc = (rd or rr)[0][1]['loc']
            ctx.ob(rid, inst, ok, loc=loc,
                   detail=why or 'written by %s before any library read' % ('INIT' if G._covers(w_init, '*', fld) else 'registration'),
                   fn=(rd or rr)[0][0])
            n += 1
    return n


# ---------------------------------------------------------------------------------------
# R-C03f (iteration 3): the descriptor array and the kernel-facing entry array of a poll method that keeps descriptors in
# array slots stay parallel.  Decided by evaluation of the method's own slot code (helpers inlined, as normalised) on a
# bounded concrete model: a few descriptors, every short sequence of interest changes, starting from the empty state.  No
# statement shape, order or expression spelling is looked at: only the memory the code leaves behind.
# ---------------------------------------------------------------------------------------

class Stuck(Exception):
    """the slot code does something the model evaluator has no meaning for"""


class ModelViolation(Exception):
    pass


class SlotMachine:
    CAP = 8

    def __init__(self, state='state'):
        self.objs = {}          # object name -> nested dict of fields (absent = 0 / not yet created)
        self.steps = 0
        self.state = state
        self.owned = {id(self.obj(state))}      # aggregates that are part of the per-thread state

    # ---- memory ------------------------------------------------------------
    def obj(self, name):
        return self.objs.setdefault(name, {})

    def _sub(self, container, key):
        """the aggregate stored at container[key], created on first use"""
        try:
            v = container[key]
        except (KeyError, IndexError):
            v = None
        if v is None or v == 0:
            v = {}
            container[key] = v
            if id(container) in self.owned:
                self.owned.add(id(v))
        if not isinstance(v, dict):
            raise Stuck('member access into a scalar')
        return v

    def _pointee(self, p, what):
        if isinstance(p, tuple) and p[0] == 'obj':
            return self.obj(p[1])
        if isinstance(p, tuple) and p[0] == 'ref':
            return self._sub(p[1], p[2])
        if p in (0, None):
            raise ModelViolation('NULL pointer dereferenced in %s' % what)
        raise Stuck('dereference of %r in %s' % (p, what))

    def lval(self, x, env):
        k = x.get('k')
        if k in ('load', 'cast', 'paren', 'stmtexpr') and 'e' in x:
            return self.lval(x['e'], env)
        if k == 'var':
            return (env, x['name'])
        if k == 'member':
            if x['arrow']:
                return (self._pointee(self.rval(x['base'], env), canon(x)), x['field'])
            c, key = self.lval(x['base'], env)
            return (self._sub(c, key), x['field'])
        if k == 'index':
            arr = self.rval(x['base'], env)
            if arr in (0, None):
                c, key = self.lval(x['base'], env)
                arr = ('arr', [None] * self.CAP)        # what the method's init slot allocated
                c[key] = arr
            i = self.rval(x['idx'], env)
            if isinstance(arr, tuple) and arr[0] == 'ref' and isinstance(arr[1], list) and isinstance(i, int):
                arr, i = ('arr', arr[1]), arr[2] + i
            if not (isinstance(arr, tuple) and arr[0] == 'arr' and isinstance(i, int)):
                raise Stuck('indexing %s' % canon(x))
            if not 0 <= i < len(arr[1]):
                raise ModelViolation('%s: index %d outside the array' % (canon(x), i))
            return (arr[1], i)
        if k == 'deref':
            p = self.rval(x['e'], env)
            if isinstance(p, tuple) and p[0] == 'ref':
                return (p[1], p[2])
            raise Stuck('dereference %s' % canon(x))
        raise Stuck('not an lvalue: %s' % canon(x))

    @staticmethod
    def _get(c, key):
        try:
            v = c[key]
        except (KeyError, IndexError):
            v = None
        return 0 if v is None else v

    def rval(self, x, env):
        if not isinstance(x, dict):
            raise Stuck('expression %r' % (x,))
        k = x.get('k')
        if k == 'int':
            return x['v']
        if k == 'null':
            return 0
        if k in ('cast', 'paren', 'stmtexpr') and 'e' in x:
            return self.rval(x['e'], env)
        if k in ('load', 'var', 'member', 'index', 'deref'):
            c, key = self.lval(x, env)
            v = self._get(c, key)
            x = strip(x)
            if v == 0 and x.get('k') == 'member' and id(c) in self.owned and str(x.get('type', '')).rstrip().endswith('*') \
                    and '(' not in str(x.get('type', '')):
                # a pointer member of the per-thread state, read for the first time: the array the method's init slot
                # allocated there (wherever the slot code caches the pointer afterwards)
                v = ('arr', [None] * self.CAP)
                c[key] = v
            return v
        if k == 'addr':
            c, key = self.lval(x['e'], env)
            return ('ref', c, key)
        if k == 'incdec':
            # the step itself is a separate, earlier store event: recover the value of the expression
            c, key = self.lval(x['e'], env)
            v = self._get(c, key)
            if not isinstance(v, int):
                raise Stuck('stepping a non-integer')
            return v if x.get('prefix') else (v - 1 if x['op'] == '++' else v + 1)
        if k == 'un':
            v = self.rval(x['e'], env)
            if x['op'] == '!':
                return 0 if self.truth(v) else 1
            if isinstance(v, int) and x['op'] in ('-', '~', '+'):
                return {'-': -v, '~': ~v, '+': v}[x['op']]
            raise Stuck('unary %s' % x['op'])
        if k == 'cond':
            return self.rval(x['a'] if self.truth(self.rval(x['c'], env)) else x['b'], env)
        if k == 'bin':
            op = x['op']
            if op == '&&':
                return 1 if self.truth(self.rval(x['l'], env)) and self.truth(self.rval(x['r'], env)) else 0
            if op == '||':
                return 1 if self.truth(self.rval(x['l'], env)) or self.truth(self.rval(x['r'], env)) else 0
            if op == ',':
                self.rval(x['l'], env)
                return self.rval(x['r'], env)
            a, b = self.rval(x['l'], env), self.rval(x['r'], env)
            if op in ('==', '!='):
                same = self._same(a, b)
                return 1 if same == (op == '==') else 0
            if isinstance(a, tuple) and a[0] == 'ref' and isinstance(a[1], list) and isinstance(b, int) and op in ('+', '-'):
                return ('ref', a[1], a[2] + (b if op == '+' else -b))
            if isinstance(a, tuple) and a[0] == 'arr' and isinstance(b, int) and op == '+':
                return ('ref', a[1], b)
            if isinstance(a, int) and isinstance(b, int):
                if op in _CMP:
                    return 1 if _CMP[op](a, b) else 0
                if op in _ARITH:
                    return _ARITH[op](a, b)
                if op in ('/', '%') and b != 0:
                    return int(a / b) if op == '/' else a - b * int(a / b)
            raise Stuck('operator %s on %r, %r' % (op, a, b))
        raise Stuck('expression kind %s (%s)' % (k, canon(x)))

    @staticmethod
    def _same(a, b):
        if isinstance(a, tuple) and isinstance(b, tuple):
            if a[0] != b[0]:
                return False
            if a[0] == 'obj':
                return a[1] == b[1]
            return a[1] is b[1] and (len(a) < 3 or a[2] == b[2])
        if isinstance(a, tuple) or isinstance(b, tuple):
            return False
        return a == b

    @staticmethod
    def truth(v):
        return v not in (0, None)

    # ---- execution -----------------------------------------------------------
    def store(self, e, env):
        import copy
        c, key = self.lval(e['lhs'], env)
        op = e.get('op')
        if op in ('++', '--'):
            v = self._get(c, key)
            if isinstance(v, tuple) and v[0] == 'ref' and isinstance(v[1], list):
                nv = ('ref', v[1], v[2] + (1 if op == '++' else -1))
            elif isinstance(v, int):
                nv = v + (1 if op == '++' else -1)
            else:
                raise Stuck('stepping %r' % (v,))
        elif op == '=':
            nv = self.rval(e['rhs'], env)
            if isinstance(nv, dict):
                nv = copy.deepcopy(nv)          # structure assignment copies the element
        else:
            a, b = self._get(c, key), self.rval(e['rhs'], env)
            o = op[:-1]
            if not (isinstance(a, int) and isinstance(b, int) and o in _ARITH):
                raise Stuck('compound assignment %s' % op)
            nv = _ARITH[o](a, b)
        if isinstance(c, list):
            c[key] = nv
        else:
            c[key] = nv

    def run(self, g, env):
        """executes the (inlined) function on the model; 'done' | 'abort' (a call that does not return)"""
        b = g.entry
        while True:
            blk = g.blocks[b]
            for e in blk.events:
                self.steps += 1
                if self.steps > 200000:
                    raise Stuck('evaluation does not terminate')
                if e['ev'] == 'store':
                    self.store(e, env)
                elif e['ev'] == 'call':
                    if blk.noreturn and e is [x for x in blk.events if x['ev'] == 'call'][-1]:
                        return 'abort'
                    raise Stuck('call of %s' % (e.get('callee') or canon(e.get('fnexpr'))))
            if blk.noreturn:
                return 'abort'
            succ = [s for s in blk.succ if s is not None]
            if b == g.exit or not succ:
                return 'done'
            if len(succ) == 1:
                b = succ[0]
                continue
            t = blk.term or {}
            if t.get('cond') is None or len(blk.succ) != 2 or t.get('cls') in ('SwitchStmt', 'MethodDispatch'):
                raise Stuck('undecidable branch (%s)' % t.get('cls'))
            b = blk.succ[0] if self.truth(self.rval(t['cond'], env)) else blk.succ[1]
            if b is None:
                return 'done'


def slot_pairing(prog, table, depth=3, ndesc=3):
    """[(what was run, violation text)] for one array-slot poll method; raises AnalysisBroken when the slot code cannot be
    evaluated.  Model: `ndesc` descriptors with distinct file descriptors, the state as the init slot leaves it (all zero,
    arrays allocated), every sequence of `depth` interest changes (descriptor, new wanted_bands in {0, 1, 3}); before its first
    change a descriptor runs through the register_fd slot.  After every step: a descriptor that wants events owns one slot
    k of the descriptor array (its index field says k, the array says it is the descriptor), no two own the same, and every
    kernel-facing array indexed in parallel (`struct pollfd`) carries that descriptor's file descriptor in element k; a
    descriptor that wants nothing owns no slot (index field as register_fd left it)."""
    import itertools
    fns = table_functions(prog, table)
    if 'notify_fd' not in fns:
        raise AnalysisBroken('%s has no notify_fd slot' % table)
    code = {}
    for slot in ('register_fd', 'notify_fd'):
        if slot in fns:
            code[slot] = (fns[slot], inline(prog, fns[slot], method_table=table, expand_methods=True))
    # the index field of a descriptor, found by type in the slot code (the arrays are found in the model's memory afterwards)
    gn = code['notify_fd'][1]
    st_stores = slot_stores(gn)
    idxkeys = slot_index_fields(gn, st_stores)
    if not st_stores or not idxkeys:
        raise AnalysisBroken('%s: descriptor array / index field not found in the notify_fd slot' % table)
    idx_exprs = []
    for e in gn.events():
        for x in walk(e):
            if x.get('k') == 'member' and (x.get('record'), x.get('field')) in idxkeys and not x['arrow']:
                b = strip(x['base'])
                if isinstance(b, dict) and b.get('k') == 'member' and b['arrow']:
                    idx_exprs.append(x)
    if not idx_exprs:
        raise AnalysisBroken('%s: index field access not found' % table)

    def params(f):
        sp = [p['name'] for p in f.params if p.get('record') == 'iv_state' and p.get('ptr')]
        dp = [p['name'] for p in f.params if p.get('record') in FD_RECORDS and p.get('ptr')]
        if len(sp) != 1 or len(dp) != 1:
            raise AnalysisBroken('%s: slot without (state, descriptor) parameters' % f.name)
        return sp[0], dp[0]

    def index_of(m, d):
        """the descriptor's slot index, read through the index field access path of the slot code"""
        x = idx_exprs[0]
        path = []
        while isinstance(x, dict) and x.get('k') == 'member':
            path.append(x['field'])
            if x['arrow']:
                break
            x = strip(x['base'])
        c = m.obj(d)
        for fld in reversed(path):
            c = c.get(fld) if isinstance(c, dict) else None
            if c is None:
                return 0
        return c

    def arrays(m):
        """the arrays that live in the state, by what they hold: descriptor pointers / elements with an `fd` member"""
        das, kas, seen, work = [], [], set(), [m.obj(m.state)]
        while work:
            c = work.pop()
            if id(c) in seen:
                continue
            seen.add(id(c))
            for v in (c.values() if isinstance(c, dict) else c):
                if isinstance(v, dict):
                    work.append(v)
                elif isinstance(v, tuple) and v[0] == 'arr':
                    if any(isinstance(x, tuple) and x[0] == 'obj' for x in v[1]):
                        das.append(v[1])
                    elif any(isinstance(x, dict) and 'fd' in x for x in v[1]):
                        kas.append(v[1])
        return das, kas

    def check(m, sp, wants, free):
        das, kas = arrays(m)
        owned = {}
        for d, w in sorted(wants.items()):
            k = index_of(m, d)
            if not w:
                if d in free and k != free[d]:
                    return '%s wants nothing but its index field is %r (a descriptor without a slot has %r)' % (d, k, free[d])
                continue
            if not isinstance(k, int) or not 0 <= k < SlotMachine.CAP:
                return '%s wants events but owns no slot (index field %r)' % (d, k)
            if k in owned:
                return '%s and %s own the same slot %d' % (owned[k], d, k)
            owned[k] = d
            if not das or not kas:
                return '%s wants events but no descriptor array / kernel-facing array in the state holds anything' % d
            for arr in das:
                if arr[k] != ('obj', d):
                    return 'slot %d of the descriptor array does not hold %s, whose index field says %d' % (k, d, k)
            for arr in kas:
                el = arr[k]
                if not isinstance(el, dict) or el.get('fd') != m.obj(d).get('fd'):
                    return 'element %d of the kernel-facing array carries file descriptor %r, but slot %d belongs to %s (file ' \
                           'descriptor %r): the kernel result for another descriptor is attributed to it' % (
                               k, el.get('fd') if isinstance(el, dict) else None, k, d, m.obj(d).get('fd'))
        return None

    names = ['d%d' % i for i in range(ndesc)]
    bad = []
    seen = set()
    for seq in itertools.product([(d, w) for d in names for w in (0, 1, 3)], repeat=depth):
        m = SlotMachine()
        for i, d in enumerate(names):
            m.obj(d)['fd'] = 10 + i
        wants, free = {}, {}
        try:
            for step, (d, w) in enumerate(seq):
                if d not in wants:
                    if 'register_fd' in code:
                        f, g = code['register_fd']
                        sp, dp = params(f)
                        m.run(g, {sp: ('obj', 'state'), dp: ('obj', d)})
                    free[d] = index_of(m, d)
                    wants[d] = 0
                m.obj(d)['wanted_bands'] = w
                wants[d] = w
                f, g = code['notify_fd']
                sp, dp = params(f)
                res = m.run(g, {sp: ('obj', 'state'), dp: ('obj', d)})
                why = 'the slot code aborts' if res == 'abort' else check(m, sp, wants, free)
                if why:
                    raise ModelViolation(why)
        except ModelViolation as v:
            key = str(v)
            if key not in seen:
                seen.add(key)
                bad.append((', '.join('%s wants %d' % s for s in seq[:step + 1]), key))
        except Stuck as s_:
            raise AnalysisBroken('%s: slot code cannot be evaluated on the model: %s' % (table, s_))
    return bad


# ---------------------------------------------------------------------------------------
# R-C03h: a failed try-registration leaves no trace in the back end.  Relational forward analysis on the inlined entry
# point (one poll method expanded): a set of (trace field is clean, {integer local: 'Z' | 'NZ'}) states, so that what the
# back end was left with stays correlated with the value that is finally returned, however the result travels (return
# temporaries of helpers, copies, merged returns).  No statement order or shape is looked at.
# ---------------------------------------------------------------------------------------

def _int_var(x):
    x = strip(x)
    return x['name'] if isinstance(x, dict) and x.get('k') == 'var' and not x.get('ptr') and 'record' not in x else None


def failure_traces(g, objs, keys, clean, unknown_call=None):
    """[(ret event, 'Z'|'NZ'|'?', clean?)] over the root's own return events, one entry per abstract state that reaches it.
    clean?: the field `keys` of the object (names `objs`) holds the constant `clean` (stored, or implied by a branch taken, and
    no store that may alias it wrote anything else since).  The second component abstracts the returned value.  The states also
    carry whether the object is queued for a deferred kernel update (list_notify), only to discard paths that contradict it
    (unlinked, then found linked), as kernel_synced does."""
    from ..core import forward
    from ..analyses import exits_of, list_empty_test
    lkey = (FD, 'list_notify')
    samples = [v for v in (-2, -1, 0, 1, 2, 1000, 2 ** 31 - 1) if v != clean]

    def leaf_for(b, val):
        def leaf(x):
            if x.get('k') == 'member' and (x.get('record'), x.get('field')) in keys and canon(_obj_base(x)) == b:
                return val
            return None
        return leaf

    def aval(x, env):
        c = const_value(x)
        if c is not None:
            return 'Z' if c == 0 else 'NZ'
        n = _int_var(x)
        if n is not None:
            return dict(env).get(n, '?')
        return '?'

    def setvar(env, name, v):
        d = dict(env)
        d.pop(name, None)
        if v in ('Z', 'NZ'):
            d[name] = v
        return frozenset(d.items())

    def tr(e, S):
        out = set()
        for (cl, env, lk) in S:
            if e['ev'] == 'store':
                l = strip(e['lhs'])
                if isinstance(l, dict) and l.get('k') == 'var':
                    v = aval(e['rhs'], env) if e.get('op') == '=' and 'rhs' in e else '?'
                    out.add((cl, setvar(env, l['name'], v), lk))
                    continue
                if any(k in keys for k in lvalue_steps(e['lhs'])):
                    v = const_value(e['rhs']) if e.get('op') == '=' and 'rhs' in e else None
                    if _root_name(e['lhs']) in objs:
                        cl = (v == clean)
                    elif v != clean:
                        cl = False
            elif e['ev'] == 'decl':
                env = setvar(env, e.get('name'), '?')
            elif is_link(e, lkey):
                lk = 'L'
            elif is_unlink(e, lkey) or (is_call(e, ('INIT_IV_LIST_HEAD',)) and list_member_arg(e)[0] == lkey):
                lk = 'N'
            elif e['ev'] == 'call' and unknown_call is not None and unknown_call(e):
                cl = False
            out.add((cl, env, lk))
        return frozenset(out)

    def edge(blk, si, S):
        atoms = _edge_atoms(blk, si)
        if not atoms:
            return S
        for at in norm_cond(blk.term['cond'], si == 0):
            lt = list_empty_test(at, member_key=lkey)
            if lt == 'empty':
                S = frozenset((cl, env, 'N') for (cl, env, lk) in S if lk != 'L')
            elif lt == 'nonempty':
                S = frozenset((cl, env, 'L') for (cl, env, lk) in S if lk != 'N')
        # what the branch says about the trace field
        implied = False
        bases = set()
        for (op, l, r) in atoms:
            for x in walk([l, r]):
                if x.get('k') == 'member' and (x.get('record'), x.get('field')) in keys and _root_name(x) in objs:
                    bases.add(canon(_obj_base(x)))
        for b in bases:
            if all(refuted(atoms, leaf_for(b, v)) for v in samples) and not refuted(atoms, leaf_for(b, clean)):
                implied = True
        out = set()
        for (cl, env, lk) in S:
            feasible = True
            for (op, l, r) in atoms:
                for (a, b_, o) in ((l, r, op), (r, l, {'<': '>', '>': '<', '<=': '>=', '>=': '<='}.get(op, op))):
                    n, c = _int_var(a), const_value(b_)
                    if n is None or c is None or o not in _CMP:
                        continue
                    zero_ok = _CMP[o](0, c)
                    nz_ok = not (o == '==' and c == 0)
                    cur = dict(env).get(n, '?')
                    if (cur == 'Z' and not zero_ok) or (cur == 'NZ' and not nz_ok):
                        feasible = False
                    elif not zero_ok:
                        env = setvar(env, n, 'NZ')
                    elif not nz_ok:
                        env = setvar(env, n, 'Z')
            if feasible:
                out.add((cl or implied, env, lk))
        return frozenset(out) if out else None

    _, ev_in = forward(g, frozenset({(False, frozenset(), 'U')}), tr, lambda a, b: a | b, edge=edge)
    res = []
    for (pb, pi, e) in exits_of(g):
        for (cl, env, lk) in ev_in.get((pb, pi), ()):
            res.append((e, aval(e['value'], env) if e.get('value') is not None else '?', cl))
    return res
