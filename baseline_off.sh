#!/bin/sh
# Runs the repository's pinned test suite with no verification define set
# (there are no hooks in /repo: static analysis reads the source as it is).
set -e
cd /repo
make -s >/dev/null
make -s -C test check
