"""Helpers of the C02 rules (hardening round).

Two small evaluators that make the C02 obligations independent of how the
source is cut into helpers, which locals cache which fields and how the
branches are written:

  * AbsInt  -- disjunctive forward analysis over a finite domain.  A state maps
    keys (locals, fields of local structs, a few *typed* memory fields chosen by
    the rule) to integers / 'nz'.  Branches the state decides are followed on one
    side only, undecided ones on both (with refinement of the tested key).  The
    rule reads the states that reach a *site* (a call of epoll_ctl, a store to
    pollfd.events, an indirect call through the method table, ...).
  * Sym     -- path-wise symbolic evaluation of a loop-free root with terms over
    the entry memory (`ld(addr)`), used for the swap-remove of the poll array
    where the obligation relates two array slots and two descriptors.

plus role helpers (nearest roots of a site, local access paths).
"""
import copy

from ..core import (AnalysisBroken, PRIMITIVES, canon, strip, strip_load, walk, lvalue_root, norm_cond, forward, _open_coded_list_empty)
from ..analyses import callback_kind, liveness
from .. import roles

NZ = 'nz'


# --------------------------------------------------------------------------
# roles
# --------------------------------------------------------------------------

def _mention_index(prog):
    """per function: the (record, field) pairs its own body mentions, and the names it calls directly; cached on the program"""
    idx = prog.__dict__.get('_h02_mentions')
    if idx is None:
        idx = {}
        byname = {}
        for f in prog.all_funcs():
            byname.setdefault(f.name, []).append(f)
            m, calls = set(), set()
            for blk in f.blocks.values():
                for e in blk.events:
                    if e['ev'] == 'call' and e.get('callee'):
                        calls.add(e['callee'])
                    for x in walk(e):
                        if x.get('k') == 'member':
                            m.add((x.get('record'), x['field']))
                        elif x.get('k') == 'call' and x.get('callee'):
                            calls.add(x['callee'])
                if blk.term and isinstance(blk.term.get('cond'), dict):
                    for x in walk(blk.term['cond']):
                        if x.get('k') == 'member':
                            m.add((x.get('record'), x['field']))
            idx[f.q] = (m, calls)
        idx = prog.__dict__['_h02_mentions'] = (idx, byname)
    return idx


def closure_mentions(prog, f, fields):
    """does f or a function it can reach through direct calls mention one of the (record, field) pairs?"""
    idx, byname = _mention_index(prog)
    seen, work = set(), [f]
    while work:
        g = work.pop()
        if g.q in seen:
            continue
        seen.add(g.q)
        m, calls = idx.get(g.q, (set(), set()))
        if m & fields:
            return True
        for n in calls:
            work += byname.get(n, [])
    return False


def nearest_roots(prog, pred, mentions=None):
    """Roots (exported functions, installed handlers, method slots) closest to the sites satisfying pred.  The sites are
    looked for in every root *with its helpers inlined* (a site may only become recognisable there: a store through a
    pointer parameter, a method call through an accessor or a cached function pointer); a site that was reached through
    another root belongs to that root.  `mentions`: (record, field) pairs one of which every site involves -- roots whose
    call closure never names one of them are not inlined at all."""
    rts = sorted(roles.roots(prog), key=lambda r: r.q)
    rq = {r.q for r in rts}
    out = []
    for r in rts:
        if mentions is not None and not closure_mentions(prog, r, set(mentions)):
            continue
        try:
            g = inlined(prog, r)
        except AnalysisBroken:
            continue
        for e in g.events():
            if pred(e) and not any(c[2] in rq and c[2] != r.q for c in e.get('chain', ())):
                out.append(r)
                break
    return out


def _fold(x, al=None):
    if isinstance(x, list):
        return [_fold(i, al) for i in x]
    if isinstance(x, dict):
        if al and x.get('k') == 'load':
            v = x.get('e')
            if isinstance(v, dict) and v.get('k') == 'var' and v.get('name') in al:
                return _fold(copy.deepcopy(al[v['name']]), al)
        new = {k: (_fold(v, al) if isinstance(v, (dict, list)) and k != 'sizeof' else v) for k, v in x.items()}
        k = new.get('k')
        if k == 'deref':
            inner = strip(new.get('e'))
            if isinstance(inner, dict) and inner.get('k') == 'addr' and isinstance(inner.get('e'), dict):
                return inner['e']
        elif k == 'member' and new.get('arrow'):
            inner = strip(new.get('base'))
            if isinstance(inner, dict) and inner.get('k') == 'addr' and isinstance(inner.get('e'), dict):
                new['arrow'] = False
                new['base'] = inner['e']
        elif k == 'bin' and new.get('op') in ('==', '!=') and al:
            r_ = _open_coded_list_empty(new)
            if r_ is not None:
                return r_
        return new
    return x


def fold_deref_addr(g):
    """Normalisation of an inlined function, in place: a local that caches the address of an object (`q = &st->u.epoll.notify`,
    `p = &pfd`; single assignment, address computed without reading memory) is replaced by that address where it is read;
    `*&x` -> x and `(&x)->f` -> x.f (what an access through an out-parameter, an accessor returning an address or such a
    cached address looks like after substitution); `p->next == p` on the result is iv_list_empty(p) as in the core."""
    al = addr_aliases(g)
    for blk in g.blocks.values():
        for e in blk.events:
            for k in ('lhs', 'rhs', 'args', 'fnexpr', 'e', 'value', 'init'):
                if isinstance(e.get(k), (dict, list)):
                    if k == 'lhs' and isinstance(e[k], dict) and e[k].get('k') == 'var':
                        continue
                    e[k] = _fold(e[k], al)
        if blk.term and isinstance(blk.term.get('cond'), dict):
            blk.term['cond'] = _fold(blk.term['cond'], al)
    return g


def inlined(prog, f, **kw):
    """Inliner(prog, **kw).inline(f), cached *on the program object* (roles.inlined caches by id(prog), which a
    later program loaded in the same process can reuse)."""
    cache = prog.__dict__.setdefault('_h02_inlined', {})
    key = (f.q, tuple(sorted(kw.items())))
    if key not in cache:
        from ..core import Inliner
        cache[key] = fold_deref_addr(Inliner(prog, **kw).inline(f))
    return cache[key]


def local_path(e):
    """(local variable, ((record, field), ...)) for `v.a.b` (dot steps only), else None."""
    steps = []
    x = e
    while isinstance(x, dict) and x.get('k') in ('cast', 'load', 'stmtexpr') and 'e' in x:
        x = x['e']
    while isinstance(x, dict) and x.get('k') == 'member' and not x.get('arrow'):
        steps.append((x.get('record'), x['field']))
        x = x['base']
        while isinstance(x, dict) and x.get('k') == 'cast':
            x = x['e']
    if steps and isinstance(x, dict) and x.get('k') == 'var' and x.get('vk') in ('local', 'param'):
        return (x['name'], tuple(reversed(steps)))
    return None


def peel(x):
    """strip loads/casts and collapse `*&x` (what an inlined out-parameter access looks like) to x"""
    while isinstance(x, dict):
        k = x.get('k')
        if k in ('cast', 'load', 'stmtexpr') and 'e' in x:
            x = x['e']
            continue
        if k == 'deref':
            inner = strip(x.get('e'))
            if isinstance(inner, dict) and inner.get('k') == 'addr':
                x = inner['e']
                continue
        break
    return x


def local_vars_in(x):
    return {y['name'] for y in walk(x) if y.get('k') == 'var' and y.get('vk') in ('local', 'param')}


def obj_pointer_names(lhs):
    """Spellings of the pointer to the object a member lvalue `p->f` / `o.f` lives in (for comparing with
    a call argument): canon(p) resp. '&' + canon(o), plus the cached-local spellings."""
    m = strip(lhs)
    if not (isinstance(m, dict) and m.get('k') == 'member'):
        return set()
    from ..core import names_of
    if m.get('arrow'):
        return set(names_of(m['base'])) | {canon(m['base'])}
    return {'&' + canon(m['base'])}


def pure_address(x):
    """the address of lvalue x is computed without reading memory: member / constant-subscript steps over a local object
    or over the object a (stable) pointer variable points to -- it denotes the same object wherever it is evaluated"""
    x = strip(x)
    while isinstance(x, dict):
        k = x.get('k')
        if k == 'var':
            return True
        if k == 'member':
            if x.get('arrow'):
                b = strip(x['base'])
                return isinstance(b, dict) and b.get('k') == 'var'
            x = strip(x['base'])
        elif k == 'index' and 'bound' in x and isinstance(strip(x.get('idx')), dict) and strip(x['idx']).get('k') == 'int':
            x = strip_load(x['base'])
        else:
            return False
    return False


def addr_aliases(g):
    """{local: address expression} for locals that cache the address of an object (`head = &st->u.epoll.notify`):
    assigned at one source location, from an `&lvalue` built only from variables that are themselves never
    re-assigned, and whose own address is not taken.  A use of such a local *is* that address."""
    stores, taken = {}, set()
    for e in g.events():
        if e['ev'] == 'store':
            l = strip(e['lhs'])
            if isinstance(l, dict) and l.get('k') == 'var':
                stores.setdefault(l['name'], []).append(e)
        for x in walk(e):
            if x.get('k') == 'addr':
                inner = strip(x.get('e'))
                if isinstance(inner, dict) and inner.get('k') == 'var':
                    taken.add(inner['name'])
    single = {n for n, es in stores.items() if n not in taken and all(e['op'] == '=' and 'rhs' in e for e in es)
              and len({e['loc'] for e in es}) == 1 and len({canon(e['rhs']) for e in es}) == 1}
    out = {}
    for n in sorted(single):
        r = strip(stores[n][0]['rhs'])
        if isinstance(r, dict) and r.get('k') == 'addr' and pure_address(r['e']) \
                and all(v in single or v not in stores for v in local_vars_in(r)):
            out[n] = r
    changed = True
    while changed:                  # a copy of a cached address is a cached address
        changed = False
        for n in sorted(single - set(out)):
            r = strip(stores[n][0]['rhs'])
            if isinstance(r, dict) and r.get('k') == 'var' and r['name'] in out:
                out[n] = out[r['name']]
                changed = True
    return out


def resolve_alias(x, aliases):
    """the address expression a pointer expression denotes: itself, or what the caching local was assigned"""
    x = strip(x)
    if aliases and isinstance(x, dict) and x.get('k') == 'var' and x['name'] in aliases:
        return aliases[x['name']]
    return x


def _is_const_type(t):
    return isinstance(t, str) and t.replace('static ', '').strip().startswith('const ')


def _readonly_object(prog, name):
    """no function stores into the global / static-local `name`, takes its address or lets it decay to a pointer:
    every occurrence is the base of a subscript that is read"""
    cache = prog.__dict__.setdefault('_h02_readonly', {})
    if name not in cache:
        ok = True
        for f in prog.all_funcs():
            for e in f.events():
                if e['ev'] == 'store':
                    r = lvalue_root(e['lhs'])
                    if r is not None and r.get('name') == name and r.get('vk') in ('global', 'staticlocal'):
                        ok = False
                nvar = nidx = 0
                for x in walk(e):
                    if x.get('k') == 'var' and x.get('name') == name and x.get('vk') in ('global', 'staticlocal'):
                        nvar += 1
                    if x.get('k') in ('index', 'member') and not x.get('arrow'):
                        b = x.get('base')
                        while isinstance(b, dict) and b.get('k') in ('load', 'cast') and 'e' in b:
                            b = b['e']
                        if isinstance(b, dict) and b.get('k') == 'var' and b.get('name') == name and b.get('vk') in ('global', 'staticlocal'):
                            nidx += 1
                if nvar != nidx:
                    ok = False
        cache[name] = ok
    return cache[name]


def canon_init(n):
    if isinstance(n, dict) and n.get('k') == 'init':
        if isinstance(n.get('fields'), dict):
            return '{%s}' % ','.join('.%s=%s' % (f, canon_init(x)) for f, x in sorted(n['fields'].items()))
        return '{%s}' % ','.join(canon_init(x) for x in n.get('elems', []))
    return canon(n)


def const_tables(fn, prog):
    """{(vk, name): initialiser} of the constant tables a function can read: static locals and globals that are
    declared const (or are provably never written) and have an initialiser."""
    out, clash = {}, set()
    for e in fn.events():
        if e['ev'] == 'decl' and e.get('static') and isinstance(e.get('init'), dict) and e['init'].get('k') == 'init':
            base = e['name'].split('@')[0]          # the inliner renames the declaration, not the references
            if _is_const_type(e.get('type')) or (prog is not None and _readonly_object(prog, base)):
                for n in {e['name'], base}:
                    key = ('staticlocal', n)
                    if key in out and canon_init(out[key]) != canon_init(e['init']):
                        clash.add(key)
                    out[key] = e['init']
    for key in clash:
        del out[key]
    if prog is not None:
        cache = prog.__dict__.get('_h02_gconst')
        if cache is None:
            byname = {}
            for key, g_ in prog.globals.items():
                if g_.get('extern_decl') or not isinstance(g_.get('init'), dict) or g_['init'].get('k') != 'init':
                    continue
                byname.setdefault(g_['name'], []).append(g_)
            cache = {}
            for n, gs in byname.items():
                if all(_is_const_type(g_.get('type')) or (g_.get('static') and _readonly_object(prog, n)) for g_ in gs):
                    if len({canon_init(g_['init']) for g_ in gs}) == 1:
                        cache[('global', n)] = gs[0]['init']
                    else:
                        # file-static tables of the same name in several units: told apart by the type of the reference
                        for g_ in gs:
                            tkey = ('global', n, g_.get('type'))
                            cache[tkey] = None if tkey in cache else g_['init']
            prog.__dict__['_h02_gconst'] = cache
        out.update({k: v for k, v in cache.items() if v is not None})
    return out


_ZERO = {'k': 'int', 'v': 0}
_CMPOPS = ('==', '!=', '<', '>', '<=', '>=')


def bounded_counters(fn, const_value):
    """locals that only ever hold small constants: every plain assignment stores a constant, every other store is
    ++ / -- / op= constant, and every comparison they take part in is against a constant (at least one exists):
    the counter of a loop over a constant table.  Their increments are computed exactly (the loop is unrolled by
    the disjunctive state space); all other increments give an unknown value."""
    cand, bad = set(), set()
    for e in fn.events():
        if e['ev'] != 'store':
            continue
        l = strip(e['lhs'])
        if not (isinstance(l, dict) and l.get('k') == 'var' and l.get('vk') == 'local'):
            continue
        if e['op'] in ('++', '--'):
            cand.add(l['name'])
        elif not isinstance(const_value(e.get('rhs')), int):
            bad.add(l['name'])
    cand -= bad

    def unwrap(x):
        x = strip(x)
        if isinstance(x, dict) and x.get('k') == 'incdec':
            x = strip(x.get('e'))
        return x
    compared = set()
    for b in fn.blocks.values():
        c = b.term.get('cond') if b.term else None
        if c is None:
            continue
        for x in walk(c):
            if x.get('k') == 'bin' and x.get('op') in _CMPOPS:
                for (a_, b_) in ((x['l'], x['r']), (x['r'], x['l'])):
                    v = unwrap(a_)
                    if isinstance(v, dict) and v.get('k') == 'var' and v['name'] in cand:
                        if isinstance(const_value(b_), int):
                            compared.add(v['name'])
                        else:
                            bad.add(v['name'])
    return (cand & compared) - bad


# --------------------------------------------------------------------------
# finite-domain disjunctive abstract interpretation
# --------------------------------------------------------------------------

def _truth(v):
    if v is None:
        return None
    if v == NZ:
        return True
    return bool(v)


_ARITH = {'+': lambda a, b: a + b, '-': lambda a, b: a - b, '*': lambda a, b: a * b,
          '&': lambda a, b: a & b, '|': lambda a, b: a | b, '^': lambda a, b: a ^ b,
          '<<': lambda a, b: a << b if 0 <= b < 64 else None, '>>': lambda a, b: a >> b if 0 <= b < 64 else None,
          '/': lambda a, b: (abs(a) // abs(b)) * (1 if (a < 0) == (b < 0) else -1) if b else None,
          '%': lambda a, b: a - b * ((abs(a) // abs(b)) * (1 if (a < 0) == (b < 0) else -1)) if b else None}
_CMP = {'==': lambda a, b: a == b, '!=': lambda a, b: a != b, '<': lambda a, b: a < b, '>': lambda a, b: a > b,
        '<=': lambda a, b: a <= b, '>=': lambda a, b: a >= b}


def is_addr(v):
    """('&', key): the address of the abstract object of a tracked memory key (`&fd->handler_in` kept in a local, in an
    element of a local table, passed through a helper): non-NULL, equal to the address of the same key only"""
    return isinstance(v, tuple) and len(v) == 2 and v[0] == '&'


def binop(op, a, b):
    """value of `a op b` over ints / NZ / addresses of tracked keys / None."""
    if is_addr(a) or is_addr(b):
        if is_addr(a) and is_addr(b) and op in ('==', '!='):
            return int((a == b) == (op == '=='))
        a = NZ if is_addr(a) else a
        b = NZ if is_addr(b) else b
    if isinstance(a, int) and isinstance(b, int):
        if op in _ARITH:
            v = _ARITH[op](a, b)
            return v if v is None or abs(v) < (1 << 40) else None
        if op in _CMP:
            return int(_CMP[op](a, b))
        return None
    if op == '&' and ((isinstance(a, int) and a == 0) or (isinstance(b, int) and b == 0)):
        return 0
    if op == '*' and ((isinstance(a, int) and a == 0) or (isinstance(b, int) and b == 0)):
        return 0
    if op in ('==', '!=') and ((a == NZ and isinstance(b, int) and b == 0) or (b == NZ and isinstance(a, int) and a == 0)):
        return int(op == '!=')
    if op == '|' and (a == NZ or b == NZ) and (a is not None and b is not None):
        return NZ
    return None


def blocks_reaching(fn, events):
    """ids of the blocks from which one of the events can still be reached (including their own blocks)"""
    preds = {}
    for b, blk in fn.blocks.items():
        for s_ in blk.succ:
            if s_ is not None:
                preds.setdefault(s_, set()).add(b)
    seen, work = set(), [e['_b'] for e in events]
    while work:
        b = work.pop()
        if b in seen:
            continue
        seen.add(b)
        work += list(preds.get(b, ()))
    return seen


class AbsInt:
    """keys: ('v', local) | ('l', local, ((rec, field), ...)) | whatever mem_key() returns for a member node
       (convention ('m', record, field)) | ('x', name) pseudo keys owned by the rule's hooks.

       mem_key(member node) -> key or None       typed memory fields the rule tracks (one abstract object per key)
       fork(key)            -> tuple of values    finite domain of a tracked key (unknown store -> one state per value)
       norm(key, v, event)  -> v                  value normalisation on store (e.g. pointer -> 0/1)
       pinned               -> keys never written or forgotten (parameters of the abstract run)
       on_event(e, s, ai)   -> dict or None       rule hook, runs before the built-in transfer
       on_edge(blk, si, s, ai) -> dict or None    rule hook on a feasible conditional edge
       quiet_calls          -> callees that do not write through their pointer arguments"""

    def __init__(self, fn, mem_key=None, fork=None, norm=None, pinned=(), on_event=None, on_edge=None,
                 quiet_calls=(), prog=None, max_states=6000, on_nested_init=None, relevant=None):
        self.fn = fn
        self.relevant = relevant        # block ids worth exploring (those from which a site of the rule is reachable), or None
        self.mem_key = mem_key
        self.fork = fork or (lambda k: None)
        self.norm = norm
        self.pinned = set(pinned)
        self.on_event = on_event
        self.on_edge = on_edge
        self.quiet = set(quiet_calls)
        self.prog = prog
        self.max_states = max_states
        self.on_nested_init = on_nested_init
        names = set()
        for e in fn.events():
            if e['ev'] == 'decl':
                names.add(e['name'])
            elif e['ev'] == 'store':
                l = strip(e['lhs'])
                if isinstance(l, dict) and l.get('k') == 'var':
                    names.add(l['name'])
                else:
                    r = lvalue_root(e['lhs'])
                    if r is not None:
                        names.add(r['name'])
        self.live = liveness(fn, names) if names else {}
        self.tracked_locals = names
        self.consts = const_tables(fn, prog)
        self._atoms = {}
        self.counters = set()
        self.counters = bounded_counters(fn, lambda x: self.ev(x, {}))

    COUNTER_CAP = 64

    def _const_read(self, e, s):
        """value of a read `T[i][j].f` of a constant table under the state: the element the (decided) subscripts
        select; with an undecided subscript the common value of all candidates, if there is one."""
        steps, x = [], e
        while True:
            while isinstance(x, dict) and x.get('k') in ('cast', 'load', 'stmtexpr') and 'e' in x:
                x = x['e']
            if not isinstance(x, dict):
                return None
            k = x.get('k')
            if k == 'member' and not x.get('arrow'):
                steps.append(('f', x['field']))
                x = x['base']
            elif k == 'index':
                steps.append(('i', x['idx']))
                x = x['base']
            elif k == 'var':
                break
            else:
                return None
        init = self.consts.get((x.get('vk'), x['name']))
        if init is None:
            init = self.consts.get((x.get('vk'), x['name'], x.get('type')))
        if init is None or not steps:
            return None
        nodes = [init]
        for kind, arg in reversed(steps):
            nxt = []
            iv = self.ev(arg, s) if kind == 'i' else None
            for n in nodes:
                if n is _ZERO:
                    nxt.append(_ZERO)
                elif not (isinstance(n, dict) and n.get('k') == 'init'):
                    return None
                elif kind == 'i':
                    els = n.get('elems')
                    if not isinstance(els, list):
                        return None
                    if iv == NZ or (isinstance(iv, int) and iv < 0):
                        return None
                    if isinstance(iv, int):
                        nxt.append(els[iv] if iv < len(els) else _ZERO)
                    else:
                        nxt += els
                else:
                    flds = n.get('fields')
                    if not isinstance(flds, dict):
                        return None
                    nxt.append(flds.get(arg, _ZERO))
            nodes = nxt
        vals = set()
        for n in nodes:
            if isinstance(n, dict) and n.get('k') == 'init':
                return None
            vals.add(self.ev(n, s))
        return vals.pop() if len(vals) == 1 else None

    # -- expressions ---------------------------------------------------------
    def _local_array(self, x):
        """the local array variable an `a[i]` node subscripts (a real array, not a pointer), or None"""
        if isinstance(x, dict) and x.get('k') == 'index' and 'bound' in x:
            b = strip_load(x.get('base'))
            while isinstance(b, dict) and b.get('k') == 'cast':
                b = strip_load(b.get('e'))
            if isinstance(b, dict) and b.get('k') == 'var' and b.get('vk') == 'local':
                return b['name']
        return None

    def key_of(self, e, s=None):
        x = peel(e)
        if not isinstance(x, dict):
            return None
        k = x.get('k')
        if k == 'var' and x.get('vk') in ('local', 'param'):
            return ('v', x['name'])
        if k == 'deref' and s is not None:
            p = self.ev(x.get('e'), s)          # `*p = v` with p known to hold the address of a tracked field
            return p[1] if is_addr(p) else None
        if k == 'index' and s is not None:
            # element of a local array under a decided subscript (a small table filled at run time and walked by a counter)
            name = self._local_array(x)
            if name is not None:
                iv = self.ev(x.get('idx'), s)
                if isinstance(iv, int) and 0 <= iv < 64:
                    return ('l', name, (('#', iv),))
                return None
            return self._local_elem_path(x, s)
        if k == 'member':
            if self.mem_key:
                mk = self.mem_key(x)
                if mk is not None:
                    return mk
            lp = local_path(x)
            if lp:
                return ('l',) + lp
            if s is not None and not x.get('arrow'):
                return self._local_elem_path(x, s)
        return None

    def _local_elem_path(self, x, s):
        """key of `t[i].f` / `t[i].a[j]`: a part of a local table of records under decided subscripts, or None"""
        steps = []
        while True:
            while isinstance(x, dict) and x.get('k') in ('cast', 'load', 'stmtexpr') and 'e' in x:
                x = x['e']
            if not isinstance(x, dict):
                return None
            k = x.get('k')
            if k == 'member' and not x.get('arrow'):
                steps.append((x.get('record'), x['field']))
                x = x['base']
            elif k == 'index' and 'bound' in x:
                iv = self.ev(x.get('idx'), s)
                if not (isinstance(iv, int) and 0 <= iv < 64):
                    return None
                steps.append(('#', iv))
                x = x['base']
            elif k == 'var' and x.get('vk') == 'local' and steps:
                return ('l', x['name'], tuple(reversed(steps)))
            else:
                return None

    def ev(self, e, s):
        if not isinstance(e, dict):
            return None
        k = e.get('k')
        if k == 'int':
            return e['v']
        if k == 'null':
            return 0
        if k in ('load', 'cast', 'stmtexpr', 'compound'):
            return self.ev(e.get('e'), s)
        if k == 'var':
            vk = e.get('vk')
            if vk == 'func':
                return NZ
            if vk == 'enum':
                return e.get('v')
            if vk in ('local', 'param'):
                return s.get(('v', e['name']))
            return None
        if k == 'str':
            return NZ
        if k == 'addr':
            # the address of a tracked memory field is a value of its own: what is read / called / stored through it is the field
            x = peel(e.get('e'))
            if self.mem_key and isinstance(x, dict) and x.get('k') == 'member':
                mk = self.mem_key(x)
                if mk is not None:
                    return ('&', mk)
            return NZ
        if k == 'deref':
            x = peel(e)
            if x is not e:
                return self.ev(x, s)
            p = self.ev(e.get('e'), s)
            return s.get(p[1]) if is_addr(p) else None
        if k == 'member':
            key = self.key_of(e, s)
            if key is not None:
                return s.get(key)
            return self._const_read(e, s) if self.consts else None
        if k == 'index':
            key = self.key_of(e, s)
            if key is not None:
                return s.get(key)
            return self._const_read(e, s) if self.consts else None
        if k == 'assign':
            return self.ev(e.get('l'), s)       # `(v = e) != NULL`: the store was emitted as an earlier event
        if k == 'incdec':
            v = self.ev(e.get('e'), s)          # the side effect was emitted as an earlier store event
            if e.get('prefix'):
                return v
            if isinstance(v, int):
                return v - 1 if e['op'] == '++' else v + 1
            return None
        if k == 'un':
            v = self.ev(e['e'], s)
            if e['op'] == '!':
                t = _truth(v)
                return None if t is None else int(not t)
            if isinstance(v, int):
                if e['op'] == '-':
                    return -v
                if e['op'] == '~':
                    return ~v
                if e['op'] == '+':
                    return v
            return None
        if k == 'bin':
            op = e['op']
            if op in ('&&', '||'):
                a = _truth(self.ev(e['l'], s))
                if op == '&&' and a is False:
                    return 0
                if op == '||' and a is True:
                    return 1
                b = _truth(self.ev(e['r'], s))
                if op == '&&':
                    if b is False:
                        return 0
                    return 1 if (a and b) else None
                if b is True:
                    return 1
                return 0 if (a is False and b is False) else None
            return binop(op, self.ev(e['l'], s), self.ev(e['r'], s))
        if k == 'cond':
            c = _truth(self.ev(e['c'], s))
            if c is True:
                return self.ev(e['c'], s) if e.get('gnu') else self.ev(e['a'], s)
            if c is False:
                return self.ev(e['b'], s)
            a, b = self.ev(e['a'], s), self.ev(e['b'], s)
            return a if (a is not None and a == b) else None
        return None

    # -- transfer ------------------------------------------------------------
    def _kill_local(self, s, name):
        for key in [k for k in s if (k[0] == 'v' and k[1] == name) or (k[0] == 'l' and k[1] == name)]:
            if key not in self.pinned:
                del s[key]

    def _set(self, s, key, v, e=None):
        """-> list of states"""
        if key in self.pinned:
            return [s]
        if self.norm:
            v = self.norm(key, v, e)
        if v is None:
            dom = self.fork(key)
            if dom:
                # the unknown value of a plain local (a handler parameter) is decided together with the field
                src = strip(e.get('rhs')) if (e is not None and e.get('op') == '=' and 'rhs' in e) else None
                bind = src['name'] if (isinstance(src, dict) and src.get('k') == 'var' and src.get('vk') in ('local', 'param')
                                       and tuple(dom) == (0, 1) and self.norm is not None) else None
                out = []
                for d in dom:
                    s2 = dict(s)
                    s2[key] = d
                    if bind is not None:
                        s2[('v', bind)] = NZ if d else 0
                    out.append(s2)
                return out
            s.pop(key, None)
        else:
            s[key] = v
        return [s]

    def havoc(self, e):
        """does this call run code that may change the tracked memory fields?"""
        if 'fnexpr' in e:
            ck = callback_kind(e)
            return not (ck and ck[0] == 'method')
        nm = e.get('callee')
        if nm in PRIMITIVES or nm in self.quiet:
            return False
        if self.prog is not None:
            names = self.prog.__dict__.get('_h02_defined')
            if names is None:
                names = self.prog.__dict__['_h02_defined'] = {f.name for f in self.prog.funcs.values() if f.blocks}
            return nm in names
        return False

    def step(self, e, s):
        if self.on_event:
            r = self.on_event(e, s, self)
            if r is not None:
                s = r
        ev = e['ev']
        if ev == 'store':
            l = peel(e['lhs'])
            key = self.key_of(e['lhs'], s)
            op = e['op']
            if key is None and self._local_array(l) is not None:
                s = dict(s)
                self._kill_local(s, self._local_array(l))       # element of a local array under an undecided subscript
                return [s]
            if key is None and isinstance(l, dict) and l.get('k') == 'member' and not l.get('arrow'):
                r_ = lvalue_root(l)
                if r_ is not None and r_.get('vk') == 'local':
                    s = dict(s)
                    self._kill_local(s, r_['name'])             # field of a record of a local table, subscript undecided
                    return [s]
            if isinstance(l, dict) and l.get('k') == 'var' and op == '=':
                s = dict(s)
                for k2 in [k for k in s if k[0] == 'l' and k[1] == l['name'] and k not in self.pinned]:
                    del s[k2]
                src = peel(e.get('rhs'))
                if isinstance(src, dict) and src.get('k') == 'var' and src.get('vk') in ('local', 'param') and src['name'] != l['name']:
                    # struct assignment between locals (a struct built by a helper and returned by value): the fields go along
                    for k2 in [k for k in s if k[0] == 'l' and k[1] == src['name']]:
                        if ('l', l['name'], k2[2]) not in self.pinned:
                            s[('l', l['name'], k2[2])] = s[k2]
            if key is None:
                return [s]
            if op == '=':
                v = self.ev(e.get('rhs'), s)
            elif op in ('++', '--'):
                cur = s.get(key)
                v = None
                if key[0] == 'v' and key[1] in self.counters and isinstance(cur, int):
                    v = cur + (1 if op == '++' else -1)
                    if abs(v) > self.COUNTER_CAP:
                        v = None
            else:
                v = binop(op[:-1], s.get(key), self.ev(e.get('rhs'), s))
            return self._set(dict(s), key, v, e)
        if ev == 'decl':
            s = dict(s)
            self._kill_local(s, e['name'])
            init = e.get('init')
            while isinstance(init, dict) and init.get('k') == 'compound':
                init = init.get('e')
            if isinstance(init, dict) and init.get('k') == 'init' and isinstance(init.get('elems'), list) and not e.get('static') \
                    and 'bound' in e and len(init['elems']) <= 64:
                # `T a[] = { x, y, z }`: the initialiser is the first store to every element
                for i_, x in enumerate(init['elems']):
                    if isinstance(x, dict) and x.get('k') == 'init':
                        continue
                    v = self.ev(x, s)
                    if v is not None:
                        s[('l', e['name'], (('#', i_),))] = v
            if isinstance(init, dict) and init.get('k') == 'init' and isinstance(init.get('fields'), dict):
                # `struct T v = { .a = x, .u.p = y }`: the initialiser is the first store to every field
                rec = init.get('record') or e.get('record')
                for fld, x in init['fields'].items():
                    key = ('l', e['name'], ((rec, fld),))
                    if isinstance(x, dict) and x.get('k') == 'init':
                        if self.on_nested_init:
                            self.on_nested_init(s, e['name'], rec, fld, x)
                        continue
                    v = self.ev(x, s)
                    if self.norm:
                        v = self.norm(key, v, {'rhs': x, 'op': '='})
                    if v is not None and key not in self.pinned:
                        s[key] = v
            return [s]
        if ev == 'call':
            s2 = None
            if e.get('callee') not in self.quiet:
                for a in e.get('args', []):
                    a = strip(a)
                    if isinstance(a, dict) and a.get('k') == 'addr':
                        r = lvalue_root(a['e'])
                        if r is not None and r.get('vk') in ('local', 'param'):
                            s2 = dict(s) if s2 is None else s2
                            self._kill_local(s2, r['name'])
            if self.havoc(e):
                s2 = dict(s) if s2 is None else s2
                for k in [k for k in s2 if k[0] == 'm' and k not in self.pinned]:
                    del s2[k]
            return [s2 if s2 is not None else s]
        return [s]

    def _cmp_known(self, cur, op, rv):
        if isinstance(cur, int) and isinstance(rv, int) and op in _CMP:
            return _CMP[op](cur, rv)
        if (cur == NZ or is_addr(cur)) and isinstance(rv, int) and rv == 0 and op in ('==', '!='):
            return op == '!='
        return None

    def edge_one(self, blk, si, s):
        if not blk.term or len(blk.succ) < 2:
            return s
        cls = blk.term.get('cls')
        c = blk.term.get('cond')
        if cls == 'MethodDispatch' or c is None:
            return s
        if cls == 'SwitchStmt':
            v = self.ev(c, s)
            if isinstance(v, int):
                cases = blk.term.get('cases', [])
                pick = [i for i, cv in enumerate(cases) if cv == v] or [i for i, cv in enumerate(cases) if cv == 'default']
                if pick and len(cases) == len(blk.succ) and blk.succ[si] not in {blk.succ[i] for i in pick}:
                    return None
            return s
        if len(blk.succ) != 2:
            return s
        t = _truth(self.ev(c, s))
        if t is not None:
            if t != (si == 0):
                return None
        else:
            atoms = self._atoms.get((blk.id, si))
            if atoms is None:
                atoms = self._atoms[(blk.id, si)] = list(norm_cond(c, si == 0))
            for (op, lc, rc, l, r) in atoms:
                if op == 'const' or not isinstance(l, dict):
                    continue
                key = self.key_of(l)
                if key is None or key in self.pinned:
                    continue
                rv = self.ev(r, s) if isinstance(r, dict) else None
                cur = s.get(key)
                if cur is not None:
                    if self._cmp_known(cur, op, rv) is False:
                        return None
                    continue
                dom = self.fork(key)
                if op == '==' and isinstance(rv, int):
                    if dom and rv not in dom:
                        return None
                    s = dict(s)
                    s[key] = rv
                elif op == '!=' and isinstance(rv, int):
                    if dom:
                        rest = [d for d in dom if d != rv]
                        if not rest:
                            return None
                        if len(rest) == 1:
                            s = dict(s)
                            s[key] = rest[0]
                    elif rv == 0:
                        s = dict(s)
                        s[key] = NZ
        if self.on_edge:
            r2 = self.on_edge(blk, si, s, self)
            if r2 is not None:
                s = r2
        return s

    def run(self, init_states):
        fn = self.fn
        live = self.live

        def freeze(s):
            return frozenset(s.items())

        def transfer(e, S):
            out = set()
            la = live.get((e.get('_b'), e.get('_i')))
            for fs in S:
                for s2 in self.step(e, dict(fs)):
                    if la is not None:
                        for k in [k for k in s2 if k[0] in ('v', 'l') and k[1] in self.tracked_locals
                                  and k[1] not in la and k not in self.pinned]:
                            del s2[k]
                    out.add(freeze(s2))
            if len(out) > self.max_states:
                raise AnalysisBroken('abstract interpretation of %s: more than %d states' % (fn.name, self.max_states))
            return frozenset(out)

        def edge(blk, si, S):
            if self.relevant is not None and blk.succ[si] not in self.relevant:
                return None
            out = set()
            for fs in S:
                s2 = self.edge_one(blk, si, dict(fs))
                if s2 is not None:
                    out.add(freeze(s2))
            return frozenset(out) if out else None

        init = frozenset(freeze(dict(s)) for s in init_states)
        _, ev_in = forward(fn, init, transfer, lambda a, b: a | b, edge=edge)
        return ev_in

    def root_exits(self, ev_in):
        """[(event or None, states)] at the normal returns of the root."""
        out = []
        fn = self.fn
        for b, blk in fn.blocks.items():
            for i, e in enumerate(blk.events):
                if e['ev'] == 'ret' and not e.get('chain'):
                    S = ev_in.get((b, i))
                    if S:
                        out.append((e, S))
        S = ev_in.get((fn.exit, 0))
        if S and fn.ret == 'void':
            out.append((None, S))
        return out


# --------------------------------------------------------------------------
# path-wise symbolic evaluation (terms over the entry memory)
# --------------------------------------------------------------------------

def t_int(n):
    return ('int', n)


def t_add(t, n):
    if n == 0:
        return t
    if t[0] == 'int':
        return ('int', t[1] + n)
    if t[0] == 'add':
        return t_add(t[1], t[2] + n)
    return ('add', t, n)


def term_root(a):
    """base of an address term below its fld/elem steps"""
    while isinstance(a, tuple) and a and a[0] in ('fld', 'elem'):
        a = a[1]
    return a


def term_contains(t, sub):
    if t == sub:
        return True
    if isinstance(t, tuple):
        return any(term_contains(x, sub) for x in t)
    return False


def term_replace(t, old, new):
    if t == old:
        return new
    if isinstance(t, tuple):
        return tuple(term_replace(x, old, new) for x in t)
    return t


class SymPath:
    def __init__(self, M, facts, cut=False):
        self.M = M
        self.facts = facts
        self.cut = cut

    def read(self, a):
        return self.M.get(a, ('ld', a))

    def known_equal(self, a, b):
        return a == b or ('==', a, b) in self.facts or ('==', b, a) in self.facts


class Sym:
    """Enumerates the paths of a (practically loop-free) inlined root; memory is a map from address terms
    to value terms, both built over `('ld', addr)` = contents at entry.  Syntactically different address
    terms are taken to be different locations (no may-alias reasoning: this is a checker for missing or
    wrong stores, not a verifier)."""

    def __init__(self, fn, max_paths=4000, max_visits=2):
        self.fn = fn
        self.max_paths = max_paths
        self.max_visits = max_visits
        self.types = {}

    # -- terms -----------------------------------------------------------------
    def addr(self, e, M):
        if not isinstance(e, dict):
            return ('unk', '?')
        k = e.get('k')
        if k in ('cast', 'stmtexpr', 'compound', 'load'):
            return self.addr(e.get('e'), M)
        if k == 'var':
            if e.get('vk') in ('local', 'param'):
                return ('var', e['name'])
            return ('glob', e['name'])
        if k == 'member':
            base = self.val(e['base'], M) if e.get('arrow') else self.addr(e['base'], M)
            a = ('fld', base, e.get('record'), e['field'])
            self.types[a] = e.get('type')
            return a
        if k == 'index':
            b = e['base']
            base = self.val(b, M) if (isinstance(b, dict) and b.get('k') == 'load') else self.addr(b, M)
            a = ('elem', base, self.val(e['idx'], M))
            self.types[a] = e.get('type')
            return a
        if k == 'deref':
            return self.val(e['e'], M)
        return ('unk', canon(e))

    def read(self, a, M):
        if a in M:
            return M[a]
        # a local struct that was filled in field by field, read as a whole (returned by value, assigned to an array entry)
        if a[0] == 'var':
            flds = [(k[3], M[k]) for k in M if k[0] == 'fld' and k[1] == a]
            if flds:
                recs = {k[2] for k in M if k[0] == 'fld' and k[1] == a}
                return ('struct', sorted(recs, key=str)[0], tuple(sorted(flds)))
        # field of a struct that was copied as a whole
        if a[0] == 'fld' and a[1] in M:
            v = M[a[1]]
            if isinstance(v, tuple) and v[0] == 'ld':
                return ('ld', ('fld', v[1], a[2], a[3]))
            if isinstance(v, tuple) and v[0] == 'struct':
                return dict(v[2]).get(a[3], ('int', 0))
            return ('fieldof', v, a[2], a[3])
        return ('ld', a)

    def val(self, e, M):
        if not isinstance(e, dict):
            return ('unk', '?')
        k = e.get('k')
        if k == 'int':
            return ('int', e['v'])
        if k == 'null':
            return ('int', 0)
        if k == 'load':
            inner = e['e']
            while isinstance(inner, dict) and inner.get('k') in ('cast', 'compound') and 'e' in inner:
                inner = inner['e']
            if isinstance(inner, dict) and inner.get('k') == 'init':
                return self.val(inner, M)          # value of a compound literal
            return self.read(self.addr(e['e'], M), M)
        if k in ('cast', 'stmtexpr', 'compound'):
            return self.val(e.get('e'), M)
        if k == 'var':
            if e.get('vk') == 'func':
                return ('fn', e['name'])
            if e.get('vk') == 'enum':
                return ('int', e.get('v'))
            return self.addr(e, M)          # array decays to its address
        if k == 'addr':
            return self.addr(e['e'], M)
        if k in ('member', 'index', 'deref'):
            return self.read(self.addr(e, M), M)
        if k == 'incdec':
            t = self.read(self.addr(e['e'], M), M)      # the side effect was emitted as an earlier store event
            if e.get('prefix'):
                return t
            return t_add(t, -1 if e['op'] == '++' else 1)
        if k == 'un':
            v = self.val(e['e'], M)
            if v[0] == 'int':
                if e['op'] == '-':
                    return ('int', -v[1])
                if e['op'] == '!':
                    return ('int', int(not v[1]))
                if e['op'] == '~':
                    return ('int', ~v[1])
            return ('op', e['op'], v)
        if k == 'bin':
            a, b = self.val(e['l'], M), self.val(e['r'], M)
            op = e['op']
            if op == '+' and b[0] == 'int':
                return t_add(a, b[1])
            if op == '+' and a[0] == 'int':
                return t_add(b, a[1])
            if op == '-' and b[0] == 'int':
                return t_add(a, -b[1])
            if a[0] == 'int' and b[0] == 'int':
                r = binop(op, a[1], b[1]) if op not in ('&&', '||') else \
                    int((bool(a[1]) and bool(b[1])) if op == '&&' else (bool(a[1]) or bool(b[1])))
                if isinstance(r, int):
                    return ('int', r)
            if op in ('==', '!=') and a == b:
                return ('int', int(op == '=='))
            return ('op', op, a, b)
        if k == 'cond':
            c = self.val(e['c'], M)
            if c[0] == 'int':
                return self.val(e['a'] if c[1] else e['b'], M)
            return ('op', '?:', c, self.val(e['a'], M), self.val(e['b'], M))
        if k == 'call':
            return ('call', e.get('callee') or canon(e.get('fnexpr')), tuple(self.val(a, M) for a in e.get('args', [])))
        if k == 'assign':
            return self.read(self.addr(e['l'], M), M)
        if k == 'container_of':
            return ('container_of', self.val(e['e'], M), e.get('record'), e.get('member'))
        if k == 'init' and isinstance(e.get('fields'), dict):
            return ('struct', e.get('record'), tuple(sorted((f, self.val(x, M)) for f, x in e['fields'].items())))
        return ('unk', canon(e))

    # -- execution -------------------------------------------------------------
    def _exec(self, e, M):
        ev = e['ev']
        if ev == 'store':
            a = self.addr(e['lhs'], M)
            op = e['op']
            if op == '=':
                v = self.val(e.get('rhs'), M)
            elif op in ('++', '--'):
                v = t_add(self.read(a, M), 1 if op == '++' else -1)
            elif op in ('+=', '-=') and self.val(e.get('rhs'), M)[0] == 'int':
                n = self.val(e['rhs'], M)[1]
                v = t_add(self.read(a, M), n if op == '+=' else -n)
            else:
                v = ('op', op[:-1], self.read(a, M), self.val(e.get('rhs'), M))
            for k in [k for k in M if k[0] == 'fld' and k[1] == a]:
                del M[k]
            M[a] = v
        elif ev == 'decl':
            a = ('var', e['name'])
            for k in [k for k in M if k == a or term_root(k) == a]:
                del M[k]
        elif ev == 'call':
            if e.get('callee') in ('memcpy', 'memmove', '__builtin_memcpy', '__builtin_memmove') and len(e.get('args', [])) == 3:
                dst, src = self.val(e['args'][0], M), self.val(e['args'][1], M)
                for k in [k for k in M if k[0] == 'fld' and k[1] == dst]:
                    del M[k]
                M[dst] = self.read(src, M)
                return
            for x in e.get('args', []):
                x = strip(x)
                if isinstance(x, dict) and x.get('k') == 'addr':
                    r = lvalue_root(x['e'])
                    if r is not None and r.get('vk') in ('local', 'param'):
                        a = ('var', r['name'])
                        for k in [k for k in M if k == a or term_root(k) == a]:
                            M[k] = ('unk', 'after %s' % e.get('callee'))

    def _decide(self, atom, M, facts):
        (op, lc, rc, l, r) = atom
        if op == 'const':
            return (lc == 'True'), None
        a = self.val(l, M) if isinstance(l, dict) else ('unk', lc)
        b = self.val(r, M) if isinstance(r, dict) else ('unk', rc)
        if a[0] == 'int' and b[0] == 'int' and op in _CMP:
            return _CMP[op](a[1], b[1]), None
        if op in ('==', '!='):
            if a == b:
                return op == '==', None
            if ('==', a, b) in facts or ('==', b, a) in facts:
                return op == '==', None
            if ('!=', a, b) in facts or ('!=', b, a) in facts:
                return op == '!=', None
            return None, (op, a, b)
        return None, (op, a, b)

    def run(self):
        fn = self.fn
        paths = []
        stack = [(fn.entry, {}, frozenset(), {})]
        steps = 0
        while stack:
            b, M, facts, visits = stack.pop()
            steps += 1
            if steps > 200000 or len(paths) > self.max_paths:
                raise AnalysisBroken('symbolic evaluation of %s: too many paths' % fn.name)
            n = visits.get(b, 0) + 1
            if n > self.max_visits:
                paths.append(SymPath(M, facts, cut=True))
                continue
            visits = dict(visits)
            visits[b] = n
            blk = fn.blocks[b]
            M = dict(M)
            ended = False
            for e in blk.events:
                self._exec(e, M)
                if e['ev'] == 'ret' and not e.get('chain'):
                    paths.append(SymPath(M, facts))
                    ended = True
                    break
            if ended:
                continue
            if blk.noreturn:
                continue
            succ = [s_ for s_ in blk.succ]
            if not succ or b == fn.exit:
                paths.append(SymPath(M, facts))
                continue
            c = blk.term.get('cond') if blk.term else None
            if len(succ) == 2 and c is not None and blk.term.get('cls') not in ('SwitchStmt', 'MethodDispatch'):
                for si in (0, 1):
                    if succ[si] is None:
                        continue
                    feasible, newf = True, set()
                    for atom in norm_cond(c, si == 0):
                        d, f = self._decide(atom, M, facts)
                        if d is False:
                            feasible = False
                            break
                        if f is not None:
                            newf.add(f)
                    if feasible:
                        stack.append((succ[si], M, facts | frozenset(newf), visits))
            else:
                for s_ in succ:
                    if s_ is not None:
                        stack.append((s_, M, facts, visits))
        return paths
