"""Helpers of the C08 rules (local equivalents of wanted core facilities).

normalise(g)     value propagation on an (inlined, private) function: reads of a local that is
                 a still-valid copy of an address (`lock = &st->event_list_mutex`), of another
                 variable (`st = _st`, `raw = iv_event_use_event_raw`) or of a memory read
                 (renamed parameters of inlined helpers included) are replaced by the copied
                 expression, so that every rule sees the same access path whether or not a
                 value was cached in a local.  core.copy_propagate does this only for memory
                 reads into `local` variables.
root_contexts    every library entry point (roles.roots) from which a site is reachable, inlined
                 and normalised; cached per program.
"""
import copy
import json
import os

from ..core import (AnalysisBroken, Inliner, PURE_CALLS, partition_flags, fold, canon, forward, last_member, lvalue_steps, norm_cond,
                    simplify, strip, strip_load, subst, walk)
from ..analyses import callback_kind
from .. import roles

LIST_WRITERS = {'iv_list_add', 'iv_list_add_tail', 'iv_list_del', 'iv_list_del_init', 'INIT_IV_LIST_HEAD',
                '__iv_list_steal_elements', 'iv_list_splice', 'iv_list_splice_init', 'iv_list_splice_tail',
                'iv_list_splice_tail_init', '__iv_list_splice'}
LIST_KEYS = frozenset({('iv_list_head', 'next'), ('iv_list_head', 'prev')})
DETACH = ('__iv_list_steal_elements', 'iv_list_splice_init', 'iv_list_splice_tail_init')
_IMPURE_NODES = ('call', 'assign', 'incdec', 'stmtexpr', 'other', 'deep', 'va_arg', 'init', 'compound', 'cond', 'container_of')


# --------------------------------------------------------------------------
# value propagation
# --------------------------------------------------------------------------

def _loc_key(x):
    """key of the memory location an lvalue expression denotes"""
    x = strip_load(x)
    while isinstance(x, dict) and x.get('k') == 'cast':
        x = strip_load(x['e'])
    if not isinstance(x, dict):
        return ('mem', '*')
    k = x.get('k')
    if k == 'var':
        return ('var', x['name'])
    if k == 'member':
        return (x.get('record'), x['field'])
    return ('mem', '*')


def _keys_read(e):
    """what evaluating e reads: every variable mentioned, and the location of every load that
    is not a plain variable read (an address computation `&p->f` reads only `p`)"""
    keys = set()
    for x in walk(e):
        k = x.get('k')
        if k == 'var' and x.get('vk') != 'func':
            keys.add(('var', x['name']))
        elif k == 'load':
            keys.add(_loc_key(x.get('e')))
        elif k in ('deref', 'index'):
            keys.add(('mem', '*'))
    return frozenset(keys)


def _copyable(rhs, name):
    if not isinstance(rhs, dict):
        return False
    r = strip(rhs)
    if not isinstance(r, dict) or r.get('k') in ('int', 'null', 'str'):
        return False
    n = 0
    for x in walk(rhs):
        n += 1
        k = x.get('k')
        if k in _IMPURE_NODES or k in ('bin', 'un'):
            return False
    if n > 40:
        return False
    if r.get('k') not in ('var', 'member', 'index', 'deref', 'addr'):
        return False
    return ('var', name) not in _keys_read(rhs)


def _unwas(x, excluded):
    """spell a copied expression with the locals core.copy_propagate had replaced (`_was`): at the point
    of the copy they hold the same value, and a copy that reads only variables survives calls and barriers"""
    def r(nd):
        w = nd.get('_was')
        if w and w not in excluded and nd.get('k') in ('load', 'cast', 'addr'):
            return {'k': 'load', 'e': {'k': 'var', 'name': w, 'vk': 'local', 'type': nd.get('type', '')}}
        return None
    return subst(x, r)


def _propagate_once(fn):
    addr_taken, shared = set(), set()
    for e in fn.events():
        for x in walk(e):
            if x.get('k') == 'addr':
                v = strip(x['e'])
                if isinstance(v, dict) and v.get('k') == 'var':
                    addr_taken.add(v['name'])
            if x.get('k') == 'var' and x.get('vk') in ('global', 'staticlocal'):
                shared.add(x['name'])
    shared |= addr_taken

    def target(e):
        if e['ev'] == 'store' and e.get('op') == '=' and 'rhs' in e:
            l = strip(e['lhs'])
            if isinstance(l, dict) and l.get('k') == 'var' and l.get('vk') in ('local', 'param') and l['name'] not in addr_taken:
                return l['name']
        return None

    def escapes(keys):
        # values that code we do not see may change: memory, globals, address-taken locals
        return any(k[0] != 'var' or k[1] in shared for k in keys)

    def transfer(e, S):
        ev = e['ev']
        kills = set()
        if ev == 'store':
            for st in lvalue_steps(e['lhs']):
                kills.add(st)
            l = strip(e['lhs'])
            if isinstance(l, dict) and l.get('k') == 'var':
                kills.add(('var', l['name']))
            elif isinstance(l, dict) and l.get('k') in ('deref', 'index') and not lvalue_steps(e['lhs']):
                kills.add(('mem', '*'))
        elif ev == 'decl':
            kills.add(('var', e['name']))
        elif ev == 'call':
            for a in e.get('args', []):
                a = strip(a)
                if isinstance(a, dict) and a.get('k') == 'addr':
                    v = strip(a['e'])
                    if isinstance(v, dict) and v.get('k') == 'var':
                        kills.add(('var', v['name']))
            nm = e.get('callee')
            if nm in LIST_WRITERS:
                S = frozenset(x for x in S if not (x[2] & LIST_KEYS) and ('mem', '*') not in x[2])
            elif 'fnexpr' in e or nm not in PURE_CALLS:
                S = frozenset(x for x in S if not escapes(x[2]))
        if kills:
            S = frozenset(x for x in S if not (x[2] & kills) and ('var', x[0]) not in kills)
        t = target(e)
        if t is not None:
            S = frozenset(x for x in S if x[0] != t)
            rhs = _unwas(e['rhs'], addr_taken | {t})
            if _copyable(rhs, t):
                S = S | {(t, json.dumps(rhs, sort_keys=True), _keys_read(rhs))}
        return S

    _, ev_in = forward(fn, frozenset(), transfer, lambda a, b: a & b)
    n = [0]

    def rewrite(x, S):
        avail = {v: ex for (v, ex, _) in S}
        if not avail or not isinstance(x, (dict, list)):
            return x

        def r(nd):
            if nd.get('k') == 'load':
                inner = nd.get('e')
                if isinstance(inner, dict) and inner.get('k') == 'var' and inner.get('vk') in ('local', 'param') and inner['name'] in avail:
                    n[0] += 1
                    out = json.loads(avail[inner['name']])
                    out['_was'] = inner['name']
                    return out
            elif nd.get('k') == 'var' and nd.get('name', '').startswith('$ret') and nd['name'] in avail:
                # the Inliner substitutes a call expression by its return temporary as a bare variable node
                n[0] += 1
                out = json.loads(avail[nd['name']])
                out['_was'] = nd['name']
                return out
            return None
        return simplify(subst(x, r))

    for b, blk in fn.blocks.items():
        for i, e in enumerate(blk.events):
            S = ev_in.get((b, i))
            if not S:
                continue
            if e['ev'] == 'load':
                v = strip_load(e['e'])
                hit = [x for x in S if isinstance(v, dict) and v.get('k') == 'var' and v.get('vk') in ('local', 'param') and x[0] == v['name']]
                if hit:
                    ex = json.loads(hit[0][1])
                    was = v['name']
                    e['e'] = strip_load(ex)
                    e['e']['_was'] = was
                    n[0] += 1
                else:
                    e['e'] = rewrite(e['e'], S)
                continue
            for key in ('rhs', 'args', 'fnexpr', 'value', 'init'):
                if key in e:
                    e[key] = rewrite(e[key], S)
            if e['ev'] == 'store':
                l = e['lhs']
                if strip(l).get('k') != 'var':
                    e['lhs'] = rewrite(l, S)
        S = ev_in.get((b, len(blk.events)))
        if S and blk.term and blk.term.get('cond') is not None:
            blk.term = dict(blk.term, cond=rewrite(blk.term['cond'], S))
    return n[0]


def _collapse_substituted_addresses(g):
    """The Inliner substitutes `&x` for a pointer parameter p inside the read of p: `*p = 1` becomes
    `*load(&x) = 1`.  Reading an address value is the address: collapse, so that `*&x` simplifies to x
    (an out-parameter flag is then a plain local again).  The `enter` marker of an inlined call keeps a copy
    of the argument list; the calls' effects are the inlined body, so the copy is dropped (it would make
    every local passed by address look address-taken for good)."""
    def r(nd):
        if nd.get('k') == 'load' and isinstance(nd.get('e'), dict) and nd['e'].get('k') == 'addr':
            return subst(nd['e'], r)
        return None
    for blk in g.blocks.values():
        for e in blk.events:
            if e['ev'] == 'enter':
                e['inlined_args'] = e.get('args', [])
                e['args'] = []
                continue
            for key in ('rhs', 'args', 'fnexpr', 'value', 'init', 'lhs', 'e'):
                if key in e and isinstance(e[key], (dict, list)):
                    e[key] = simplify(subst(e[key], r))
        if blk.term and blk.term.get('cond') is not None:
            blk.term = dict(blk.term, cond=simplify(subst(blk.term['cond'], r)))


def _lower_conditional_stores(g):
    """`v = c ? A : B;` is evaluated by clang in a join block behind the two (empty) arms of the
    conditional operator.  Duplicate the join block per arm and store the arm's value, so that a
    flag computed with `?:` reads like one computed with if/else (flag partitioning then applies)."""
    from ..core import Block
    n = 0
    while True:
        preds = {}
        for b in g.blocks.values():
            for t in b.succ:
                if t is not None:
                    preds.setdefault(t, []).append(b.id)
        hit = None
        for j, J in g.blocks.items():
            if j in (g.exit, g.entry):
                continue
            for idx, e in enumerate(J.events):
                if e['ev'] != 'store' or e.get('op') != '=' or 'rhs' not in e or var_name(e['lhs']) is None:
                    continue
                r = strip(e['rhs'])
                if not (isinstance(r, dict) and r.get('k') == 'cond'):
                    continue
                ps = preds.get(j, [])
                if len(ps) != 2 or ps[0] == ps[1]:
                    continue
                P = [g.blocks[x] for x in ps]
                if any(p.succ != [j] or len(preds.get(p.id, [])) != 1 for p in P):
                    continue
                t0, t1 = preds[P[0].id][0], preds[P[1].id][0]
                if t0 != t1:
                    continue
                T = g.blocks[t0]
                if not T.term or T.term.get('cond') is None or sorted(T.succ) != sorted(ps) or canon(T.term['cond']) != canon(r['c']):
                    continue
                hit = (J, idx, r, T)
                break
            if hit:
                break
        if not hit:
            break
        J, idx, r, T = hit
        nid = max(g.blocks) + 1
        for k, (arm, val) in enumerate(((T.succ[0], r['a']), (T.succ[1], r['b']))):
            evs = copy.deepcopy(J.events)
            evs[idx]['rhs'] = copy.deepcopy(val)
            nb = Block(nid + k, evs, list(J.succ), copy.deepcopy(J.term), J.noreturn)
            g.blocks[nb.id] = nb
            g.blocks[arm].succ = [nb.id]
        del g.blocks[J.id]
        n += 1
    if n:
        g._preds = None
        for b in g.blocks.values():
            for i, e in enumerate(b.events):
                e['_b'] = b.id
                e['_i'] = i
    return n


def _prune_constant_branches(g):
    """`if (1)` / `if (0 != 0)` left behind when a constant argument was substituted for a parameter:
    drop the edge that cannot be taken"""
    n = 0
    for blk in g.blocks.values():
        if blk.term and blk.term.get('cond') is not None and len(blk.succ) == 2 \
                and blk.term.get('cls') not in ('SwitchStmt', 'MethodDispatch'):
            c = strip(fold(blk.term['cond']))
            if isinstance(c, dict) and c.get('k') in ('int', 'null'):
                v = 0 if c.get('k') == 'null' else c['v']
                blk.succ = [blk.succ[0] if v else blk.succ[1]]
                blk.term = dict(blk.term, cls='Pruned', pruned=('false' if v else 'true'))
                blk.term.pop('cond', None)
                n += 1
    if n:
        g._preds = None
    return n


def _resolve_indirect(g):
    """A callback called through a local that was loaded from the handler field earlier
    (`h = ie->handler; ...; h(c)`): name the call site by the field.  Only the identity of the site is
    concerned (which kind of callback is entered), so a barrier between load and call does not matter."""
    from ..analyses import CALLBACK_FIELDS
    n = 0
    defs = {}
    for e in g.events():
        if e['ev'] == 'store':
            v = var_name(e['lhs'])
            if v is not None:
                defs.setdefault(v, []).append(e)
    for e in g.events():
        if e['ev'] != 'call' or 'fnexpr' not in e:
            continue
        v = var_name(e['fnexpr'])
        if v is None or v not in defs:
            continue
        ds = defs[v]
        if all(d.get('op') == '=' and 'rhs' in d and last_member(d['rhs']) in CALLBACK_FIELDS for d in ds) \
                and len({canon(d['rhs']) for d in ds}) == 1:
            fe = copy.deepcopy(ds[0]['rhs'])
            fe['_was'] = v
            e['fnexpr'] = fe
            n += 1
    return n


def normalise(g, rounds=6):
    """in-place value propagation to a fixpoint (g must be a private copy: an Inliner result).  A flag
    that reaches its test through copies (`return kicked;` ... `run = helper(); if (run)`) becomes a
    tested flag only after propagation: flag partitioning is repeated then."""
    if getattr(g, '_h08_normalised', False):
        return g
    _collapse_substituted_addresses(g)
    _lower_conditional_stores(g)
    for _ in range(rounds):
        for _ in range(rounds):
            if not _propagate_once(g):
                break
        changed = _prune_constant_branches(g)
        if os.environ.get('IVY_NO_FLAGS') != '1' and partition_flags(g, max_flags=8):
            changed = True
        if not changed:
            break
    _resolve_indirect(g)
    g._h08_normalised = True
    return g


def inline(prog, f, **kw):
    return normalise(Inliner(prog, **kw).inline(f))


# --------------------------------------------------------------------------
# contexts
# --------------------------------------------------------------------------

def closure_of(prog, owners):
    """{q: Func} of every function from which one of `owners` is reachable by direct calls"""
    out = {}
    for o in owners:
        for c in roles.callers_closure(prog, o):
            out[c.q] = c
    return out


def root_contexts(prog, site_pred, what, anchor=None):
    """[(root Func, inlined+normalised root, [site events])] for every entry point (external linkage or
    address taken) from which an event satisfying site_pred is reachable by direct calls.  anchor: the
    predicate that finds the functions containing the site in un-normalised bodies (default site_pred)."""
    owners = roles.functions_with(prog, anchor or site_pred)
    if not owners:
        raise AnalysisBroken('%s: site not found' % what)
    cl = closure_of(prog, owners)
    rts = {r.q: r for r in roles.roots(prog)}
    cache = prog.__dict__.setdefault('_h08_ctx', {})
    out = []
    for q in sorted(cl):
        if q not in rts:
            continue
        if q not in cache:
            cache[q] = inline(prog, cl[q])
        g = cache[q]
        sites = [e for e in g.events() if site_pred(e)]
        if sites:
            out.append((cl[q], g, sites))
    if not out:
        raise AnalysisBroken('%s: no entry point reaches the site' % what)
    return out, cl


# --------------------------------------------------------------------------
# typed access-path helpers
# --------------------------------------------------------------------------

def member_of(x):
    """the member node an address argument `&O->f` / `&O.f` designates, else None"""
    a = strip(x)
    if isinstance(a, dict) and a.get('k') == 'addr':
        m = strip(a['e'])
        if isinstance(m, dict) and m.get('k') == 'member':
            return m
    return None


def container_ptr(x, key):
    """for `&O->f` with (record, f) == key: the pointer expression O; for `&V.f`: `&V`; else None"""
    m = member_of(x)
    if m is None or (m.get('record'), m['field']) != key:
        return None
    if m['arrow']:
        return m['base']
    b = strip(m['base'])
    if isinstance(b, dict) and b.get('k') == 'deref':
        return b['e']
    return {'k': 'addr', 'e': m['base']}


def spellings(x):
    """canonical strings under which the value of x is known (its own text, and the locals it was cached in)"""
    out = set()
    y = x
    while isinstance(y, dict):
        out.add(canon(y))
        if '_was' in y:
            out.add(y['_was'])
        if y.get('k') in ('load', 'cast', 'paren', 'stmtexpr') and isinstance(y.get('e'), dict):
            y = y['e']
        else:
            break
    return out


def same(a, b):
    return bool(spellings(a) & spellings(b))


def var_name(x):
    x = strip(x)
    if isinstance(x, dict) and x.get('k') == 'var' and x.get('vk') != 'func':
        return x['name']
    return None


def written_vars(g):
    w = set()
    for e in g.events():
        if e['ev'] == 'store':
            n = var_name(e['lhs'])
            if n is not None:
                w.add(n)
        if e['ev'] == 'call':
            for a in e.get('args', []):
                a = strip(a)
                if isinstance(a, dict) and a.get('k') == 'addr' and var_name(a['e']):
                    w.add(var_name(a['e']))
    return w


def value_sets(g, gen, seeds=()):
    """Forward must-analysis: the set of plain variables that hold, before every event, a value of the
    class described by gen(expr, S) -> bool (S = current set).  `v = E` with gen(E) adds v, any other
    definition of v removes it; on an `a == b` edge where one side is in the class, the other side (if a
    plain variable) joins it."""
    def tr(e, S):
        if e['ev'] == 'store':
            n = var_name(e['lhs'])
            if n is not None:
                S2 = S - {n}
                if e.get('op') == '=' and 'rhs' in e and gen(e['rhs'], S):
                    S2 = S2 | {n}
                return S2
        elif e['ev'] == 'decl':
            return S - {e['name']}
        elif e['ev'] == 'call':
            for a in e.get('args', []):
                a = strip(a)
                if isinstance(a, dict) and a.get('k') == 'addr' and var_name(a['e']) in S:
                    S = S - {var_name(a['e'])}
        return S

    def edge(blk, si, S):
        if blk.term and blk.term.get('cond') is not None and len(blk.succ) == 2 \
                and blk.term.get('cls') not in ('SwitchStmt', 'MethodDispatch'):
            for (op, lc, rc, l, r) in norm_cond(blk.term['cond'], si == 0):
                if op != '==' or not isinstance(l, dict) or not isinstance(r, dict):
                    continue
                if gen(l, S) and var_name(r):
                    S = S | {var_name(r)}
                elif gen(r, S) and var_name(l):
                    S = S | {var_name(l)}
        return S
    _, ev_in = forward(g, frozenset(seeds), tr, lambda a, b: a & b, edge=edge)
    return ev_in


def in_class(x, S, direct):
    """x is a plain variable in S, was cached in one, or satisfies direct(x)"""
    if not isinstance(x, dict):
        return False
    n = var_name(x)
    if n is not None and n in S:
        return True
    y = x
    while isinstance(y, dict):
        if y.get('_was') in S:
            return True
        if y.get('k') in ('load', 'cast', 'paren', 'stmtexpr') and isinstance(y.get('e'), dict):
            y = y['e']
        else:
            break
    return direct(x)


# --------------------------------------------------------------------------
# guarded list memory of the iv_event machinery
# --------------------------------------------------------------------------

PENDING = ('iv_state', 'events_pending')
LINK = ('iv_event', 'list')


def list_class(x, batches):
    """Which list of the iv_event machinery a `struct iv_list_head *` value points into:
    'pending' (&O->events_pending), 'link' (&E->list), 'batch' (a local head the pending list was
    detached to), a node reached from one of them through ->next/->prev; else None."""
    a = strip(x)
    if not isinstance(a, dict):
        return None
    if a.get('k') == 'addr':
        m = strip(a['e'])
        if isinstance(m, dict) and m.get('k') == 'member':
            key = (m.get('record'), m['field'])
            if key == PENDING:
                return 'pending'
            if key == LINK:
                return 'link'
        if canon(a) in batches:
            return 'batch'
        return None
    if a.get('k') == 'member' and a.get('record') == 'iv_list_head' and a['field'] in ('next', 'prev'):
        head = a['base'] if a['arrow'] else {'k': 'addr', 'e': a['base']}
        c = list_class(head, batches)
        return ('node of ' + c) if c else None
    return None


def list_accesses(g, batches):
    """[(event, class, what)] events of g that read or write link fields of the guarded lists"""
    out = []
    for e in g.events():
        if e['ev'] == 'call' and e.get('callee') in (LIST_WRITERS | {'iv_list_empty'}):
            cls = [list_class(a, batches) for a in e.get('args', [])]
            cls = [c for c in cls if c]
            if cls:
                out.append((e, cls[0], '%s(%s)' % (e['callee'], ', '.join(canon(a) for a in e['args']))))
        elif e['ev'] == 'load':
            x = strip_load(e['e'])
            c = list_class(x, batches)
            if c and c.startswith('node of'):
                out.append((e, c, 'read ' + canon(x)))
        elif e['ev'] == 'store':
            x = strip(e['lhs'])
            c = list_class(x, batches)
            if c and c.startswith('node of'):
                out.append((e, c, 'write ' + canon(x)))
    return out


def is_event_site(e):
    return e['ev'] == 'call' and callback_kind(e) == ('callback', 'event')


def touches_event_handler(e):
    """role anchor of the runner in un-normalised function bodies: the handler field of an iv_event is
    read (to be called, directly or through a local)"""
    if is_event_site(e):
        return True
    return e['ev'] == 'load' and last_member(strip_load(e['e'])) == ('iv_event', 'handler')
