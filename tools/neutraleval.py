#!/usr/bin/env python3
"""Runs every registered quick check against each behaviour-preserving
refactoring patch in a directory (patchN.diff), applied to /repo and undone
afterwards.  Any non-zero exit is a false-alarm candidate to be triaged.
usage: neutraleval.py <dir-with-patches> <name>   (kept patches go to /verif/neutral_seeded/<name>/)"""
import json
import os
import re
import shutil
import subprocess
import sys
VERIF = os.path.dirname(os.path.dirname(os.path.abspath(__file__)))


def sh(cmd, cwd=None, timeout=900):
    p = subprocess.run(cmd, shell=True, cwd=cwd, capture_output=True, text=True, timeout=timeout)
    return p.returncode, (p.stdout + p.stderr)


def main():
    src, name = sys.argv[1], sys.argv[2]
    dst = os.path.join(VERIF, 'neutral_seeded', name)
    os.makedirs(dst, exist_ok=True)
    man = json.load(open(os.path.join(VERIF, 'MANIFEST.json')))
    rc, o = sh('git -C /repo status --porcelain --untracked-files=no')
    if o.strip():
        print('/repo has local modifications; refusing')
        return 2
    results = {}
    for fn in sorted(os.listdir(src)):
        if not re.match(r'patch\d+\.diff$', fn):
            continue
        p = os.path.join(src, fn)
        rc, o = sh('git -C /repo apply --check %s' % p)
        if rc != 0:
            print(fn, 'does not apply:', o[:200])
            continue
        shutil.copy(p, os.path.join(dst, fn))
        sh('git -C /repo apply %s' % p)
        alarms = {}
        try:
            for c in man['checks']:
                rc, o = sh('IVY_EVIDENCE_DIR=/tmp/seed/evidence-scratch ' + c['quick_cmd'], cwd=VERIF, timeout=600)
                if rc != 0:
                    alarms[c['property_id']] = {'exit': rc,
                                                'failed': ['%s [%s] %s' % f for f in re.findall(r'FAILED (\S+) \[(.*?)\] at (\S+)', o)][:6],
                                                'broken': re.findall(r'ANALYSIS-BROKEN .*', o)[:3]}
        finally:
            sh('git -C /repo checkout -- .')
        results[fn] = alarms
        print(fn, 'SILENT' if not alarms else 'ALARMS: %s' % json.dumps(alarms)[:600])
    if os.path.exists(os.path.join(src, 'notes.md')):
        shutil.copy(os.path.join(src, 'notes.md'), os.path.join(dst, 'notes.md'))
    json.dump(results, open(os.path.join(dst, 'result.json'), 'w'), indent=1)
    return 0


if __name__ == '__main__':
    sys.exit(main())
